"""C13 — scene scores pool the frame results; frame evaluation is history-independent.

One case = one OPERATION SEQUENCE on ONE real `PerceptionEvaluationManager` (built on
/repo/perception_eval/test/sample_data, `ground_truth_frames` replaced by 2..5 generated
`FrameGroundTruth` objects holding real `DynamicObject`s):

    add(frame k, estimate list e, critical filter a, pass/fail b) | scene | lookup(t)

Processes.  The check process itself evaluates nothing.  The sequence runs in a child process forked from a server that has
only IMPORTED the library, and every history-free reference evaluation ("the same call with no history": a new manager, for
tracking the predecessor call and the call) runs in a child of its own.  So (i) nothing the library keeps at module / class
level can be shared between the stateful call and its reference (a memo of the critical filter keyed by the frame's time
stamp - defect F5 re-introduced as a cache - is now seen), and (ii) a case leaves nothing behind for the next one: it behaves
in a replay exactly as in the run.  Budgets are case counts; no wall clock decides what is run.

Tie to the code (lock-step): the Lean state machine `PEval.Manager.run` is stepped over an abstraction
of the same operations.  Its abstract single-frame evaluation (`Sem.evalDet` / `Sem.evalTrack`) is
instantiated with what the history-free reference computes for that call alone (for tracking: for the
predecessor call and that call alone): per target label the stored object results as
(estimate id, GT id, confidence as exact Fraction, TP value under every configured threshold for AP and
APH) and the ground-truth counts.  Compared after every operation: frame scores of the STATEFUL
manager vs the model's (which only knows the history-free evaluation), scene scores vs the model's pooled
scores (1e-9), look-ups (the NAME of the frame handed out), the dataset.

Tracking managers additionally run the EXTENDED machine `PEval.ManagerTracking.trun` (driver op `trun`): the stored
object results of every reference evaluation are also handed over per label in the vocabulary of the CLEAR model (uuid
numbers, labels, matching value per mode, is_label_correct), and the model COMPUTES every per-frame tracking score
(`evalClear [previous stored bucket, current bucket]`) and the scene tracking score (`evalClear` over
`[[]] ++ stored buckets`, summed GT counts).  Compared: MOTA, MOTP, id switches, tp, fp, tp_matching_score,
predict_num, num_ground_truth per label and threshold list (and the private `_sum_clear()` total when it can be resolved), for
every add and every scene.

Oracle (independent of the model): the property text on the real outputs, clause by clause (each clause quotes its sentence):
same call, different prefixes, same result (vs the history-free reference and among repetitions; tracking: vs predecessor +
call); dataset (objects with pose, size, velocity, point number, visibility; the transforms registered when the case started)
and the caller's estimate lists (content and element identity) untouched after every operation; every frame result handed to the
caller keeps the object results / ground truths it was evaluated with; scene score = recomputation from `manager.frame_results`
with the LIBRARY's pooling rule (`divide_objects`, the mechanism the property names) and fresh `MetricsScore` objects; GT counts
add up; one-frame scene = that frame's detection score; pooled AP invariant under a permuted insertion order (real manager run on
the permuted order) for the labels whose pooled confidences are pairwise distinct.
Not demanded (audit 3): that a look-up returns the very frame object (a defensive copy is fine: the frame is named by its
frame_name); HOW a tracking score is built (no own CLEAR / TrackingMetricsScore construction, no "scene counts = sums of the frame
rows"); an own bucketing rule; `used_frame`; exception classes.
"""
from __future__ import annotations

import math
import tempfile
from fractions import Fraction

from .. import core

PROP = "C13"
EXHAUSTIVE = False
THEOREMS = [
    "PEval.C13." + t
    for t in [
        "add_preserves_dataset", "queries_pure", "lookup_returns_dataset_frame", "estimates_untouched",
        "add_detection_history_free", "stored_detection_history_free",
        "add_tracking_depends_on_last_only", "add_tracking_same_last", "add_tracking_two_step", "add_tracking_first",
        "scene_numgt_sum", "scene_total_numgt", "scene_numgt_sum_ops",
        "scene_eq_pooled", "scene_eq_pooled_ops", "scene_single_frame",
        "sort_perm_eq", "pooled_perm", "pooled_ap_perm_invariant", "pooled_ap_perm_invariant_ops",
        # tracking scores concrete (Properties/C13Tracking.lean, extended machine PEval.ManagerTracking)
        "tracking_machine_refines",
        "frame_tracking_depends_on_last_only", "frame_tracking_same_last", "frame_tracking_two_step", "frame_tracking_first",
        "scene_tracking_eq_pooled", "scene_tracking_eq_pooled_ops", "scene_tracking_single_frame",
        "scene_tracking_switches_sum_from", "scene_tracking_switches_sum", "scene_tracking_mota_weighted_mean",
        "scene_tracking_rename_invariant", "scene_tracking_rename_invariant_from",
        # heap model (Model/ManagerHeap.lean, Properties/C13Heap.lean): references, explicit writes; each of these is FALSE for
        # the F5 / estimate-write-back variants of the model (examples in C13Heap.lean)
        "heap_cells_unchanged", "dataset_deref_unchanged", "estimates_deref_unchanged", "stored_results_stay_good",
        "add_detection_history_free_heap", "add_same_values_same_result",
        "add_tracking_last_only_heap", "add_tracking_same_last_heap", "last_object_results_after_add",
        "add_tracking_two_step_heap", "add_tracking_first_heap",
        "heap_refines_manager", "heap_refines_manager_from", "heap_scene_eq_manager_scene", "heap_scene_eq_pooled_ops",
        # Manager.apOf is the AP of Model/AP.lean (Lemmas/ManagerAPLink.lean); order-independence for the real Ap
        "manager_apOf_eq_AP_apOf", "pooled_real_ap_perm_invariant",
        # Properties/C13Scene.lean: the pooling machine's scene score (concrete Manager.apOf) = the APs / APHs of AP.sceneMap
        # (the C04 model of get_scene_result -> Map -> Ap); one-frame scene = AP.frameMap of that frame
        "stateOfAP_score", "manager_scene_eq_AP_sceneMap", "manager_single_frame_eq_AP_frameMap",
        # the heap machine with concrete tracking scores refines ManagerTracking.trun (Properties/C13Tracking.lean)
        "heap_refines_tracking_machine", "heap_frame_tracking_depends_on_last_only",
    ]
]
RULE = (
    "seeded random operation sequences (add/scene/lookup; quick 150 x <= 12 ops, thorough 1200 x <= 40 ops: fixed case counts, no "
    "wall-clock budget) over 2..5 generated frames, 2..5 estimate lists, 2..4 critical "
    "filters (x/y or distance ranges, narrow and wide, optional confidence thresholds), 1..2 pass/fail configs; detection and "
    "tracking task; base_link and map frame; patterns: random, narrow-then-wider filter on one GT frame, repeated identical "
    "calls, permuted frame orders (with the permuted run on a second real manager), one-frame scenes, scene before any add, "
    "tracking managers fed the frames in recording order (carry-over, id switches) with repeats and interleaved scenes; "
    "non-trivial = at least one add that stores an object result or a ground truth; distinct = distinct case JSON"
)
TRUSTED = [
    "tracking view handed to the extended model: per stored result (uuid number, label number, GT uuid/label/is_fp, "
    "get_matching(mode).value for the four modes, is_label_correct), bucketed by the library's divide_objects; threshold lists and "
    "their order read from manager.metrics_config.tracking_config",
    "abstraction of a stored frame result handed to the model: bucketing by label through the library's public divide_objects "
    "(the pooling rule is not C13's subject), DynamicObjectWithPerceptionResult.is_result_correct and TPMetricsAph.get_value for the "
    "TP value per threshold (matching and TP decisions themselves are C01-C09, abstract here)",
    "the reference for history-independence is a newly constructed PerceptionEvaluationManager (dataset_paths=[], or the sample data "
    "if an empty list is rejected; generated frames) evaluating only that call (tracking: the predecessor call and that call) in a "
    "process of its own, forked from a server that has imported the library and evaluated nothing (os.fork; results as JSON)",
]
ASSUMPTIONS = [
    "critical-filter target labels = the manager's target labels (frame-level Map raises KeyError otherwise)",
    "3-D tasks (detection, tracking); 2-D/classification managers share the same add/scene code and are not generated",
    "tracking: TP weight = TPMetricsAp (1 per TP), as MetricsScore.evaluate_tracking constructs its CLEARs; the matching values "
    "(centre/plane distance, IoU) of the stored results are inputs of the model (exact Fractions of the real floats)",
]

LABELS = ["car", "bicycle", "pedestrian", "motorbike"]
THR_TIME = 75000
_TMP = None


# ----------------------------------------------------------------------------- real objects

def _tmpdir():
    """one scratch directory per process, removed at exit (the reference server and its children use the parent's)"""
    global _TMP
    if _TMP is None:
        import atexit
        import shutil

        _TMP = tempfile.mkdtemp(prefix="c13_")
        atexit.register(shutil.rmtree, _TMP, True)
    return _TMP


def _cfg_dict(task):
    return {
        "evaluation_task": task, "target_labels": list(LABELS),
        "max_x_position": 100.0, "max_y_position": 100.0, "min_point_numbers": [0, 0, 0, 0],
        "label_prefix": "autoware", "merge_similar_labels": False, "allow_matching_unknown": True,
        "center_distance_thresholds": [[1.0, 1.0, 1.0, 1.0], [2.0, 2.0, 2.0, 2.0]],
        "plane_distance_thresholds": [2.0], "iou_2d_thresholds": [0.5], "iou_3d_thresholds": [0.5],
    }


_FIG = None


def _sample_data():
    d = core.REPO / "perception_eval" / "test" / "sample_data"
    if not d.is_dir():  # raised HERE (harness code): a missing checkout is an infrastructure error, not "the loader raised"
        raise RuntimeError(f"sample data not found: {d}")
    return str(d)


def _shared_figure():
    global _FIG
    if _FIG is None:
        import matplotlib.pyplot as plt

        _FIG = plt.subplots()
    return _FIG


def _manager(case, real_dataset):
    """a newly constructed real manager (set-up: every failure here propagates as a harness / infrastructure error).  Only
    matplotlib's figure creation (22 ms per manager, the visualizer is never used here) is short-cut: all managers of this
    process share one figure; if the visualizer stops accepting the short-cut the manager is built without it.  The reference
    managers are built without a dataset (`dataset_paths=[]`); should the library come to reject an empty list they are built
    on the sample data like the main manager (the generated frames replace the loaded ones in either case)."""
    import matplotlib.pyplot as plt
    from perception_eval.config import PerceptionEvaluationConfig
    from perception_eval.manager import PerceptionEvaluationManager

    def build(paths, shortcut):
        cfg = PerceptionEvaluationConfig(
            dataset_paths=paths, frame_id=case["frame_id"], result_root_directory=_tmpdir(),
            evaluation_config_dict=_cfg_dict(case["task"]),
        )
        if not shortcut:
            return PerceptionEvaluationManager(cfg)
        fig = _shared_figure()
        orig = plt.subplots
        plt.subplots = lambda *a, **k: fig
        try:
            return PerceptionEvaluationManager(cfg)
        finally:
            plt.subplots = orig

    last = None
    for paths in ([[_sample_data()]] if real_dataset else [[], [_sample_data()]]):
        for shortcut in (True, False):
            try:
                return build(paths, shortcut)
            except Exception as e:  # noqa: the next, more conservative way of building it
                last = e
    raise last


class Universe:
    """real objects of one case, built from scratch (so that nothing is shared between managers)"""

    def __init__(self, case):
        from pyquaternion import Quaternion
        from perception_eval.common.dataset import FrameGroundTruth
        from perception_eval.common.label import AutowareLabel, Label
        from perception_eval.common.object import DynamicObject
        from perception_eval.common.schema import FrameID
        from perception_eval.common.shape import Shape, ShapeType
        from perception_eval.common.transform import HomogeneousMatrix

        self.hid = {}  # id(python object) -> harness id
        self.keep = []
        is_map = case["frame_id"] == "map"
        lab = {l.value: l for l in AutowareLabel}

        def mk(o, t, ego, score):
            q = Quaternion(axis=[0, 0, 1], angle=o["yaw"])
            pos = (float(o["x"]), float(o["y"]), 0.0)
            fid = FrameID.BASE_LINK
            if is_map:
                pos, q = ego.transform(pos, q)
                pos = tuple(float(v) for v in pos)
                fid = FrameID.MAP
            l = lab[o["label"]]
            d = DynamicObject(t, fid, pos, q, Shape(ShapeType.BOUNDING_BOX, tuple(o.get("size", (2.0, 4.0, 1.5)))), (1.0, 0.0, 0.0),
                              score, Label(l, l.value, []), uuid=o["uuid"], pointcloud_num=o.get("pts", 10))
            self.hid[id(d)] = o["id"]
            self.keep.append(d)
            return d

        self.frames = []
        self.egos = []
        for f in case["frames"]:
            ex, ey, eyaw = f["ego"]
            ego = HomogeneousMatrix((float(ex), float(ey), 0.0), Quaternion(axis=[0, 0, 1], angle=eyaw), FrameID.BASE_LINK, FrameID.MAP)
            self.egos.append(ego)
            objs = [mk(o, f["time"], ego, 1.0) for o in f["objects"]]
            self.frames.append(FrameGroundTruth(f["time"], str(f["name"]), objs, transforms=[ego]))
            from harness import builders as _B  # registry with a history (replaced ego pose), see builders.give_history

            _B.maybe_history(self.frames[-1], ego, ("c13", f["time"], len(objs), ex))
        self.ests = []
        for i, el in enumerate(case["ests"]):
            ego = self.egos[min(i, len(self.egos) - 1)]
            t = case["frames"][min(i, len(self.egos) - 1)]["time"]
            self.ests.append([mk(o, t, ego, o["score"]) for o in el])

    def h(self, obj):
        if obj is None:
            return None
        k = self.hid.get(id(obj))
        if k is not None:
            return k
        # a copy made by the library (interpolated ground truth): identified by its track uuid
        u = str(getattr(obj, "uuid", None))
        if not hasattr(self, "_uuid_ids"):
            self._uuid_ids = {}
        return self._uuid_ids.setdefault(u, 100000 + sum(ord(c) * (i + 1) for i, c in enumerate(u)) % 90000)


def _crit(m, spec):
    from perception_eval.evaluation.result.perception_frame_config import CriticalObjectFilterConfig

    kw = {}
    if spec["mode"] == "xy":
        kw = dict(max_x_position_list=list(spec["max_x"]), max_y_position_list=list(spec["max_y"]))
    else:
        kw = dict(max_distance_list=list(spec["max_d"]), min_distance_list=list(spec["min_d"]))
    if spec.get("conf") is not None:
        kw["confidence_threshold_list"] = list(spec["conf"])
    return CriticalObjectFilterConfig(m.evaluator_config, list(LABELS), **kw)


def _pf(m, spec):
    from perception_eval.evaluation.result.perception_frame_config import PerceptionPassFailConfig

    return PerceptionPassFailConfig(m.evaluator_config, list(LABELS), matching_threshold_list=list(spec["thr"]))


def _f(x):
    """canonical float: inf/nan -> None"""
    if x is None:
        return None
    x = float(x)
    return None if (math.isinf(x) or math.isnan(x)) else x


def _label_index(m):
    return {l: i for i, l in enumerate(m.target_labels)}


def _bucket(m, results):
    """per target label the object results, filed by the LIBRARY's public pooling rule `divide_objects` (the property's
    mechanism anchor: "get_scene_result: pools divide_objects buckets and GT counts over frame_results").  The statement says
    "the score computed from the pooled per-frame object results" and does not say under which label a result is filed, so the
    harness has no rule of its own here (AUDIT3 G5: an own re-implementation alarmed on a consistent change of the rule)."""
    from perception_eval.evaluation.matching.objects_filter import divide_objects

    d = divide_objects(list(results), list(m.target_labels))
    return [list(d[l]) for l in m.target_labels]


def _count(m, objects):
    from perception_eval.evaluation.matching.objects_filter import divide_objects_to_num

    d = divide_objects_to_num(list(objects), list(m.target_labels))
    return [int(d[l]) for l in m.target_labels]


def _maps_summary(score):
    out = []
    for mp in score.maps:
        out.append({
            "mode": mp.matching_mode.value, "thr": [float(t) for t in mp.matching_threshold_list],
            "aps": [_f(a.ap) for a in mp.aps], "aphs": [_f(a.ap) for a in mp.aphs],
            "n": [a.objects_results_num for a in mp.aps], "ngt": [a.num_ground_truth for a in mp.aps],
            "map": _f(mp.map), "maph": _f(mp.maph),
        })
    return out


def _clear_row(c):
    """(mota, motp, id_switch, tp, fp, predict_num, num_ground_truth, tp_matching_score)"""
    return [_f(c.mota), _f(c.motp), c.id_switch, _f(c.tp), _f(c.fp), c.objects_results_num, c.num_ground_truth, _f(c.tp_matching_score)]


def _ts_summary(ts):
    out = {"mode": ts.matching_mode.value, "clears": [_clear_row(c) for c in ts.clears]}
    # `_sum_clear` is a PRIVATE helper of TrackingMetricsScore (its only public outlet is the text of __str__) and is not
    # named by the property: it is observed when it exists and dropped for the run otherwise, never a violation
    fn = getattr(ts, "_sum_clear", None)
    if callable(fn):
        mo, mp, sw = fn()
        out["total"] = [_f(mo), _f(mp), int(sw)]
    return out  # without "total": histogram key `unobservable:_sum_clear` (see `branches`)


def _track_summary(score):
    return [_ts_summary(ts) for ts in score.tracking_scores]


# matching modes in the order of the model's `TRes.values`; the bool = "larger is better"
def _modes():
    from perception_eval.evaluation.matching import MatchingMode as M

    return [(M.CENTERDISTANCE, False), (M.IOU2D, True), (M.IOU3D, True), (M.PLANEDISTANCE, False)]


def _tcfgs(m):
    """the TrackingMetricsScore objects MetricsScore.evaluate_tracking builds, read from the CONFIGURATION:
    (mode number, maximize, threshold list), in the order centre distance, IoU 2D, IoU 3D, plane distance"""
    tc = m.metrics_config.tracking_config
    out = []
    for mi, lists in ((0, tc.center_distance_thresholds), (1, tc.iou_2d_thresholds), (2, tc.iou_3d_thresholds), (3, tc.plane_distance_thresholds)):
        for thr in lists:
            out.append({"mode": mi, "maximize": _modes()[mi][1], "thr": [float(t) for t in thr]})
    return out


def _label_no(label):
    """label number of the model: index among the target labels, other labels after them"""
    v = label.value
    if v in LABELS:
        return LABELS.index(v)
    return len(LABELS) + sorted(l.value for l in type(label)).index(v)


def _uuid_no(case):
    """uuid string -> number, fixed by the case (the same in every Universe built from it)"""
    us = sorted({o["uuid"] for f in case["frames"] for o in f["objects"]} | {o["uuid"] for el in case["ests"] for o in el})
    return {u: i for i, u in enumerate(us)}


def _tb_data(m, case, r):
    """the tracking view handed to the extended model: per target label the stored object results as `TRes`"""
    from perception_eval.evaluation.metrics.detection.tp_metrics import TPMetricsAp

    un = _uuid_no(case)
    tpm = TPMetricsAp()
    out = []
    for b in _bucket(m, r.object_results):
        rows = []
        for x in b:
            eo, go = x.estimated_object, x.ground_truth_object
            vs = []
            for mode, _ in _modes():
                mt = x.get_matching(mode)
                v = mt.value if (mt is not None and mt.value is not None) else 0.0
                vs.append(core.q(float(v)))
            row = {"e": un[eo.uuid], "el": _label_no(eo.semantic_label.label), "g": None, "v": vs,
                   "ok": bool(x.is_label_correct), "w": core.q(float(tpm.get_value(x)))}
            if go is not None:
                row.update(g=un[go.uuid], gl=_label_no(go.semantic_label.label), gfp=bool(go.semantic_label.is_fp()))
            rows.append(row)
        out.append(rows)
    return out


def _track_flat(tr):
    return [v for t in tr for c in t["clears"] for v in c]


def _frame_summary(m, U, r):
    pf = r.pass_fail_result
    pair = lambda x: [U.h(x.estimated_object), U.h(x.ground_truth_object)]
    return {
        "frame_name": int(r.frame_name), "unix_time": r.unix_time,
        "results": [pair(x) for x in r.object_results],
        "buckets": [[U.h(x.estimated_object) for x in b] for b in _bucket(m, r.object_results)],
        "gt": [U.h(o) for o in r.frame_ground_truth.objects],
        "numgt": _count(m, r.frame_ground_truth.objects),
        "tp": [pair(x) for x in pf.tp_object_results], "fp": [pair(x) for x in pf.fp_object_results],
        "fn": [U.h(o) for o in pf.fn_objects], "tn": [U.h(o) for o in pf.tn_objects],
        "maps": _maps_summary(r.metrics_score), "tracking": _track_summary(r.metrics_score),
        "num_gt": r.metrics_score.num_ground_truth,
    }


def _det_data(m, U, r):
    """the abstraction handed to the model: per label (id, gt, confidence, TP value per metric column)"""
    from perception_eval.common.threshold import get_label_threshold
    from perception_eval.evaluation.metrics.detection.tp_metrics import TPMetricsAph

    aph = TPMetricsAph()
    labels = m.target_labels
    cols = [(mp.matching_mode, mp.matching_threshold_list) for mp in r.metrics_score.maps]
    buckets = []
    for li, b in enumerate(_bucket(m, r.object_results)):
        rows = []
        for x in b:
            sl = x.ground_truth_object.semantic_label if x.ground_truth_object is not None else x.estimated_object.semantic_label
            tps = []
            for mode, thr_list in cols:
                thr = get_label_threshold(sl, [labels[li]], [thr_list[li]])
                ok = thr is not None and x.is_result_correct(mode, thr)
                tps.append("1" if ok else "0")
                tps.append(core.q(aph.get_value(x)) if ok else "0")
            row = {"id": U.h(x.estimated_object), "conf": core.q(x.estimated_object.semantic_score), "tp": tps}
            if x.ground_truth_object is not None:
                row["gt"] = U.h(x.ground_truth_object)
            rows.append(row)
        buckets.append(rows)
    return {"results": buckets, "numgt": _count(m, r.frame_ground_truth.objects), "ncols": 2 * len(cols)}


def _det_data_t(m, U, case, r):
    d = _det_data(m, U, r)
    if case["task"] == "tracking":
        d["tb"] = _tb_data(m, case, r)
    return d


def _obj_print(U, o):
    """everything of an object the evaluation reads: a later evaluation must not find any of it changed"""
    st = o.state
    q = getattr(st.orientation, "q", st.orientation)
    vel = None if st.velocity is None else [float(v) for v in st.velocity]
    size = None if st.shape is None else [float(v) for v in st.size]
    vis = getattr(o, "visibility", None)
    return [U.h(o), o.semantic_label.label.value, [float(v) for v in st.position], float(o.semantic_score), o.uuid,
            [float(v) for v in q], size, vel, o.pointcloud_num, getattr(vis, "value", vis), o.unix_time,
            getattr(o.frame_id, "value", str(o.frame_id))]


def _transforms_print(f):
    """the registered transforms of a frame as {key text: 4x4 matrix}; None when the registry cannot be listed"""
    items = getattr(getattr(f, "transforms", None), "items", None)
    if not callable(items):
        return None
    return {str(k): [[float(v) for v in row] for row in mat.matrix] for k, mat in items()}


def _snapshot(m, U, ests):
    return {
        "frames": [[f.unix_time, f.frame_name, [_obj_print(U, o) for o in f.objects]] for f in m.ground_truth_frames],
        "transforms": [_transforms_print(f) for f in m.ground_truth_frames],
        "ests": [[_obj_print(U, o) for o in el] for el in ests],
    }


def _val_eq(a, b):
    """snapshot equality: structure, strings and ints exactly; floats within 1e-9 (a benign re-normalisation of a quaternion
    is not a modification of the dataset)"""
    if isinstance(a, (list, tuple)) and isinstance(b, (list, tuple)):
        return len(a) == len(b) and all(_val_eq(x, y) for x, y in zip(a, b))
    if isinstance(a, float) and isinstance(b, float):
        return core.close(a, b) or (math.isnan(a) and math.isnan(b))
    return a == b


def _transforms_kept(now, before):
    """every transform registered when the case started is still registered with the same matrix (entries ADDED by the
    library - e.g. a memoised inverse - do not modify what was loaded)"""
    for n, b in zip(now, before):
        if b is None or n is None:
            continue
        for k, mat in b.items():
            if k not in n or not _val_eq(n[k], mat):
                return False
    return True


def _specs(m, case, op):
    """set-up of one add: the critical-filter and pass/fail configurations (constructed outside the judged call)"""
    return _crit(m, case["crit"][op["a"]]), _pf(m, case["pf"][op["b"]])


def _do_add(m, U, case, op, specs=None):
    f = case["frames"][op["k"]]
    crit, pf = specs or _specs(m, case, op)
    if op.get("dt"):
        # ground truth interpolated by the library between frame k and k+1: a deep copy of the earlier frame
        # (registry included) whose ego pose is then replaced
        g = m.get_ground_truth_now_frame(f["time"] + op["dt"], THR_TIME, interpolate_ground_truth=True)
    else:
        g = m.get_ground_truth_now_frame(f["time"], THR_TIME)
    return m.add_frame_result(f["time"], g, U.ests[op["e"]], crit, pf)


def _key(op):
    return (op["k"], op["e"], op["a"], op["b"], op.get("dt", 0))


def _scene_summary(m, sc):
    return {"maps": _maps_summary(sc), "tracking": _track_summary(sc), "num_gt": sc.num_ground_truth}


def _pooled_recompute(m):
    """scene score from manager.frame_results: the library's pooling rule (`divide_objects` per stored frame, see `_bucket`)
    and a fresh MetricsScore"""
    from perception_eval.evaluation.metrics import MetricsScore

    labels = m.target_labels
    allr = {l: [[]] for l in labels}
    alln = {l: 0 for l in labels}
    for fr in m.frame_results:
        b = _bucket(m, fr.object_results)
        n = _count(m, fr.frame_ground_truth.objects)
        for i, l in enumerate(labels):
            allr[l].append(list(b[i]))
            alln[l] += n[i]
    sc = MetricsScore(config=m.metrics_config, used_frame=[int(fr.frame_name) for fr in m.frame_results])
    if m.metrics_config.detection_config is not None:
        sc.evaluate_detection(allr, alln)
    if m.metrics_config.tracking_config is not None:
        sc.evaluate_tracking(allr, alln)
    out = _scene_summary(m, sc)
    out["numgt"] = [alln[l] for l in labels]
    out["confs"] = [[float(x.estimated_object.semantic_score) for fl in allr[l] for x in fl] for l in labels]
    return out


# ----------------------------------------------------------------------------- the history-free reference (child processes)
#
# "gives the same result whatever other evaluations were performed earlier" is judged against the SAME call evaluated with
# no history at all.  A new manager in this process is not enough: whatever the library keeps at module / class level
# (a memo of the critical filter keyed by the frame's time stamp = defect F5 re-introduced as a cache) would be shared by the
# stateful call and its reference (AUDIT3 G5 gap "process-global state is invisible").  Every reference evaluation therefore
# runs in its OWN process: a server (`python -m harness.props.c13 --ref-server`) imports the library once, evaluates nothing,
# and forks one child per job; the child builds the objects of the case from its JSON, a new manager, performs the one call
# (tracking: the predecessor call and the call) and returns the summaries as JSON.  The operation sequence itself (job "main")
# runs in such a child as well: what one case leaves behind at module level cannot reach the next case, so a case behaves in a
# replay (new process) exactly as it did in the run.  The jobs of a case depend on the case alone and run side by side.

_REF = None  # the server process
_REF_JOBS = 8  # children running at a time


def _ref_jobs(case):
    """the reference evaluations of a case: one per distinct add, for tracking one per distinct (predecessor, add)"""
    jobs, seen, prev = [{"kind": "main"}], set(), None
    for op in case["ops"]:
        if op["o"] != "add":
            continue
        k = ("single", _key(op))
        if k not in seen:
            seen.add(k)
            jobs.append({"kind": "single", "op": op})
        if case["task"] == "tracking" and prev is not None:
            k = ("pair", _key(prev), _key(op))
            if k not in seen:
                seen.add(k)
                jobs.append({"kind": "pair", "prev": prev, "op": op})
        prev = op
    return jobs


def _ref_job(case, job):
    """runs in a child process that has evaluated nothing before"""
    if job["kind"] == "main":
        return _main_job(case)
    U = Universe(case)
    m = _manager(case, False)
    m.ground_truth_frames = list(U.frames)
    if job["kind"] == "single":
        r = _do_add(m, U, case, job["op"])
        return {"sum": _frame_summary(m, U, r), "det": _det_data_t(m, U, case, r)}
    _do_add(m, U, case, job["prev"])
    r = _do_add(m, U, case, job["op"])
    return {"track": _track_summary(r.metrics_score)}


def _from_library(e):
    """did the exception come out of a call into the real library (a frame of the package perception_eval in its traceback)?"""
    tb = e.__traceback__
    while tb is not None:
        if str(tb.tb_frame.f_globals.get("__name__", "")).split(".")[0] == "perception_eval":
            return True
        tb = tb.tb_next
    return False


def _ref_server(tmp):
    """the server loop: one request line {"case":…, "jobs":[…]} -> one response line [result per job]"""
    import json
    import logging
    import os
    import sys
    import traceback
    import warnings

    global _TMP
    warnings.filterwarnings("ignore")
    logging.disable(logging.CRITICAL)
    chan = os.fdopen(os.dup(1), "w")
    os.dup2(2, 1)  # whatever the library prints does not disturb the protocol
    _TMP = tmp
    # imports only: the server itself never evaluates anything, every child starts from this state
    import perception_eval.config  # noqa
    import perception_eval.manager  # noqa
    import perception_eval.evaluation.metrics  # noqa
    import perception_eval.evaluation.result.perception_frame_config  # noqa
    from harness import builders  # noqa

    _shared_figure()
    import gc

    gc.collect()
    gc.freeze()  # the children are short-lived copies: keep the collector from touching (= copying) the shared pages
    for line in sys.stdin:
        req = json.loads(line)
        case, jobs = req["case"], req["jobs"]
        results = [None] * len(jobs)
        running = {}
        nxt = 0
        while nxt < len(jobs) or running:
            while nxt < len(jobs) and len(running) < _REF_JOBS:
                path = os.path.join(tmp, f"ref_{os.getpid()}_{nxt}.json")
                pid = os.fork()
                if pid == 0:
                    try:
                        gc.disable()
                        try:
                            res = {"ok": _ref_job(case, jobs[nxt])}
                        except Exception as e:
                            res = {"exc": type(e).__name__, "lib": _from_library(e), "trace": traceback.format_exc()[-800:]}
                        with open(path, "w") as fh:
                            json.dump(res, fh)
                    finally:
                        os._exit(0)
                running[pid] = (nxt, path)
                nxt += 1
            pid, status = os.wait()
            if pid not in running:
                continue
            i, path = running.pop(pid)
            try:
                with open(path) as fh:
                    results[i] = json.load(fh)
                os.unlink(path)
            except Exception as e:
                results[i] = {"exc": "ReferenceProcessDied", "lib": False, "trace": f"exit status {status}; {e!r}"}
        chan.write(json.dumps(results) + "\n")
        chan.flush()


def _ref_start():
    global _REF
    if _REF is None or _REF.poll() is not None:
        import atexit
        import subprocess
        import sys

        import os

        # the BLAS thread pool is re-created in every forked child (~0.1 s each on a 16-core host); the 4x4 products of the
        # library are never threaded, so one thread changes no value
        env = dict(os.environ, OPENBLAS_NUM_THREADS="1", OMP_NUM_THREADS="1", MKL_NUM_THREADS="1")
        _REF = subprocess.Popen([sys.executable, "-W", "ignore", "-m", "harness.props.c13", "--ref-server", _tmpdir()],
                                cwd=str(core.VERIF), env=env, stdin=subprocess.PIPE, stdout=subprocess.PIPE, text=True)

        def stop(p=_REF):
            try:
                p.stdin.close()
                p.wait(timeout=5)
            except Exception:
                p.kill()

        atexit.register(stop)
    return _REF


def _ref_send(case, jobs):
    import json

    p = _ref_start()
    p.stdin.write(json.dumps({"case": core.jsonable(case), "jobs": jobs}) + "\n")
    p.stdin.flush()


def _ref_receive(jobs):
    """{("main",) | ("single", key) | ("pair", prevkey, key): summaries | {"lib_err": …}}; a failure of the harness side of a
    job (or of the server) is an infrastructure error"""
    import json

    line = _REF.stdout.readline()
    if not line:
        raise RuntimeError("C13 reference server died")
    out = {}
    for job, res in zip(jobs, json.loads(line)):
        k = (("main",) if job["kind"] == "main" else ("single", _key(job["op"])) if job["kind"] == "single"
             else ("pair", _key(job["prev"]), _key(job["op"])))
        if "ok" in res:
            out[k] = res["ok"]
        elif res.get("lib"):
            out[k] = {"lib_err": res["exc"], "trace": res["trace"][-600:]}
        else:
            raise RuntimeError(f"C13 reference evaluation failed in the harness: {res.get('exc')}: {res.get('trace')}")
    return out


# ----------------------------------------------------------------------------- implementation run

def _main_job(case):
    """the operation sequence on ONE real manager (runs in its own child process).  Set-up (objects, managers, configurations,
    summaries) is outside the judged calls: an exception there propagates (infrastructure error, or "the real code raised …
    unexpectedly" when it comes out of the library).  `out["err"]` is produced only by the calls the property is about:
    get_ground_truth_now_frame / add_frame_result / get_scene_result."""
    import traceback

    ops = case["ops"]
    outs = []
    U = Universe(case)
    m = _manager(case, True)
    m.ground_truth_frames = list(U.frames)
    snap0 = _snapshot(m, U, U.ests)
    ests0 = [list(el) for el in U.ests]
    returned = []  # (frame result handed to the caller, what it held right after its own add)
    held = lambda r: [[[U.h(x.estimated_object), U.h(x.ground_truth_object)] for x in r.object_results],
                      [U.h(g) for g in r.frame_ground_truth.objects]]

    def failed(e, where=""):
        return {"err": type(e).__name__, "at": len(outs), "outs": outs,
                "trace": where + "".join(traceback.format_exception(type(e), e, e.__traceback__))[-600:]}

    for i, op in enumerate(ops):
        o = {"o": op["o"]}
        if op["o"] == "add":
            specs = _specs(m, case, op)
            try:
                r = _do_add(m, U, case, op, specs)
            except Exception as e:
                return failed(e)
            o["st"] = _frame_summary(m, U, r)
            returned.append((r, held(r)))
        elif op["o"] == "scene":
            try:
                sc = m.get_scene_result()
            except Exception as e:
                return failed(e)
            o["scene"] = _scene_summary(m, sc)
            o["pooled"] = _pooled_recompute(m)
            o["n_frames"] = len(m.frame_results)
            if case["task"] == "tracking":
                o["tcfgs"] = _tcfgs(m)
                o["frame_tracks"] = [_track_summary(fr.metrics_score) for fr in m.frame_results]
            if len(m.frame_results) == 1:
                o["only_frame"] = _maps_summary(m.frame_results[0].metrics_score)
        elif op["o"] == "lookup":
            try:
                g = m.get_ground_truth_now_frame(op["t"], THR_TIME)
            except Exception as e:
                return failed(e)
            # which frame: by its NAME (the statement is about values - "does not modify … the loaded dataset" - a look-up
            # may hand out the frame object itself or a defensive copy of it)
            o["frame"] = None if g is None else int(g.frame_name)
        snap = _snapshot(m, U, U.ests)
        o["frames_ok"] = _val_eq(snap["frames"], snap0["frames"]) and _transforms_kept(snap["transforms"], snap0["transforms"])
        # "does not modify the caller's estimate list": its content AND the very elements of the caller's lists
        o["ests_ok"] = _val_eq(snap["ests"], snap0["ests"]) and all(
            len(a) == len(b) and all(x is y for x, y in zip(a, b)) for a, b in zip(U.ests, ests0)
        )
        if not o["frames_ok"]:
            o["frames_now"] = [[f[0], f[1], [x[0] for x in f[2]]] for f in snap["frames"]]
        o["n_results"] = len(m.frame_results)
        bad = [j for j, (r_, h0) in enumerate(returned) if held(r_) != h0]
        o["stored_ok"] = not bad
        if bad:
            o["stored_diff"] = bad[:3]
        outs.append(o)
    res = {"outs": outs, "dataset": [[f.unix_time, int(f.frame_name), [U.h(x) for x in f.objects]] for f in m.ground_truth_frames]}
    if snap0["transforms"] and any(t is None for t in snap0["transforms"]):
        res["unobservable"] = ["FrameGroundTruth.transforms.items"]
    if case["task"] == "tracking":
        res["tcfgs"] = _tcfgs(m)
    if case.get("perm") is not None:
        adds = [op for op in ops if op["o"] == "add"]
        U4 = Universe(case)
        m4 = _manager(case, True)
        m4.ground_truth_frames = list(U4.frames)
        for j in case["perm"]:
            specs = _specs(m4, case, adds[j])
            try:
                _do_add(m4, U4, case, adds[j], specs)
            except Exception as e:
                return failed(e, "permuted run: ")
        try:
            sc4, sc1 = m4.get_scene_result(), m.get_scene_result()
        except Exception as e:
            return failed(e, "permuted run: ")
        res["perm_scene"] = _scene_summary(m4, sc4)
        res["main_scene"] = _scene_summary(m, sc1)
        res["main_pooled"] = _pooled_recompute(m)
    return res


def run_impl(case):
    """the sequence and every history-free reference, each in its own process (see above); this process only merges"""
    ops = case["ops"]
    jobs = _ref_jobs(case)
    _ref_send(case, jobs)
    refs = _ref_receive(jobs)
    res = refs[("main",)]
    if "lib_err" in res:
        # outside the judged calls, but out of the library (e.g. a constructor): reported as "raised unexpectedly"
        return {"err": res["lib_err"], "unexpected": True, "from_library": True, "trace": res["trace"]}
    if "err" in res:
        return res
    last_add = None
    for op, o in zip(ops, res["outs"]):
        if op["o"] != "add":
            continue
        fs = refs[("single", _key(op))]
        if "lib_err" in fs:
            o["fresh_err"] = fs
        else:
            o["fresh"] = fs["sum"]
            o["det"] = fs["det"]
        if case["task"] == "tracking":
            if last_add is None:
                o["track_ref"] = None if "lib_err" in fs else fs["sum"]["tracking"]
            else:
                fp = refs[("pair", _key(last_add), _key(op))]
                if "lib_err" in fp:
                    o["fresh_err"] = fp
                else:
                    o["track_ref"] = fp["track"]
        last_add = op
    return res


# ----------------------------------------------------------------------------- model side

def _e(op):
    """estimate-list key of an add in the model request: an add with interpolated ground truth is a different
    evaluation than the add at the key frame itself, so it gets its own key"""
    return op["e"] + (1000 if op.get("dt") else 0)


def _request(case, out, order=None):
    ops = case["ops"]
    adds = [(i, op) for i, op in enumerate(ops) if op["o"] == "add"]
    cidx = {}
    dets, dindex = [], {}
    for i, op in adds:
        ab = (op["a"], op["b"])
        cidx.setdefault(ab, len(cidx))
        k = _key(op)
        if k not in dindex:
            d = out["outs"][i]["det"]
            dindex[k] = len(dets)
            dets.append({"frame": case["frames"][op["k"]]["name"], "e": _e(op), "c": cidx[ab], "results": d["results"], "numgt": d["numgt"]})
            if "tb" in d:
                dets[-1]["tb"] = d["tb"]
    c = _cfg_dict(case["task"])
    ncols = 2 * (len(c["center_distance_thresholds"]) + len(c["iou_2d_thresholds"]) + len(c["iou_3d_thresholds"]) + len(c["plane_distance_thresholds"]))
    if adds and out["outs"][adds[0][0]]["det"]["ncols"] != ncols:
        ncols = out["outs"][adds[0][0]]["det"]["ncols"]
    tracks = []
    mops = []
    if order is None:
        prev = None
        for i, op in enumerate(ops):
            if op["o"] == "add":
                if case["task"] == "tracking":
                    ref = out["outs"][i].get("track_ref")
                    tracks.append({"frame": case["frames"][op["k"]]["name"], "e": _e(op), "c": cidx[(op["a"], op["b"])],
                                   "prev": None if prev is None else dindex[_key(prev)],
                                   "t": [core.qopt(v) for v in _track_flat(ref or [])]})
                prev = op
                mops.append({"o": "add", "frame": op["k"], "e": _e(op), "c": cidx[(op["a"], op["b"])]})
            elif op["o"] == "scene":
                mops.append({"o": "scene"})
            else:
                mops.append({"o": "lookup", "t": op["t"], "thr": THR_TIME})
    else:
        for j in order:
            op = adds[j][1]
            mops.append({"o": "add", "frame": op["k"], "e": _e(op), "c": cidx[(op["a"], op["b"])]})
        mops.append({"o": "scene"})
    return {"op": "run", "nlabels": len(LABELS), "ncols": ncols,
            "dataset": [{"time": f["time"], "name": f["name"], "objects": [o["id"] for o in f["objects"]]} for f in case["frames"]],
            "dets": dets, "tracks": tracks, "ops": mops}


def _trequest(case, out):
    """the same operation sequence for the extended machine (tracking scores computed by the model)"""
    r = _request(case, out)
    r.pop("tracks", None)
    r.update(op="trun", labels=list(range(len(LABELS))),
             tcfgs=[{"mode": c["mode"], "maximize": c["maximize"], "thr": [core.q(t) for t in c["thr"]]} for c in out["tcfgs"]])
    return r


def _no_model(out):
    """no correspondence run: the sequence raised (judged by the oracle), or a history-free reference evaluation raised inside
    the library (judged by the oracle as well) - the model is instantiated with those references"""
    return "err" in out or any("fresh_err" in o for o in out.get("outs", []))


def model_requests(case, out):
    if _no_model(out):
        return []
    reqs = [_request(case, out)]
    if case.get("perm") is not None and "perm_scene" in out:
        reqs.append(_request(case, out, order=case["perm"]))
    if case["task"] == "tracking":
        reqs.append(_trequest(case, out))  # always the LAST request of a tracking case
    return reqs


def _cmp_tscores(model, real, what):
    """model `track` (list of TScore JSON) against the real tracking_scores summary"""
    if len(model) != len(real):
        return f"{what}: {len(real)} real tracking scores, model {len(model)}"
    for k, (mt, rt) in enumerate(zip(model, real)):
        if len(mt["clears"]) != len(rt["clears"]):
            return f"{what}: tracking_scores[{k}] has {len(rt['clears'])} CLEARs, model {len(mt['clears'])}"
        for l, (mc, rc) in enumerate(zip(mt["clears"], rt["clears"])):
            mota, motp, sw, tp, fp, n, g, score = rc
            w = f"{what}: tracking_scores[{k}] ({rt['mode']}) CLEAR[{LABELS[l]}]"
            if mc["sw"] != sw:
                return f"{w} id_switch real {sw} model {mc['sw']}"
            if fp is None or mc["fp"] != fp:
                return f"{w} fp real {fp} model {mc['fp']}"
            if mc["predict_num"] != n or mc["g"] != g:
                return f"{w} predict_num/num_ground_truth real {n}/{g} model {mc['predict_num']}/{mc['g']}"
            for name, rv, mv in (("tp", tp, mc["tp"]), ("tp_matching_score", score, mc["score"]), ("MOTA", mota, mc["mota"]), ("MOTP", motp, mc["motp"])):
                if not core.close(rv, core.unq(mv)):
                    return f"{w} {name} real {rv} model {None if mv is None else float(core.unq(mv))}"
        if "total" not in rt:
            continue  # the private `_sum_clear` could not be resolved in this run (histogram `unobservable:_sum_clear`)
        mo, mp, sw = rt["total"]
        if mt["sw"] != sw or not core.close(mo, core.unq(mt["mota"])) or not core.close(mp, core.unq(mt["motp"])):
            return f"{what}: tracking_scores[{k}] ({rt['mode']}) _sum_clear real {rt['total']} model {[mt['mota'], mt['motp'], mt['sw']]}"
    return None


def _compare_tracking(case, out, tr):
    mo = tr["outs"]
    if len(mo) != len(out["outs"]):
        return f"extended model answered {len(mo)} operations, implementation {len(out['outs'])}"
    for i, (a, b) in enumerate(zip(out["outs"], mo)):
        w = f"op {i} ({a['o']}) [extended model]"
        if a["o"] == "add":
            if b["numgt"] != a["st"]["numgt"]:
                return f"{w}: GT counts real {a['st']['numgt']} model {b['numgt']}"
            d = _cmp_tscores(b["track"], a["st"]["tracking"], w + " frame tracking = evalClear [previous stored bucket, current bucket]")
            if d:
                return d
        elif a["o"] == "scene":
            sc = a["scene"]
            # `used_frame` is not compared: the statement does not observe it
            if any(n != a["n_frames"] + 1 for n in b["n_frames"]):
                return f"{w}: model history lengths {b['n_frames']} for {a['n_frames']} stored frames"
            d = _cmp_tscores(b["track"], sc["tracking"], w + " scene tracking = evalClear ([[]] ++ stored buckets, summed GT)")
            if d:
                return d
    if out["outs"] and tr["n_frame_results"] != out["outs"][-1]["n_results"]:
        return f"number of stored results real {out['outs'][-1]['n_results']} extended model {tr['n_frame_results']}"
    return None


def _lookup_open(case, op):
    """exact tie between two frames / exactly at the tolerance: which frame is "nearest" there is C17's subject"""
    ds = sorted(abs(op["t"] - f["time"]) for f in case["frames"])
    return ds[0] == THR_TIME or (len(ds) > 1 and ds[0] == ds[1])


def _cmp_cols(model_ap, model_map, maps, what):
    """model columns (map0-ap, map0-aph, map1-ap, …) against the real Map objects"""
    for mi, mp in enumerate(maps):
        for kind, col, mean in (("aps", 2 * mi, "map"), ("aphs", 2 * mi + 1, "maph")):
            if col >= len(model_ap):
                return f"{what}: model has no column {col}"
            for li, v in enumerate(mp[kind]):
                mv = core.unq(model_ap[col][li])
                if not core.close(v, mv):
                    return f"{what}: {mp['mode']}{mp['thr']} {kind}[{LABELS[li]}] real {v} model {mv}"
            mv = core.unq(model_map[col])
            if not core.close(mp[mean], mv):
                return f"{what}: {mp['mode']} {mean} real {mp[mean]} model {mv}"
    return None


def compare(case, out, resps):
    if _no_model(out):
        return None
    r = resps[0]
    mo = r["outs"]
    if len(mo) != len(out["outs"]):
        return f"model answered {len(mo)} operations, implementation {len(out['outs'])}"
    for i, (a, b) in enumerate(zip(out["outs"], mo)):
        w = f"op {i} ({a['o']})"
        if not a["frames_ok"]:
            return f"{w}: manager.ground_truth_frames changed ({a.get('frames_now')}); the model's dataset is constant"
        if a["o"] == "add":
            st = a["st"]
            if b["frame_name"] != st["frame_name"]:
                return f"{w}: frame name real {st['frame_name']} model {b['frame_name']}"
            if b["ids"] != st["buckets"]:
                return f"{w}: stored object results per label real {st['buckets']} model(fresh) {b['ids']}"
            if b["numgt"] != st["numgt"]:
                return f"{w}: GT counts real {st['numgt']} model(fresh) {b['numgt']}"
            d = _cmp_cols(b["ap"], b["map"], st["maps"], w + " frame score")
            if d:
                return d
            if case["task"] == "tracking":
                if "track_err" in b:
                    return f"{w}: {b['track_err']}"
                real = _track_flat(st["tracking"])
                mt = [core.unq(v) for v in b["track"]]
                if len(real) != len(mt) or any(not core.close(x, y) for x, y in zip(real, mt)):
                    return f"{w}: tracking scores real {real} model(fresh pair) {[None if v is None else float(v) for v in mt]}"
        elif a["o"] == "scene":
            sc = a["scene"]
            d = _cmp_cols(b["ap"], b["map"], sc["maps"], w)
            if d:
                return d
            if sc["maps"]:
                if b["numgt"] != sc["maps"][0]["ngt"]:
                    return f"{w}: pooled GT counts real {sc['maps'][0]['ngt']} model {b['numgt']}"
                if b["n_results"] != sc["maps"][0]["n"]:
                    return f"{w}: pooled result counts real {sc['maps'][0]['n']} model {b['n_results']}"
            if b["total_gt"] != sc["num_gt"]:
                return f"{w}: num_ground_truth real {sc['num_gt']} model {b['total_gt']}"
        else:
            # which frame is "nearest" on an exact tie / exactly at the tolerance is C17's subject: compared only when unambiguous
            # (counted: histogram key `skipped:lookup-tie-or-at-tolerance`)
            if _lookup_open(case, case["ops"][i]):
                continue
            real = a["frame"]  # the NAME of the frame handed out (the frame object itself or a copy of it), or None
            if b.get("frame") != real or "err" in b:
                return f"{w}: look-up real {real} model {b}"
    md = [[f["time"], f["name"], f["objects"]] for f in r["dataset"]]
    if md != out["dataset"]:
        return f"dataset after the run: real {out['dataset']} model {md}"
    if out["outs"] and r["n_frame_results"] != out["outs"][-1]["n_results"]:
        return f"number of stored results real {out['outs'][-1]['n_results']} model {r['n_frame_results']}"
    if case["task"] == "tracking":
        if len(resps) < 2 or "outs" not in resps[-1]:
            return f"no answer of the extended model: {resps[-1] if resps else None}"
        d = _compare_tracking(case, out, resps[-1])
        if d:
            return d
    if len(resps) > 1 and "perm_scene" in out:
        b = resps[1]["outs"][-1]
        d = _cmp_cols(b["ap"], b["map"], out["perm_scene"]["maps"], "permuted run scene")
        if d:
            return d
        if b["total_gt"] != out["perm_scene"]["num_gt"]:
            return f"permuted run: num_ground_truth real {out['perm_scene']['num_gt']} model {b['total_gt']}"
    return None


# ----------------------------------------------------------------------------- oracle

def _same_maps(a, b):
    if len(a) != len(b):
        return "different number of Map objects"
    for x, y in zip(a, b):
        if x["mode"] != y["mode"] or x["thr"] != y["thr"] or x["n"] != y["n"] or x["ngt"] != y["ngt"]:
            return f"{x['mode']}: counts {x['n']}/{x['ngt']} vs {y['n']}/{y['ngt']}"
        for k in ("aps", "aphs"):
            if len(x[k]) != len(y[k]) or any(not core.close(u, v) for u, v in zip(x[k], y[k])):
                return f"{x['mode']}{x['thr']} {k}: {x[k]} vs {y[k]}"
        for k in ("map", "maph"):
            if not core.close(x[k], y[k]):
                return f"{x['mode']} {k}: {x[k]} vs {y[k]}"
    return None


def _same_tracking(a, b):
    if len(a) != len(b):
        return f"{len(a)} vs {len(b)} tracking scores"
    for x, y in zip(a, b):
        if x["mode"] != y["mode"] or len(x["clears"]) != len(y["clears"]):
            return f"tracking score {x['mode']} with {len(x['clears'])} CLEARs vs {y['mode']} with {len(y['clears'])}"
        for li, (c, d) in enumerate(zip(x["clears"], y["clears"])):
            if len(c) != len(d) or any(not core.close(u, v) for u, v in zip(c, d)):
                return f"CLEAR[{x['mode']}][{LABELS[li]}] (mota, motp, id_switch, tp, fp, n, n_gt, score) {c} vs {d}"
        if "total" in x and "total" in y and any(not core.close(u, v) for u, v in zip(x["total"], y["total"])):
            return f"_sum_clear[{x['mode']}] (mota, motp, id_switch) {x['total']} vs {y['total']}"
    return None


_DET_KEYS = ("frame_name", "unix_time", "results", "gt", "numgt", "tp", "fp", "fn", "tn", "num_gt")


def _same_det(a, b):
    for k in _DET_KEYS:
        if a[k] != b[k]:
            return f"{k}: {a[k]} vs {b[k]}"
    return _same_maps(a["maps"], b["maps"])


def _unexpected(out):
    """an exception escaped `run_impl` (the runner of the new convention reports it itself and does not call the oracle; this
    is for a runner that still does): out of the library = the real code failed; otherwise a harness error, not a violation"""
    tr = str(out.get("trace", ""))
    if out.get("from_library") or "perception_eval/perception_eval/" in tr.replace("\\", "/"):
        return f"the real code raised {out.get('err')} unexpectedly: {tr[-300:]}"
    raise RuntimeError(f"harness error in run_impl ({out.get('err')}): {tr[-400:]}")


def oracle(case, out):
    if out.get("unexpected"):
        return _unexpected(out)
    if "err" in out:
        return f"the manager raised {out['err']} at operation {out.get('at')} of a valid sequence: {str(out.get('trace', ''))[-300:]}"
    ops = case["ops"]
    seen = {}
    n_adds = 0
    for i, (op, o) in enumerate(zip(ops, out["outs"])):
        w = f"op {i} {op}"
        # "it does not modify the caller's estimate list or the loaded dataset"
        if not o["frames_ok"]:
            return f"{w}: the loaded dataset was modified: ground_truth_frames now {o.get('frames_now')}"
        if not o["ests_ok"]:
            return f"{w}: the caller's estimate list was modified"
        # the frame results are what the scene pools ("the pooled per-frame object results", "ground-truth counts add up over
        # frames"): a result handed to the caller must keep the object results / ground truths it was evaluated with
        if not o.get("stored_ok", True):
            return (f"{w}: a frame result returned earlier (add number {o.get('stored_diff')}) no longer holds the object results / "
                    f"ground truths it held right after its own add_frame_result")
        if op["o"] == "add":
            n_adds += 1
            # history independence ("gives the same result whatever other evaluations were performed earlier"): the same call
            # on a new manager in a process that has evaluated nothing else
            if "fresh_err" in o:
                return (f"{w}: the call returned on this manager, the same call with no history (new manager, new process) raised "
                        f"{o['fresh_err']['lib_err']}: {o['fresh_err']['trace'][-200:]}")
            d = _same_det(o["st"], o["fresh"])
            if d:
                return f"{w}: result differs from the same call on a fresh manager in a fresh process — {d}"
            k = _key(op)
            if k in seen:
                d = _same_det(o["st"], out["outs"][seen[k]]["st"])
                if d:
                    return f"{w}: result differs from the identical call at op {seen[k]} — {d}"
            seen.setdefault(k, i)
            if case["task"] == "tracking":
                # "(plus the immediately preceding frame for tracking scores)"
                d = _same_tracking(o["st"]["tracking"], o["track_ref"] or [])
                if d:
                    return f"{w}: tracking part differs from a fresh manager evaluating only the predecessor call and this call — {d}"
        elif op["o"] == "scene":
            # "The scene-level score equals the score computed from the pooled per-frame object results"
            sc, po = o["scene"], o["pooled"]
            d = _same_maps(sc["maps"], po["maps"]) or _same_tracking(sc["tracking"], po["tracking"])
            if d:
                return f"{w}: scene score differs from the score of the pooled frame results — {d}"
            # "ground-truth counts add up over frames"
            if sc["num_gt"] != po["num_gt"] or sc["num_gt"] != sum(po["numgt"]):
                return f"{w}: scene num_ground_truth {sc['num_gt']} is not the sum over frames {po['numgt']}"
            for mp in sc["maps"]:
                if mp["ngt"] != po["numgt"]:
                    return f"{w}: per-label GT counts {mp['ngt']} are not the sums over manager.frame_results {po['numgt']}"
            if o["n_frames"] == n_adds:  # every add so far is still held by the manager: the counts the adds reported
                stored = [x["st"]["numgt"] for x in out["outs"][:i] if x["o"] == "add"]
                sums = [sum(c[l] for c in stored) for l in range(len(LABELS))]
                for mp in sc["maps"]:
                    if mp["ngt"] != sums:
                        return f"{w}: per-label GT counts {mp['ngt']} are not the sums over the evaluated frames {sums}"
            # "a one-frame scene reproduces that frame's detection score"
            if o["n_frames"] == 1:
                d = _same_maps(sc["maps"], o["only_frame"])
                if d:
                    return f"{w}: one-frame scene differs from that frame's detection score — {d}"
        # look-ups: no clause of their own (which frame is C17's subject; that the dataset stays as loaded is judged above)
    if "perm_scene" in out:
        # "pooled AP does not depend on the order in which frames were added when confidences are distinct"
        confs = out["main_pooled"]["confs"]
        a, b = out["main_scene"], out["perm_scene"]
        if a["num_gt"] != b["num_gt"]:
            return f"permuted insertion order {case['perm']}: num_ground_truth {a['num_gt']} vs {b['num_gt']}"
        for ma, mb in zip(a["maps"], b["maps"]):
            if ma["ngt"] != mb["ngt"] or ma["n"] != mb["n"]:
                return f"permuted insertion order {case['perm']}: pooled counts differ {ma['n']}/{ma['ngt']} vs {mb['n']}/{mb['ngt']}"
            for li in range(len(LABELS)):
                if len(set(confs[li])) != len(confs[li]):
                    continue  # "when confidences are distinct": no claim for this label (counted: `skipped:perm-label-tied`)
                for k in ("aps", "aphs"):
                    if not core.close(ma[k][li], mb[k][li]):
                        return (f"pooled {k}[{LABELS[li]}] ({ma['mode']}{ma['thr']}) depends on the insertion order "
                                f"{case['perm']} although confidences are distinct: {ma[k][li]} vs {mb[k][li]}")
    return None


# ----------------------------------------------------------------------------- generation

def _grid(rng, lo, hi, den=4):
    return rng.randint(int(lo * den), int(hi * den)) / den


def _gen_world(rng, distinct):
    nf = rng.randint(2, 5)
    ngt = rng.randint(1, 5)
    hid = [0]

    def nid():
        hid[0] += 1
        return hid[0]

    # persistent ground-truth objects moving a little from frame to frame
    world = []
    for j in range(ngt):
        world.append({"uuid": f"g{j}", "label": rng.choice(LABELS if rng.random() < 0.6 else LABELS[:2]),
                      "x": _grid(rng, -60, 60), "y": _grid(rng, -40, 40), "yaw": _grid(rng, -3, 3, 8),
                      "vx": _grid(rng, -1, 1), "vy": _grid(rng, -1, 1), "pts": rng.choice([10, 10, 3, 0])})
    scores = list(range(1, 256))
    rng.shuffle(scores)
    coarse = [0.25, 0.5, 0.5, 0.75, 0.9]

    near = [0]

    def score():
        if not distinct:
            return rng.choice(coarse)
        if rng.random() < 0.3:
            # distinct but nearly equal confidences (1e-9 apart): a ranking that rounds or truncates its sort keys
            # turns them into ties and becomes dependent on the insertion order
            near[0] += 1
            return 0.5 + near[0] * 1e-9
        return scores.pop() / 256

    frames, ests = [], []
    for k in range(nf):
        present = [w for w in world if rng.random() < 0.85]
        objs = [{"id": nid(), "uuid": w["uuid"], "label": w["label"], "x": w["x"] + k * w["vx"], "y": w["y"] + k * w["vy"],
                 "yaw": w["yaw"], "pts": w["pts"]} for w in present]
        frames.append({"time": 1_000_000 + 100_000 * k, "name": k, "ego": [_grid(rng, -50, 50), _grid(rng, -50, 50), _grid(rng, -3, 3, 8)],
                       "objects": objs})
        el = []
        for o in objs:
            u = rng.random()
            if u < 0.15:
                continue  # missed
            dx, dy = (rng.choice([0.0, 0.25, 0.5, 0.75, 1.5, 2.5]), rng.choice([0.0, 0.25, -0.5]))
            lab = o["label"] if rng.random() < 0.85 else rng.choice(LABELS)
            tid = "t" + o["uuid"][1:] if rng.random() < 0.8 else f"t{rng.randint(0, 6)}"  # occasional id switch
            el.append({"id": nid(), "uuid": tid, "label": lab, "x": o["x"] + dx, "y": o["y"] + dy,
                       "yaw": o["yaw"] + rng.choice([0.0, 0.0, 0.25, -0.5, 3.0]), "score": score()})
        for _ in range(rng.choice([0, 0, 1, 2])):  # clutter
            el.append({"id": nid(), "uuid": f"c{rng.randint(0, 9)}", "label": rng.choice(LABELS), "x": _grid(rng, -60, 60),
                       "y": _grid(rng, -40, 40), "yaw": 0.0, "score": score()})
        rng.shuffle(el)
        ests.append(el)
    if rng.random() < 0.3:
        ests.append([])  # an empty estimate list
    return frames, ests


def _gen_cfgs(rng):
    crit = []
    narrow = rng.choice([10.0, 20.0, 30.0])
    crit.append({"mode": "xy", "max_x": [narrow] * 4, "max_y": [narrow] * 4})
    crit.append({"mode": "xy", "max_x": [80.0] * 4, "max_y": [80.0] * 4})
    if rng.random() < 0.6:
        crit.append({"mode": "dist", "max_d": [rng.choice([25.0, 45.0, 90.0])] * 4, "min_d": [rng.choice([0.5, 5.0, 15.0])] * 4})
    if rng.random() < 0.5:
        crit.append({"mode": "xy", "max_x": [rng.choice([15.0, 40.0, 80.0]) for _ in range(4)], "max_y": [rng.choice([15.0, 40.0]) for _ in range(4)],
                     "conf": [rng.choice([0.0, 0.3, 0.6])] * 4})
    pf = [{"thr": [2.0] * 4}]
    if rng.random() < 0.5:
        pf.append({"thr": [rng.choice([0.5, 1.0, 3.0]) for _ in range(4)]})
    return crit, pf


def _gen_case(rng, max_ops, pattern):
    distinct = pattern in ("perm",) or rng.random() < 0.5
    frames, ests = _gen_world(rng, distinct)
    crit, pf = _gen_cfgs(rng)
    nf, ne = len(frames), len(ests)

    def add(k=None, e=None, a=None, b=None):
        k = rng.randrange(nf) if k is None else k
        if e is None:
            e = k if rng.random() < 0.8 else rng.randrange(ne)
        op = {"o": "add", "k": k, "e": e, "a": rng.randrange(len(crit)) if a is None else a, "b": rng.randrange(len(pf)) if b is None else b}
        if k + 1 < nf and rng.random() < 0.25:
            op["dt"] = 50_000  # half way to the next frame: both neighbours within the 75 ms tolerance
        return op

    def lookup():
        f = rng.choice(frames)
        return {"o": "lookup", "t": f["time"] + rng.choice([0, 30_000, -30_000, 50_000, -50_000, 75_000, -75_001, 80_000, -200_000])}

    ops = []
    perm = None
    n = rng.randint(2, max_ops)
    if pattern == "narrow_wide":
        k = rng.randrange(nf)
        ops += [add(k, k, 0, 0), add(k, k, 1, 0)]
        if rng.random() < 0.5:
            ops += [add(k, k, 0, 0), {"o": "scene"}]
    elif pattern == "single":
        ops += ([lookup()] if rng.random() < 0.3 else []) + [add(), {"o": "scene"}]
    elif pattern == "empty_scene":
        ops += [{"o": "scene"}, lookup()]
    elif pattern == "repeat":
        a0 = add()
        ops += [a0, add(), dict(a0), {"o": "scene"}, dict(a0)]
    elif pattern == "perm":
        ks = list(range(nf))
        rng.shuffle(ks)
        for k in ks:
            ops.append(add(k, k))
            if rng.random() < 0.3:
                ops.append({"o": "scene"} if rng.random() < 0.6 else lookup())
        ops = ops[:max_ops]
        na = sum(1 for o in ops if o["o"] == "add")
        perm = list(range(na))
        while na > 1 and perm == list(range(na)):
            rng.shuffle(perm)
    elif pattern == "track_seq":
        # the frames in recording order under the wide filter (consecutive frames share tracks: carry-over, id switches),
        # now and then one frame repeated or out of order, scene queries in between and at the end
        for k in range(nf):
            ops.append(add(k, k if rng.random() < 0.9 else None, 1 if rng.random() < 0.8 else None, 0))
            if rng.random() < 0.2:
                ops.append(add(rng.randrange(nf), None, 1, 0))
            if rng.random() < 0.25:
                ops.append({"o": "scene"})
        ops.append({"o": "scene"})
        n = len(ops)
    while len(ops) < n and pattern != "perm":
        u = rng.random()
        ops.append(add() if u < 0.65 else {"o": "scene"} if u < 0.85 else lookup())
    ops = ops[:max_ops]
    if pattern != "perm" and rng.random() < 0.25:
        na = sum(1 for o in ops if o["o"] == "add")
        if na > 1:
            perm = list(range(na))
            rng.shuffle(perm)
    task = rng.choice(["detection", "detection", "tracking"])
    case = {"kind": "seq", "pattern": pattern, "task": "tracking" if pattern == "track_seq" else task,
            "frame_id": "base_link" if rng.random() < 0.75 else "map",
            "frames": frames, "ests": ests, "crit": crit, "pf": pf, "ops": ops}
    if perm is not None:
        case["perm"] = perm
    return case


PATTERNS = ["random", "random", "random", "narrow_wide", "narrow_wide", "repeat", "perm", "perm", "single", "empty_scene", "track_seq", "track_seq"]


N_CASES = {"quick": 150, "thorough": 1200}  # fixed case counts: the coverage of a tier does not depend on the machine's load


def generate(rng, tier):
    """quick: 150 sequences x <= 12 ops; thorough: 1200 sequences x <= 40 ops.  Budgeted by COUNT (no wall-clock decides what
    is run) and the case JSON carries nothing but the sequence."""
    n, max_ops = (N_CASES["quick"], 12) if tier == "quick" else (N_CASES["thorough"], 40)
    cases = []
    for i in range(n):
        pattern = PATTERNS[i % len(PATTERNS)]
        mo = max_ops if (tier == "quick" or i % 4 == 0) else rng.choice([8, 12, 16, 24])
        cases.append(_gen_case(rng, mo, pattern))
    return cases


def _obj(i, x, y, label="car", uuid="g", yaw=0.0, **kw):
    d = {"id": i, "x": x, "y": y, "yaw": yaw, "label": label, "uuid": uuid}
    d.update(kw)
    return d


def corpus():
    """F5 (fixed): one GT frame evaluated under a 30 m then an 80 m critical filter; and corner cases"""
    frames = [
        {"time": 1_000_000, "name": 0, "ego": [0.0, 0.0, 0.0], "objects": [_obj(1, 10.0, 0.0, uuid="g1"), _obj(2, 50.0, 0.0, uuid="g2")]},
        {"time": 1_100_000, "name": 1, "ego": [5.0, 0.0, 0.0], "objects": [_obj(3, 11.0, 0.0, uuid="g1"), _obj(4, 49.0, 1.0, uuid="g2", label="bicycle")]},
    ]
    ests = [
        [_obj(5, 10.25, 0.0, uuid="t1", score=0.9), _obj(6, 50.25, 0.0, uuid="t2", score=0.8)],
        [_obj(7, 49.25, 1.0, uuid="t1", label="bicycle", score=0.7), _obj(8, 11.25, 0.0, uuid="t2", score=0.6), _obj(9, -20.0, 5.0, uuid="c", score=0.5)],
    ]
    crit = [{"mode": "xy", "max_x": [30.0] * 4, "max_y": [30.0] * 4}, {"mode": "xy", "max_x": [80.0] * 4, "max_y": [80.0] * 4}]
    pf = [{"thr": [2.0] * 4}]
    A = lambda k, e, a: {"o": "add", "k": k, "e": e, "a": a, "b": 0}
    S = {"o": "scene"}
    base = {"kind": "seq", "pattern": "corpus", "frames": frames, "ests": ests, "crit": crit, "pf": pf}
    cs = []
    for task in ("detection", "tracking"):
        for fid in ("base_link", "map"):
            cs.append(dict(base, task=task, frame_id=fid, ops=[A(0, 0, 0), A(0, 0, 1), S, A(0, 0, 0), S]))
        cs.append(dict(base, task=task, frame_id="base_link", ops=[S, A(0, 0, 1), S, A(1, 1, 1), S, {"o": "lookup", "t": 1_050_000}, A(0, 0, 1)], perm=[2, 0, 1]))
        cs.append(dict(base, task=task, frame_id="base_link", ops=[A(1, 1, 1), A(0, 0, 1), A(1, 1, 1), {"o": "lookup", "t": 1_180_000}, S], perm=[1, 2, 0]))
        cs.append(dict(base, task=task, frame_id="base_link", ops=[A(1, 0, 1), A(0, 1, 0), S]))
    # tracking corner cases of the scene-level CLEAR: a pairing kept by a result that fails its own test (1.5 m > 1 m:
    # carried over with the previous score at threshold 1, own test at threshold 2), then the two track ids exchanged
    # (two switches), then a frame with clutter only; scene after every add, the first frame evaluated twice
    tframes = [
        {"time": 1_000_000, "name": 0, "ego": [0.0, 0.0, 0.0], "objects": [_obj(1, 10.0, 0.0, uuid="g1"), _obj(2, 20.0, 5.0, uuid="g2")]},
        {"time": 1_100_000, "name": 1, "ego": [1.0, 0.0, 0.0], "objects": [_obj(3, 11.0, 0.0, uuid="g1"), _obj(4, 21.0, 5.0, uuid="g2")]},
        {"time": 1_200_000, "name": 2, "ego": [2.0, 0.0, 0.0], "objects": [_obj(5, 12.0, 0.0, uuid="g1"), _obj(6, 22.0, 5.0, uuid="g2")]},
        {"time": 1_300_000, "name": 3, "ego": [3.0, 0.0, 0.0], "objects": [_obj(7, 13.0, 0.0, uuid="g1", label="pedestrian")]},
    ]
    tests = [
        [_obj(11, 10.25, 0.0, uuid="t1", score=0.9), _obj(12, 20.5, 5.0, uuid="t2", score=0.8)],
        [_obj(13, 12.5, 0.0, uuid="t1", score=0.7), _obj(14, 21.25, 5.0, uuid="t2", score=0.6)],
        [_obj(15, 12.25, 0.0, uuid="t2", score=0.5), _obj(16, 22.25, 5.0, uuid="t1", score=0.4)],
        [_obj(17, -30.0, 8.0, uuid="c1", score=0.3), _obj(18, 13.25, 0.0, uuid="t2", label="pedestrian", score=0.2)],
    ]
    tbase = {"kind": "seq", "pattern": "corpus", "task": "tracking", "frame_id": "base_link", "frames": tframes, "ests": tests, "crit": crit, "pf": pf}
    cs.append(dict(tbase, ops=[A(0, 0, 1), S, A(1, 1, 1), S, A(2, 2, 1), S, A(3, 3, 1), S, A(0, 0, 1), S]))
    cs.append(dict(tbase, ops=[A(2, 2, 1), A(0, 0, 1), {"o": "lookup", "t": 1_090_000}, A(1, 1, 1), S, A(1, 1, 0), A(3, 3, 1), S], perm=[4, 0, 3, 1, 2]))
    return cs


# ----------------------------------------------------------------------------- reporting

def branches(case, out):
    if "err" in out:
        return ["err:" + str(out["err"])]
    ops = case["ops"]
    adds = [o for o in out["outs"] if o["o"] == "add"]
    if any("fresh_err" in o for o in adds):
        return ["err:reference:" + next(o["fresh_err"]["lib_err"] for o in adds if "fresh_err" in o)]
    br = [f"task:{case['task']}", f"frame_id:{case['frame_id']}", f"pattern:{case.get('pattern')}",
          f"ops:{min(len(ops) // 4 * 4, 40)}+", f"adds:{min(len(adds), 10)}", f"frames:{len(case['frames'])}"]
    if not any(o["st"]["results"] or o["st"]["gt"] for o in adds):
        br.append("trivial")
    keys = [_key(op) for op in ops if op["o"] == "add"]
    if len(set(keys)) < len(keys):
        br.append("repeated-identical-add")
    ka = {}
    for op in ops:
        if op["o"] == "add":
            ka.setdefault((op["k"], op["e"]), []).append(op["a"])
    if any(len(set(v)) > 1 for v in ka.values()):
        br.append("same-frame-different-critical-filter")
    if any(b["st"]["gt"] != a["st"]["gt"] for a in adds for b in adds if a["st"]["frame_name"] == b["st"]["frame_name"]):
        br.append("same-frame-different-kept-gt")
    sc = [o for o in out["outs"] if o["o"] == "scene"]
    br.append(f"scenes:{min(len(sc), 4)}")
    for o in sc:
        br.append("scene:" + ("empty" if o["n_frames"] == 0 else "one-frame" if o["n_frames"] == 1 else "multi-frame"))
        if any(len(set(c)) != len(c) for c in o["pooled"]["confs"]):
            br.append("scene:tied-confidences")
        if any(v is None for mp in o["scene"]["maps"] for v in mp["aps"]):
            br.append("scene:ap-inf")
        if any(n > 0 and g == 0 for mp in o["scene"]["maps"] for n, g in zip(mp["n"], mp["ngt"])):
            br.append("scene:results-without-gt")
        if any(v is not None and 0 < v < 1 for mp in o["scene"]["maps"] for v in mp["aps"]):
            br.append("scene:ap-fractional")
        if any(v is not None and 0 < v < 1 and not core.close(v, w) for mp in o["scene"]["maps"] for v, w in zip(mp["aphs"], mp["aps"])):
            br.append("scene:aph-weighted")
    for op, o in zip(ops, out["outs"]):
        if o["o"] == "lookup":
            br.append("lookup:" + ("none" if o["frame"] is None else "hit"))
            if _lookup_open(case, op):
                br.append("skipped:lookup-tie-or-at-tolerance")
    for name in out.get("unobservable", []):
        br.append("unobservable:" + name)
    if case["task"] == "tracking" and any("total" not in t for o in adds for t in o["st"]["tracking"]):
        br.append("unobservable:_sum_clear")
    if any(o["st"]["fp"] for o in adds):
        br.append("add:fp")
    if any(o["st"]["fn"] for o in adds):
        br.append("add:fn")
    if any(o["st"]["tp"] for o in adds):
        br.append("add:tp")
    if any(len(o["st"]["results"]) == 0 for o in adds):
        br.append("add:no-results")
    if case["task"] == "tracking":
        if any(c[2] for o in adds for t in o["st"]["tracking"] for c in t["clears"]):
            br.append("track:id-switch")
        if any(o.get("track_ref") is not None for o in adds[1:]):
            br.append("track:with-predecessor")
        for o in sc:
            rows = [c for t in o["scene"]["tracking"] for c in t["clears"]]
            if any(c[2] for c in rows):
                br.append("track:scene-id-switch")
            if any(c[4] for c in rows):
                br.append("track:scene-fp")
            if any(c[0] is None for c in rows):
                br.append("track:scene-mota-inf")
            if any(c[0] == 0 and c[6] and (c[3] - c[4] - c[2]) < 0 for c in rows):
                br.append("track:scene-mota-clamped")
            if any(c[0] is not None and 0 < c[0] < 1 for c in rows):
                br.append("track:scene-mota-fractional")
            if any(c[1] is not None and c[1] > 0 for c in rows):
                br.append("track:scene-motp>0")
            if o["n_frames"] > 1 and any(sum(ft[k]["clears"][li][2] for ft in o["frame_tracks"]) > 0
                                         for k, t in enumerate(o["scene"]["tracking"]) for li in range(len(t["clears"]))):
                br.append("track:scene-switch-from-later-frame")
    if "perm_scene" in out:
        confs = out["main_pooled"]["confs"]
        br.append("perm:" + ("distinct" if all(len(set(c)) == len(c) for c in confs) else "with-ties"))
        tied = sum(1 for c in confs if len(set(c)) != len(c))
        if tied:
            br.append("skipped:perm-label-tied")  # labels of this case without a claim of the order clause
        if tied and all(len(set(c)) != len(c) for c in confs if c):
            br.append("skipped:perm-every-pooled-label-tied")  # the order clause says nothing about this case
        if any(len(c) > 1 for c in confs):
            br.append("perm:pool>1")
    return br


def shrink(case):
    """drop operations, then estimates / ground truths (perm is dropped with the ops)"""
    ops = case["ops"]
    for i in range(len(ops)):
        c = dict(case, ops=ops[:i] + ops[i + 1:])
        c.pop("perm", None)
        yield c
    if "perm" in case:
        c = dict(case)
        c.pop("perm")
        yield c
    for e, el in enumerate(case["ests"]):
        for j in range(len(el)):
            yield dict(case, ests=[l if i != e else el[:j] + el[j + 1:] for i, l in enumerate(case["ests"])])
    for k, f in enumerate(case["frames"]):
        for j in range(len(f["objects"])):
            yield dict(case, frames=[g if i != k else dict(f, objects=f["objects"][:j] + f["objects"][j + 1:]) for i, g in enumerate(case["frames"])])


def search(rng, st, disagreements):
    """extra sequences aimed at the history patterns (re-use of a GT frame, repeated calls, permutations)"""
    return [_gen_case(rng, 12, p) for p in ("narrow_wide", "repeat", "perm", "random", "track_seq") for _ in range(40)]


if __name__ == "__main__":
    import sys

    if len(sys.argv) == 3 and sys.argv[1] == "--ref-server":
        _ref_server(sys.argv[2])
