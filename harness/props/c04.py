"""C04 — AP, APH and mAP equal the interpolated precision-recall area, within [0,1].

Tie to the code: abstract rankings are realised as REAL `DynamicObjectWithPerceptionResult` lists (real
`DynamicObject` pairs at exact dyadic offsets, yaw differences of k*pi/8 for a chosen heading weight) and
handed to the real `Ap`, `Map`, `MetricsScore.evaluate_detection`, `PerceptionEvaluationManager`; the Lean
model (`PEval/Model/AP.lean`) receives the same result list (confidence, labels, the real matching score
and the real heading weight as exact rationals) and must reproduce `ap`, `tp_list`, `fp_list`, `map`,
`maph`.  The oracle is independent of the model: AP recomputed from scratch as the area of the union of
the origin-anchored rectangles [0,r_i]x[0,p_i] in exact Fractions, with the TP decision re-derived from
the property text (for `rank` cases from the generator's intended kinds, not from any observed score).
"""
from __future__ import annotations

import itertools
import json
import math
import os
from fractions import Fraction

from .. import core

os.environ.setdefault("TQDM_DISABLE", "1")

PROP = "C04"
EXHAUSTIVE = True
RULE = (
    "rank: EXHAUSTIVE over rankings kind in {TP,FP,GT-less}^n (n<=6 quick / 8 thorough) and {TP,FP,GT-less,ignored}^n "
    "(n<=4 / 6) x ground-truth count 0..n+1; per case the rng picks the realisation of each kind (distance vs label FP, "
    "distance exactly on the threshold, unknown/any-policy TP, non-target / FP-labelled ignored), heading weights, "
    "confidence ties, the input permutation and flat/nested input; long: random rankings up to 400 results with heavy "
    "confidence ties over the four matching modes; map: random multi-label scenes matched by the real get_object_results "
    "through Map / MetricsScore.evaluate_detection / the real manager (frame and scene level); scene: 2-5 frames through the "
    "real manager with chosen frame shapes (empty / estimates without ground truth / ground truths with no estimate at all / "
    "ground truths of one label with no estimate of that label / perfect / random) so that a label is missed in one frame and "
    "detected in another, the scene Map recomputed from the frame results the manager holds (pooled lists, summed ground-truth "
    "counts), asked twice, frames re-read afterwards; rank2d: 2-D objects. "
    "Thresholds: per-label values that differ between labels, integer-typed numbers, and in a quarter of the lists values at "
    "the ends of the scale (float('inf') / 1e300 / 1e-300 / 5e-324 / 0 for the distances, 0 / 5e-324 / 1e-300 / 1 for the "
    "IoUs; values outside [0,1] incl. inf for the IoU error path). Dicts: in 60% of the map / score cases the two per-label "
    "dicts handed to Map / evaluate_detection are built another way than divide_objects(x, target_labels) builds them: keys "
    "permuted (each dict independently), extra non-target keys, divide_objects() without target labels (first-occurrence "
    "order; missing labels filled in or left out -> KeyError); each label's AP is then checked against THAT label's entry. "
    "Label lists: in half of the manager cases the critical-object filter and the pass/fail config list the evaluation "
    "config's labels in another order (evaluate_frame keys the frame-level dicts by the filter's list). "
    "Non-trivial = at least one result; distinct = distinct canonical JSON of the case."
)
THEOREMS = [
    "PEval.C04." + t
    for t in [
        "apCode_eq_apSpec", "ap_eq_spec", "ap_undefined_iff_no_result", "ap_nonneg", "ap_le_one",
        "aph_le_ap", "ap_in_unit_interval", "ap_one_of_perfect", "ap_zero_of_no_tp", "map_mean_of_defined", "map_bounds",
        "map_undefined_iff", "sort_perm", "sort_sorted", "sort_stable", "sort_idem", "tp_le_gt_of_one_to_one",
        "tp_list_eq_cumsum", "ignored_counts_as_rank",
        # PEval/Properties/C04Dict.lean: Map reads its dicts by key, label lists in any order, float("inf") as a threshold
        "map_reads_dicts_by_key", "map_dict_order_irrelevant", "frame_map_label_order_irrelevant",
        "ap_inf_as_large_number", "map_inf_as_large_number", "map_ext_agrees_on_numbers",
    ]
] + [
    # composition with the matcher model (PEval/Properties/Pipeline.lean): the one-to-one hypothesis of the bounds is
    # discharged by C01's theorems and inherited by every divide_objects bucket, for every frame of the pipeline
    "PEval.PipelineProps." + t
    for t in ["pipeline_ap_in_unit", "pipeline_frameMap_in_unit", "pipeline_aph_le_ap", "gt_ids_distinct_of_set"]
]
TRUSTED = [
    "numpy cumsum / float division (compared with exact rationals within 1e-9)",
    "the matching score (`get_matching(mode).value`) and the heading weight (`TPMetricsAph.get_value`) of each real "
    "result are INPUTS of the model (handed over exactly); their geometry is the subject of C06 / C09",
    "Python list.sort(reverse=True) is stable (modelled by a stable insertion sort; checked on tie-heavy rankings)",
]
ASSUMPTIONS = [
    "num_ground_truth >= 0",
    "the false_positive label is not a target label (an FP-labelled ground truth is then 'ignored' by every per-label AP)",
    "bounds (AP,APH in [0,1]) are checked only when #TP <= num_ground_truth (guaranteed by one-to-one matching; "
    "theorem tp_le_gt_of_one_to_one); rank cases deliberately include G < #TP to tie the model to the code there too",
    "FINDING-CANDIDATE excluded from the TP-iff oracle: under MatchingLabelPolicy.ALLOW_ANY a pair (estimate label A, "
    "ground-truth label B), A != B both target labels, is label-compatible and may beat the threshold but is counted "
    "neither TP nor FP by any per-label AP (bucket A looks the threshold up under label B in the singleton [A])",
]

LABELS = ["unknown", "false_positive", "car", "bicycle", "pedestrian", "motorbike", "truck", "bus"]
LID = {n: i for i, n in enumerate(LABELS)}
MODES = ["center", "plane", "iou2d", "iou3d"]

# ---- threshold values.  float("inf") is a legal threshold (the validators accept any Real; it is the loosest distance
# threshold and, like every value outside [0,1], rejected by the IoU modes' assertion).  In a case it is spelled "inf" so
# that cases stay plain JSON; `tf` gives the value handed to the real code, `tq` the protocol spelling for the model.
INF = "inf"
EXTREME = {  # legal but rarely written values, per mode
    "center": [INF, 1e300, 1e-300, 5e-324, 0.0], "plane": [INF, 1e300, 1e-300, 5e-324, 0.0],
    "iou2d": [0.0, 1.0, 5e-324, 1e-300], "iou3d": [0.0, 1.0, 5e-324, 1e-300],
}
OUTSIDE_IOU = [1.5, -0.125, INF, 1e300]  # not in [0,1]: AssertionError as soon as a result reaches is_better_than


def tf(t):
    return float("inf") if t == INF else t


def tfl(ts):
    return [tf(t) for t in ts]


def _isinf(t):
    return isinstance(t, float) and math.isinf(t)


def spell(t):
    """case spelling of a threshold value"""
    return INF if _isinf(t) else t


def tq(t):
    t = tf(t)
    return INF if _isinf(t) else core.q(t)


def _frac(t):
    """exact value of a threshold for the oracle (float inf stays: Fraction < inf compares as expected)"""
    t = tf(t)
    return t if _isinf(t) else Fraction(t)


def iou_valid(ts):
    return all(0.0 <= tf(t) <= 1.0 for t in ts)

# ----------------------------------------------------------------------------- real objects (cached)

_OBJ = {}
_RES = {}
_ENV = {}


def env():
    if _ENV:
        return _ENV
    from pyquaternion import Quaternion
    from perception_eval.common.label import AutowareLabel, Label
    from perception_eval.common.object import DynamicObject
    from perception_eval.common.object2d import DynamicObject2D
    from perception_eval.common.schema import FrameID
    from perception_eval.common.shape import Shape, ShapeType
    from perception_eval.common.evaluation_task import EvaluationTask
    from perception_eval.evaluation.result.object_result import DynamicObjectWithPerceptionResult, get_object_results
    from perception_eval.evaluation.matching import MatchingMode
    from perception_eval.evaluation.matching.object_matching import MatchingLabelPolicy
    from perception_eval.evaluation.matching.objects_filter import (
        divide_objects, divide_objects_to_num, get_negative_objects, get_positive_objects)
    from perception_eval.evaluation.metrics.detection.ap import Ap
    from perception_eval.evaluation.metrics.detection.map import Map
    from perception_eval.evaluation.metrics.detection.tp_metrics import TPMetricsAp, TPMetricsAph
    from perception_eval.evaluation.metrics.metrics import MetricsScore
    from perception_eval.evaluation.metrics.metrics_score_config import MetricsScoreConfig

    _ENV.update(locals())
    _ENV["MODE"] = {"center": MatchingMode.CENTERDISTANCE, "plane": MatchingMode.PLANEDISTANCE,
                    "iou2d": MatchingMode.IOU2D, "iou3d": MatchingMode.IOU3D}
    _ENV["LAB"] = {n: AutowareLabel(n) for n in LABELS}
    return _ENV


def mk_obj(o):
    """o = {"l": label name, "x","y","z": floats, "k": yaw in units of pi/8, "c": confidence, "id": n}"""
    E = env()
    key = (o["l"], o["x"], o["y"], o.get("z", 0.0), o["k"], o.get("c", 1.0), o["id"], o.get("ge", "e"))
    if key not in _OBJ:
        lab = E["LAB"][o["l"]]
        _OBJ[key] = E["DynamicObject"](
            100, E["FrameID"].BASE_LINK, (o["x"], o["y"], o.get("z", 0.0)),
            E["Quaternion"](axis=[0, 0, 1], angle=math.pi * o["k"] / 8),
            E["Shape"](E["ShapeType"].BOUNDING_BOX, (2.0, 4.0, 1.5)), (0.0, 0.0, 0.0), o.get("c", 1.0),
            E["Label"](lab, lab.value, []), uuid=f"{o.get('ge', 'e')}{o['id']}", pointcloud_num=10)
    return _OBJ[key]


def mk_obj2d(o):
    """o = {"l", "roi": [x,y,w,h] | None, "c", "id"}"""
    E = env()
    key = ("2d", o["l"], tuple(o["roi"]) if o.get("roi") else None, o.get("c", 1.0), o["id"], o.get("ge", "e"))
    if key not in _OBJ:
        lab = E["LAB"][o["l"]]
        _OBJ[key] = E["DynamicObject2D"](
            100, E["FrameID"].CAM_FRONT, o.get("c", 1.0), E["Label"](lab, lab.value, []),
            roi=tuple(o["roi"]) if o.get("roi") else None, uuid=f"{o.get('ge', 'e')}{o['id']}")
    return _OBJ[key]


def item_objs(it):
    """a ranking item -> (estimate spec, ground-truth spec | None)"""
    bx, by = it["b"]
    g = None
    if it["g"] is not None:
        g = {"l": it["g"], "x": bx, "y": by, "z": 0.0, "k": it["kg"], "c": 1.0, "id": it["id"], "ge": "g"}
    dx, dy, dz = it["d"]
    e = {"l": it["e"], "x": bx + dx, "y": by + dy, "z": dz, "k": it["ke"], "c": it["c"], "id": it["id"], "ge": "e"}
    return e, g


def _ikey(it):
    return (bool(it.get("twod")), it["e"], it["g"], tuple(it.get("b", ())), tuple(it.get("d", ())), it.get("ke"), it.get("kg"),
            it["c"], it.get("p", "DEFAULT"), it["id"], tuple(it["re"]) if it.get("re") else None, tuple(it["rg"]) if it.get("rg") else None)


def mk_result(it):
    E = env()
    key = _ikey(it)
    if key not in _RES:
        if it.get("twod"):
            e = mk_obj2d({"l": it["e"], "roi": it.get("re"), "c": it["c"], "id": it["id"], "ge": "e"})
            g = None if it["g"] is None else mk_obj2d({"l": it["g"], "roi": it.get("rg"), "id": it["id"], "ge": "g"})
        else:
            es, gs = item_objs(it)
            e = mk_obj(es)
            g = None if gs is None else mk_obj(gs)
        _RES[key] = E["DynamicObjectWithPerceptionResult"](e, g, E["MatchingLabelPolicy"][it.get("p", "DEFAULT")])
    return _RES[key]


_DESC = {}


def describe_item(it):
    """descriptor of the (cached) real result of a ranking item"""
    key = _ikey(it)
    if key not in _DESC:
        _DESC[key] = describe(mk_result(it), with_h=not it.get("twod"))
    return _DESC[key]


def _uid(o):
    return int(o.uuid[1:])


def describe(res, with_h=True):
    """what the model reads of one real object result (all four matching scores, exact)"""
    E = env()
    e, g = res.estimated_object, res.ground_truth_object
    sc = {}
    for name, mm in E["MODE"].items():
        m = res.get_matching(mm)
        sc[name] = "nm" if m is None else core.qopt(m.value)
    h = "0"
    if with_h and isinstance(e, E["DynamicObject"]):
        h = core.q(E["TPMetricsAph"]().get_value(res))
    return {"id": _uid(e), "c": core.q(e.semantic_score), "l": LID[e.semantic_label.label.value],
            "g": None if g is None else {"id": _uid(g), "l": LID[g.semantic_label.label.value]},
            "s": sc, "h": h, "p": res.matching_label_policy.name}


def model_res(d, mode):
    s = d["s"][mode]
    r = {"id": d["id"], "c": d["c"], "l": d["l"], "g": d["g"], "h": d["h"], "p": d["p"]}
    if s == "nm":
        r["nm"] = True
        r["s"] = None
    else:
        r["s"] = s
    return r


def fnum(x):
    """canonical float output: inf -> None"""
    x = float(x)
    if math.isinf(x) or math.isnan(x):
        return None
    return x


def ap_out(a):
    return {"ap": fnum(a.ap), "tp": [float(x) for x in a.tp_list], "fp": [float(x) for x in a.fp_list]}


# ----------------------------------------------------------------------------- independent reference

def rect_union_ap(ws, G):
    """area of the union of the rectangles [0,r_i]x[0,p_i], r_i = cum_i/G, p_i = cum_i/(i+1); None if no result"""
    if not ws:
        return None
    c = Fraction(0)
    pts = []
    for i, w in enumerate(ws):
        c += w
        pts.append((c / G if G > 0 else Fraction(0), c / (i + 1)))
    # sweep from the largest recall down keeping the running maximum of the precision
    order = sorted(range(len(pts)), key=lambda i: pts[i][0], reverse=True)
    xs = sorted({Fraction(0)} | {r for r, _ in pts})
    area = Fraction(0)
    j = 0
    best = Fraction(0)
    for a, b in reversed(list(zip(xs, xs[1:]))):
        while j < len(order) and pts[order[j]][0] >= b:
            best = max(best, pts[order[j]][1])
            j += 1
        area += (b - a) * best
    return area


def rank_order(confs):
    """indices sorted by descending confidence, input order among equals (written without list.sort(reverse=True))"""
    return sorted(range(len(confs)), key=lambda i: (-confs[i], i))


def compatible(policy, e, g):
    if g == "false_positive" or policy == "ALLOW_ANY":
        return True
    if policy == "ALLOW_UNKNOWN":
        return e == g or e == "unknown"
    return e == g


def beats(mode, v, t):
    return v < t if mode in ("center", "plane") else v > t


def tp_by_text(d, mode, label, thr):
    """the property's TP rule for the AP of `label` on an observed result descriptor; None = outside the oracle's domain"""
    if d["g"] is None:
        return False
    gl, el = LABELS[d["g"]["l"]], LABELS[d["l"]]
    if gl == "false_positive":
        return False
    if gl != label:
        if compatible(d["p"], el, gl) and d["p"] == "ALLOW_ANY":
            return None  # finding candidate (see ASSUMPTIONS): compatible cross-label pair, ignored by the code
        return False
    s = d["s"][mode]
    if s == "nm":
        return None
    if s is None:
        return False
    return compatible(d["p"], el, gl) and beats(mode, Fraction(s), _frac(thr))


# ----------------------------------------------------------------------------- generators

TP_W = [8, 6, 4, 3, 0]


def _realise(kind, rng, i, conf, aligned):
    """one real-isable item for an abstract kind under target 'car', center distance, threshold 1.0.
    The geometry depends on (id, variant, weight) only, so the 3 ms construction of a real result is shared."""
    kg = (3 * i) % 16 - 7
    it = {"id": i, "b": [16.0 * i, 4.0 * (i % 3)], "c": conf, "kg": kg, "ke": kg, "k": kind, "w": 8, "p": "DEFAULT"}
    if kind == "T":
        v = "same" if not aligned and rng.random() < 0.6 else rng.choice(["same", "unk", "any", "zero"])
        it.update(e="car", g="car", d=[0.5, 0.0, 0.0])
        if v == "unk":
            it.update(e="unknown", p="ALLOW_UNKNOWN")
        elif v == "any":
            it.update(e="bicycle", p="ALLOW_ANY")
        elif v == "zero":
            it.update(d=[0.0, 0.0, 0.0])
        elif not aligned:
            w = rng.choice(TP_W)
            it.update(w=w, ke=kg + (1 if i % 2 else -1) * (8 - w))
    elif kind == "F":
        v = rng.choice(["far", "edge", "label", "unk"])
        it.update(e="car", g="car", d=[0.75, 1.0, 0.0])  # distance 1.25
        if v == "edge":
            it.update(d=[1.0, 0.0, 0.0])  # exactly on the threshold: not better
        elif v == "label":
            it.update(e="bicycle", d=[0.5, 0.0, 0.0])
        elif v == "unk":
            it.update(e="unknown", d=[0.5, 0.0, 0.0])  # DEFAULT policy: unknown is not compatible
    elif kind == "N":
        it.update(e="car", g=None, d=[0.0, 0.0, 0.0])
    else:  # "I" ignored: no threshold for the looked-up label
        v = rng.choice(["gtlabel", "nogt", "fpgt"])
        if v == "gtlabel":
            it.update(e="car", g="pedestrian", d=[0.5, 0.0, 0.0])
        elif v == "nogt":
            it.update(e="bicycle", g=None, d=[0.0, 0.0, 0.0])
        else:
            it.update(e="car", g="false_positive", d=[0.5, 0.0, 0.0])
    return it


def _rank_case(kinds, G, rng):
    n = len(kinds)
    aligned = rng.random() < 0.4
    # non-increasing confidences along the ranking, with ties
    confs = []
    c = 16
    tie_p = rng.choice([0.0, 0.3, 0.7])
    for i in range(n):
        if i and rng.random() >= tie_p:
            c -= 1
        confs.append(c / 16)
    items = [_realise(k, rng, i, confs[i], aligned) for i, k in enumerate(kinds)]
    # input order: random, but the members of a tie group keep their ranking order
    pos = list(range(n))
    rng.shuffle(pos)
    placed = [None] * n
    groups = {}
    for i in range(n):
        groups.setdefault(confs[i], []).append(i)
    slot_of = {i: pos[i] for i in range(n)}
    for members in groups.values():
        slots = sorted(slot_of[i] for i in members)
        for i, s in zip(members, slots):
            placed[s] = items[i]
    case = {"kind": "rank", "items": placed, "G": G, "mode": "center", "targets": ["car"], "thrs": [1.0]}
    if n >= 2 and rng.random() < 0.3:
        cut = sorted(rng.sample(range(n + 1), 2))
        case["nested"] = cut
    return case


def _long_case(rng, nmax):
    n = rng.randint(7, nmax)
    mode = rng.choice(MODES)
    targets = rng.choice([["car"], ["car"], ["pedestrian", "car"], ["car", "bicycle", "pedestrian"]])
    if mode in ("center", "plane"):
        thrs = [rng.choice([0.5, 1.0, 1.25, 2.0, 3.0]) for _ in targets]
    else:
        thrs = [rng.choice([0.0, 0.125, 0.3, 0.5, 0.75, 1.0]) for _ in targets]
    thrs = _extremes(rng, mode, thrs)
    levels = rng.choice([2, 3, 5, 8, 16])
    offs = [[0.0, 0.0, 0.0], [0.5, 0.0, 0.0], [0.75, 1.0, 0.0], [1.0, 0.0, 0.0], [0.0, 1.0, 0.0], [1.5, 2.0, 0.0],
            [0.25, 0.25, 0.0], [0.0, 0.0, 0.5], [2.0, 1.0, 0.25], [4.0, 0.0, 0.0]]
    pols = ["DEFAULT", "DEFAULT", "ALLOW_UNKNOWN", "ALLOW_ANY"]
    # a small pool of distinct results reused along the ranking (construction of a real result costs 3 ms)
    pool = []
    for j in range(rng.randint(4, 16)):
        kg = rng.randint(-7, 8)
        g = rng.choice(["car", "car", "car", "bicycle", "pedestrian", "false_positive", None, None])
        e = g if (g and g != "false_positive" and rng.random() < 0.7) else rng.choice(["car", "bicycle", "pedestrian", "unknown", "truck"])
        pool.append({"id": j, "b": [16.0 * j + 8.0, 4.0 * (j % 5) - 8.0], "kg": kg, "ke": kg + rng.choice([0, 0, 1, -2, 3, 4, 8, -7]),
                     "e": e, "g": g, "d": rng.choice(offs), "p": rng.choice(pols)})
    items = []
    for i in range(n):
        it = dict(rng.choice(pool))
        it["c"] = rng.randint(0, levels) / levels if levels not in (3, 5) else rng.randint(0, levels) / 8
        items.append(it)
    G = rng.choice([0, 1, n // 4, n // 2, n, n + 1, rng.randint(0, n + 1)])
    case = {"kind": "rank", "long": True, "items": items, "G": G, "mode": mode, "targets": targets, "thrs": thrs}
    if rng.random() < 0.3:
        case["nested"] = sorted(rng.sample(range(n + 1), 2))
    return case


def _scene(rng, targets, nmax=6):
    labs = targets + ["truck", "unknown", "false_positive"]
    gts, ests = [], []
    offs = [[0.0, 0.0], [0.5, 0.0], [0.75, 1.0], [1.0, 0.0], [0.0, 1.0], [1.5, 2.0], [0.25, 0.25], [2.0, 1.0], [0.0, 0.5]]
    for i in range(rng.randint(0, nmax)):
        lab = rng.choice(targets * 3 + labs)
        gts.append({"l": lab, "x": 12.0 * (i % 4) - 18.0 + rng.choice([0.0, 0.5, 3.0]), "y": 10.0 * (i // 4) - 5.0, "z": 0.0,
                    "k": rng.randint(-7, 8), "id": i, "ge": "g"})
    j = 0
    for g in gts:
        for _ in range(rng.choice([0, 1, 1, 1, 1, 2])):
            dx, dy = rng.choice(offs)
            lab = g["l"] if (g["l"] != "false_positive" and rng.random() < 0.65) else rng.choice(targets + ["unknown", "truck"])
            ests.append({"l": lab, "x": g["x"] + dx * rng.choice([1, -1]), "y": g["y"] + dy * rng.choice([1, -1]),
                         "z": rng.choice([0.0, 0.0, 0.25]), "k": g["k"] + rng.choice([0, 0, 0, 1, -2, 4, 8]),
                         "c": rng.randint(1, 8) / 8, "id": j, "ge": "e"})
            j += 1
    for _ in range(rng.randint(0, 3)):
        ests.append({"l": rng.choice(targets + ["unknown", "truck"]), "x": 40.0 + 8.0 * j, "y": -30.0, "z": 0.0, "k": 0,
                     "c": rng.randint(1, 8) / 8, "id": j, "ge": "e"})
        j += 1
    rng.shuffle(ests)
    return {"est": ests, "gt": gts}


def _extremes(rng, mode, t, p=0.25):
    """with probability p one or two entries of the list become an extreme but legal value of the mode (EXTREME)"""
    t = list(t)
    if t and rng.random() < p:
        for _ in range(rng.choice([1, 1, 2])):
            t[rng.randrange(len(t))] = rng.choice(EXTREME[mode])
    return t


def _thr(rng, mode, n, allow_bad=False):
    # integer-typed numbers are legal thresholds (set_thresholds accepts any Real): 1 instead of 1.0 in a fifth of the lists
    as_int = (lambda v: int(v) if float(v).is_integer() else v) if rng.random() < 0.2 else (lambda v: v)
    if mode in ("center", "plane"):
        return _extremes(rng, mode, [as_int(rng.choice([0.5, 1.0, 1.25, 2.0, 3.0])) for _ in range(n)])
    t = _extremes(rng, mode, [as_int(rng.choice([0.0, 0.125, 0.3, 0.5, 0.75, 1.0])) for _ in range(n)])
    if allow_bad and rng.random() < 0.08:
        t[rng.randrange(n)] = rng.choice(OUTSIDE_IOU)
    return t


def _dict_spec(rng):
    """how the two per-label dicts handed to Map / MetricsScore.evaluate_detection are built: by divide_objects with the
    target labels (`free` False) or without (`free` True: keys in order of first occurrence, non-target estimate labels get
    their own keys; `fill` adds the target labels that did not occur), extra non-target keys, and the insertion order of the
    keys of each dict (None = as built, "rev" = reversed, else the seed of a permutation; the two dicts are permuted
    independently)"""
    r = rng.random()
    if r < 0.4:
        return None  # the plain call
    free = rng.random() < 0.3
    return {"free": free, "fill": (not free) or rng.random() < 0.85,
            "extra": rng.choice([[], [], ["truck"], ["unknown", "bus"]]),
            "rperm": rng.choice([None, rng.randrange(1 << 16), rng.randrange(1 << 16)]),
            "nperm": rng.choice([None, rng.randrange(1 << 16), rng.randrange(1 << 16)])}


def _label_orders(rng, targets):
    """label lists of the critical-object filter and of the pass/fail config: the evaluation config's labels, in half of the
    cases in another order (the frame-level dicts are keyed by the filter's list, Map walks the evaluation config's list)"""
    crit, pf = list(targets), list(targets)
    if len(targets) > 1 and rng.random() < 0.5:
        rng.shuffle(crit)
        if rng.random() < 0.5:
            pf = list(crit)
        else:
            rng.shuffle(pf)
    return crit, pf


def _map_case(rng, via):
    k = rng.randint(1, 4)
    targets = rng.sample(["car", "bicycle", "pedestrian", "motorbike"], k)
    policy = rng.choice(["DEFAULT", "DEFAULT", "ALLOW_UNKNOWN", "ALLOW_ANY"])
    case = {"kind": "map", "via": via, "targets": targets, "policy": policy}
    if via == "map":
        mode = rng.choice(MODES)
        case.update(mode=mode, thrs=_thr(rng, mode, k, allow_bad=True), frames=[_scene(rng, targets)])
    elif via == "score":
        case.update(fam={m: [_thr(rng, m, k) for _ in range(rng.randint(0, 2))] for m in MODES},
                    frames=[_scene(rng, targets)])
    else:  # manager: frame level for every frame, then the scene
        case.update(fam={m: [_thr(rng, m, k) for _ in range(rng.randint(0, 1) if m != "center" else 1)] for m in MODES},
                    frames=[_scene(rng, targets, 5) for _ in range(rng.randint(1, 3))])
        case["crit"], case["pf"] = _label_orders(rng, targets)
    if via in ("map", "score"):
        d = _dict_spec(rng)
        if d:
            case["dict"] = d
    return case


# ---- multi-frame scenes with particular frame shapes (scene-level pooling)

SHAPES = ["empty", "ghost", "allmissed", "missed", "perfect", "normal"]
_GRID = [(12.0 * (i % 4) - 18.0, 10.0 * (i // 4) - 5.0) for i in range(8)]


def _shaped_frame(rng, targets, shape, L):
    """one frame of a scene. `L` is the label of interest:
    empty     no ground truth, no estimate
    ghost     estimates (target labels, L among them) but no ground truth
    allmissed ground truths (>= 1 of L) and no estimate at all
    missed    ground truths of L without ANY estimate labelled L; other labels are detected, clutter of other labels
    perfect   every ground truth (>= 1 of L) has an estimate of its own label within every threshold
    normal    the random scene of the single-frame families"""
    if shape == "normal":
        fr = _scene(rng, targets, 5)
        fr["shape"] = shape
        return fr
    others = [t for t in targets if t != L]
    gts, ests = [], []
    slots = list(_GRID)
    rng.shuffle(slots)

    def gt(lab):
        x, y = slots.pop()
        g = {"l": lab, "x": x + rng.choice([0.0, 0.5]), "y": y, "z": 0.0, "k": rng.randint(-7, 8), "id": len(gts), "ge": "g"}
        gts.append(g)
        return g

    def est(lab, x, y, k):
        ests.append({"l": lab, "x": x, "y": y, "z": 0.0, "k": k, "c": rng.randint(1, 8) / 8, "id": len(ests), "ge": "e"})

    def hit(g, lab=None):
        dx, dy = rng.choice([[0.0, 0.0], [0.25, 0.0], [0.0, 0.25], [0.25, 0.25]])
        est(lab or g["l"], g["x"] + dx, g["y"] + dy, g["k"] + rng.choice([0, 0, 0, 1, -2, 4, 8]))

    def clutter(labs, n):
        for _ in range(n):
            est(rng.choice(labs), 40.0 + 8.0 * len(ests), -30.0 + 4.0 * rng.randint(0, 3), 0)

    if shape == "ghost":
        clutter([L], 1)
        clutter(targets + ["unknown"], rng.randint(0, 2))
    elif shape == "allmissed":
        for _ in range(rng.randint(1, 2)):
            gt(L)
        for _ in range(rng.randint(0, 2)):
            gt(rng.choice(targets + ["truck"]))
    elif shape == "missed":
        for _ in range(rng.randint(1, 2)):
            g = gt(L)
            if others + ["unknown", "truck"] and rng.random() < 0.4:
                hit(g, rng.choice(others + ["unknown", "truck"]))  # a wrongly labelled estimate on top of the missed ground truth
        for _ in range(rng.randint(0, 2)):
            if others:
                g = gt(rng.choice(others))
                if rng.random() < 0.8:
                    hit(g)
        clutter(others + ["unknown", "truck"], rng.randint(0, 2))
    elif shape == "perfect":
        hit(gt(L))
        for _ in range(rng.randint(0, 2)):
            hit(gt(rng.choice(targets)))
    rng.shuffle(ests)
    return {"est": ests, "gt": gts, "shape": shape}


def _scene_case(rng, nframes=None, shapes=None, targets=None, policy=None):
    """2-5 frames through the real manager; some frame holds ground truths of a target label but no estimate of it, and the
    label is (usually) detected in another frame"""
    k = rng.randint(1, 3)
    targets = targets or rng.sample(["car", "bicycle", "pedestrian", "motorbike"], k)
    policy = policy or rng.choice(["DEFAULT", "DEFAULT", "DEFAULT", "ALLOW_UNKNOWN", "ALLOW_ANY"])
    L = rng.choice(targets)
    if shapes is None:
        n = nframes or rng.randint(2, 5)
        shapes = [rng.choice(["missed", "allmissed"]), rng.choice(["perfect", "perfect", "normal", "ghost"])]
        while len(shapes) < n:
            shapes.append(rng.choice(SHAPES))
        rng.shuffle(shapes)
    frames = []
    for sh in shapes:
        # the other labels get their own missed / ghost frames too
        frames.append(_shaped_frame(rng, targets, sh, L if rng.random() < 0.7 else rng.choice(targets)))
    fam = {m: [_thr(rng, m, len(targets)) for _ in range(1 if m == "center" else (1 if rng.random() < 0.25 else 0))] for m in MODES}
    crit, pf = _label_orders(rng, targets)
    return {"kind": "map", "via": "manager", "scene": True, "targets": targets, "policy": policy, "fam": fam, "frames": frames,
            "crit": crit, "pf": pf}


def _scene_corpus():
    """hand-written scenes: one label, threshold 1.0, the frame shapes in every position"""
    def g(i, lab="car", k=0):
        x, y = _GRID[i]
        return {"l": lab, "x": x, "y": y, "z": 0.0, "k": k, "id": i, "ge": "g"}

    def e(i, c, lab="car", dx=0.0, k=0):
        x, y = _GRID[i]
        return {"l": lab, "x": x + dx, "y": y, "z": 0.0, "k": k, "c": c, "id": i, "ge": "e"}

    perfect = {"est": [e(0, 0.875)], "gt": [g(0)], "shape": "perfect"}
    perfect2 = {"est": [e(1, 0.5, k=2), e(2, 0.75)], "gt": [g(1), g(2)], "shape": "perfect"}
    missed = {"est": [], "gt": [g(3)], "shape": "allmissed"}
    missed2 = {"est": [e(4, 0.625, lab="pedestrian")], "gt": [g(4), g(5), g(6, lab="pedestrian")], "shape": "missed"}
    ghost = {"est": [e(7, 0.75)], "gt": [], "shape": "ghost"}
    far = {"est": [e(0, 0.25, dx=3.0)], "gt": [g(0)], "shape": "normal"}
    empty = {"est": [], "gt": [], "shape": "empty"}
    fam = {"center": [[1.0, 1.0]], "plane": [], "iou2d": [], "iou3d": []}
    seqs = [[perfect, missed], [missed, perfect], [perfect, missed2], [missed, missed2], [ghost, missed], [missed, ghost, perfect2],
            [empty, missed, perfect], [perfect, empty, missed, perfect2, missed2], [far, missed, perfect2], [ghost, empty],
            [missed2, perfect2, missed, ghost, far]]
    cs = []
    for frames in seqs:
        cs.append({"kind": "map", "via": "manager", "scene": True, "targets": ["car", "pedestrian"], "policy": "DEFAULT",
                   "fam": {k: [list(t) for t in v] for k, v in fam.items()}, "frames": [dict(f) for f in frames]})
    cs.append({"kind": "map", "via": "manager", "scene": True, "targets": ["car"], "policy": "DEFAULT",
               "fam": {"center": [[1.0], [2.0]], "plane": [[2.0]], "iou2d": [[0.5]], "iou3d": [[0.3]]},
               "frames": [dict(perfect), dict(missed), dict(perfect2)]})
    return cs


def _order_corpus():
    """hand-written: two labels whose thresholds differ (cars 1 m off pass 2.0, pedestrians 0.5 m off fail 0.125), the dicts /
    the label lists of the cooperating configs in another order; and thresholds at the ends of each mode's scale"""
    def o(lab, x, y, c, i, ge):
        return {"l": lab, "x": x, "y": y, "z": 0.0, "k": 0, "c": c, "id": i, "ge": ge}

    gts = [o("car", 10.0, 0.0, 1.0, 0, "g"), o("car", 20.0, 10.0, 1.0, 1, "g"), o("pedestrian", 0.0, 10.0, 1.0, 2, "g"),
           o("pedestrian", 0.0, 20.0, 1.0, 3, "g")]
    ests = [o("car", 11.0, 0.0, 0.875, 0, "e"), o("car", 21.0, 10.0, 0.75, 1, "e"), o("pedestrian", 0.5, 10.0, 0.625, 2, "e"),
            o("pedestrian", 0.5, 20.0, 0.5, 3, "e")]
    fr = {"est": ests, "gt": gts}
    tg = ["car", "pedestrian"]
    cs = []
    for spec in ({"free": False, "fill": True, "extra": [], "rperm": "rev", "nperm": "rev"},
                 {"free": False, "fill": True, "extra": [], "rperm": "rev", "nperm": None},
                 {"free": False, "fill": True, "extra": ["truck"], "rperm": None, "nperm": "rev"},
                 {"free": True, "fill": True, "extra": [], "rperm": "rev", "nperm": "rev"},
                 {"free": True, "fill": False, "extra": ["bus"], "rperm": "rev", "nperm": None}):
        cs.append({"kind": "map", "via": "map", "targets": tg, "policy": "DEFAULT", "mode": "center", "thrs": [2.0, 0.125],
                   "frames": [fr], "dict": spec})
    cs.append({"kind": "map", "via": "score", "targets": tg, "policy": "DEFAULT",
               "fam": {"center": [[2.0, 0.125], [0.5, 1.0]], "plane": [[3.0, 0.25]], "iou2d": [[0.125, 0.75]], "iou3d": []},
               "frames": [fr], "dict": {"free": False, "fill": True, "extra": [], "rperm": "rev", "nperm": "rev"}})
    for crit, pf in ((["pedestrian", "car"], ["pedestrian", "car"]), (["pedestrian", "car"], tg), (tg, ["pedestrian", "car"])):
        cs.append({"kind": "map", "via": "manager", "targets": tg, "policy": "DEFAULT",
                   "fam": {"center": [[2.0, 0.125], [0.5, 1.0]], "plane": [[3.0, 0.25]], "iou2d": [], "iou3d": [[0.125, 0.75]]},
                   "frames": [fr, {"est": ests[:3], "gt": gts[1:]}], "crit": crit, "pf": pf})
    # the ends of the scales
    for mode in MODES:
        lists = ([[INF, INF], [INF, 0.125], [1e300, 5e-324], [1e-300, 0.0], [0.0, INF]] if mode in ("center", "plane")
                 else [[0.0, 1.0], [5e-324, 1e-300], [1.0, 0.0], [INF, 0.5], [0.5, 1e300]])
        for t in lists:
            cs.append({"kind": "map", "via": "map", "targets": tg, "policy": "DEFAULT", "mode": mode, "thrs": t, "frames": [fr]})
    cs.append({"kind": "map", "via": "manager", "targets": tg, "policy": "DEFAULT",
               "fam": {"center": [[INF, 5e-324]], "plane": [[1e300, INF]], "iou2d": [[0.0, 1.0]], "iou3d": [[5e-324, 1e-300]]},
               "frames": [fr], "crit": ["pedestrian", "car"], "pf": tg})
    return cs


def _rank2d_case(rng):
    n = rng.randint(1, 6)
    mode = rng.choice(["center", "iou2d", "iou3d", "plane"])
    noroi = rng.random() < 0.3
    items = []
    for i in range(n):
        g = rng.choice(["car", "car", "pedestrian", None])
        e = rng.choice(["car", "car", "pedestrian"])
        re_ = None if noroi else [100 * i + rng.choice([0, 2, 8, 30]), 50, 20, 10]
        rg = None if noroi else [100 * i, 50, 20, 10]
        items.append({"twod": True, "id": i, "e": e, "g": g, "re": re_, "rg": rg, "c": rng.randint(1, 4) / 4, "p": "DEFAULT"})
    thr = rng.choice([1.0, 3.0, 10.0]) if mode in ("center", "plane") else rng.choice([0.0, 0.5, 0.75])
    thr = _extremes(rng, mode, [thr], 0.15)[0]
    return {"kind": "rank", "twod": True, "items": items, "G": rng.randint(0, n + 1), "mode": mode, "targets": ["car"], "thrs": [thr]}


def corpus():
    cs = []
    # the docstring example of Ap: correct [T,F,T,T], G=4 -> 0.625
    class R:  # deterministic stand-in rng
        def __init__(self):
            import random
            self.r = random.Random(4)
        def __getattr__(self, a):
            return getattr(self.r, a)
    r = R()
    cs.append(_rank_case(["T", "F", "T", "T"], 4, r))
    cs.append(_rank_case([], 0, r))
    cs.append(_rank_case([], 3, r))
    cs.append(_rank_case(["T", "T", "N"], 2, r))      # perfect
    cs.append(_rank_case(["F", "N", "I"], 2, r))      # no TP
    cs.append(_rank_case(["T", "T"], 1, r))           # G < #TP: AP > 1 on the code and on the model (outside one-to-one)
    # ALLOW_ANY cross-label pair (finding candidate): neither TP nor FP for AP
    cs.append({"kind": "map", "via": "map", "targets": ["car", "pedestrian"], "policy": "ALLOW_ANY", "mode": "center",
               "thrs": [1.0, 1.0], "frames": [{"est": [{"l": "car", "x": 0.5, "y": 0.0, "z": 0.0, "k": 0, "c": 0.5, "id": 0, "ge": "e"}],
                                                "gt": [{"l": "pedestrian", "x": 0.0, "y": 0.0, "z": 0.0, "k": 0, "id": 0, "ge": "g"}]}]})
    # IoU threshold outside [0,1] -> AssertionError, but only if some result reaches is_better_than
    cs.append({"kind": "rank", "items": [_realise("T", r, 0, 0.5, True)], "G": 1, "mode": "iou2d", "targets": ["car"], "thrs": [1.5]})
    cs.append({"kind": "rank", "items": [_realise("N", r, 0, 0.5, True)], "G": 1, "mode": "iou2d", "targets": ["car"], "thrs": [1.5]})
    # threshold list shorter than the target list -> IndexError when the second label is looked up
    it = _realise("T", r, 0, 0.5, True)
    cs.append({"kind": "rank", "items": [it], "G": 1, "mode": "center", "targets": ["bicycle", "car"], "thrs": [1.0]})
    cs.extend(_scene_corpus())
    cs.extend(_order_corpus())
    return cs


def generate(rng, tier):
    cases = []
    n3, n4 = (6, 4) if tier == "quick" else (8, 6)
    for n in range(0, n3 + 1):
        for kinds in itertools.product("TFN", repeat=n):
            for G in range(0, n + 2):
                cases.append(_rank_case(list(kinds), G, rng))
    for n in range(1, n4 + 1):
        for kinds in itertools.product("TFNI", repeat=n):
            if "I" not in kinds:
                continue
            for G in range(0, n + 2):
                cases.append(_rank_case(list(kinds), G, rng))
    nl, nm, ns, ng, n2 = (60, 260, 60, 14, 60) if tier == "quick" else (500, 2500, 500, 120, 400)
    nsc = 240 if tier == "quick" else 1200
    for i in range(nl):
        cases.append(_long_case(rng, 400 if i % 3 == 0 else 60))
    for _ in range(nm):
        cases.append(_map_case(rng, "map"))
    for _ in range(ns):
        cases.append(_map_case(rng, "score"))
    for _ in range(ng):
        cases.append(_map_case(rng, "manager"))
    for _ in range(nsc):
        cases.append(_scene_case(rng))
    for _ in range(n2):
        cases.append(_rank2d_case(rng))
    return cases


# ----------------------------------------------------------------------------- the real code

def _results_of(case):
    rs = [mk_result(it) for it in case["items"]]
    if "nested" in case:
        a, b = case["nested"]
        return [rs[:a], rs[a:b], rs[b:]]
    return list(rs)


def _run_ap(tm, case, rs):
    E = env()
    try:
        arg = [list(x) for x in rs] if "nested" in case else list(rs)
        a = E["Ap"](tm, arg, case["G"], [E["LAB"][t] for t in case["targets"]], E["MODE"][case["mode"]], tfl(case["thrs"]))
        return ap_out(a)
    except Exception as e:
        return {"err": type(e).__name__}


_MGR = {}


def _manager(targets, fam, policy):
    import tempfile

    from perception_eval.config import PerceptionEvaluationConfig
    from perception_eval.manager import PerceptionEvaluationManager

    d = {
        "evaluation_task": "detection", "target_labels": list(targets), "max_x_position": 200.0, "max_y_position": 200.0,
        "min_point_numbers": [0] * len(targets), "label_prefix": "autoware", "merge_similar_labels": False,
        "allow_matching_unknown": policy != "DEFAULT", "matching_label_policy": policy,
        "center_distance_thresholds": [tfl(t) for t in fam["center"]], "plane_distance_thresholds": [tfl(t) for t in fam["plane"]],
        "iou_2d_thresholds": [tfl(t) for t in fam["iou2d"]], "iou_3d_thresholds": [tfl(t) for t in fam["iou3d"]],
    }
    d = {k: v for k, v in d.items() if v != []}
    cfg = PerceptionEvaluationConfig(dataset_paths=[str(core.REPO / "perception_eval/test/sample_data")], frame_id="base_link",
                                     result_root_directory=tempfile.mkdtemp(prefix="c04_"), evaluation_config_dict=d)
    return cfg, PerceptionEvaluationManager(cfg)


def _num_gt(a):
    g = getattr(a, "num_ground_truth", None)
    return int(g) if isinstance(g, (int, float)) and not isinstance(g, bool) and float(g).is_integer() else None


def _map_out(m, mode, thrs):
    return {"mode": mode, "thrs": [float(t) for t in thrs], "aps": [ap_out(a) for a in m.aps], "aphs": [ap_out(a) for a in m.aphs],
            "map": fnum(m.map), "maph": fnum(m.maph), "G": [_num_gt(a) for a in m.aps], "Gh": [_num_gt(a) for a in m.aphs]}


def _maps_of(score):
    return [_map_out(m, _mode_name(m.matching_mode), m.matching_threshold_list) for m in score.maps]


_REV = None


def _mode_name(mm):
    E = env()
    for k, v in E["MODE"].items():
        if v == mm:
            return k


def _build_dicts(case, res, gts, targets):
    """the two per-label dicts handed to the real Map / evaluate_detection, built as `case["dict"]` says (see _dict_spec)"""
    import random

    E = env()
    spec = case.get("dict")
    if not spec:
        return E["divide_objects"](res, targets), E["divide_objects_to_num"](gts, targets)
    tl = None if spec["free"] else targets
    rd = E["divide_objects"](res, tl)
    nd = E["divide_objects_to_num"](gts, tl)
    if spec["fill"]:
        for t in targets:
            rd.setdefault(t, [])
            nd.setdefault(t, 0)
    for x in spec["extra"]:
        rd.setdefault(E["LAB"][x], [])
        nd.setdefault(E["LAB"][x], 0)

    def perm(d, seed):
        if seed is None:
            return d
        ks = list(d.keys())
        if seed == "rev":
            ks.reverse()
        else:
            random.Random(seed).shuffle(ks)
        return {k: d[k] for k in ks}

    return perm(rd, spec["rperm"]), perm(nd, spec["nperm"])


def run_impl(case):
    E = env()
    if case["kind"] == "rank":
        rs = _results_of(case)
        twod = bool(case.get("twod"))
        out = {"res": [describe_item(it) for it in case["items"]]}
        out["ap"] = _run_ap(E["TPMetricsAp"](), case, rs)
        if not twod:
            out["aph"] = _run_ap(E["TPMetricsAph"](), case, rs)
        return out
    # ---- map
    targets = [E["LAB"][t] for t in case["targets"]]
    pol = E["MatchingLabelPolicy"][case["policy"]]
    via = case["via"]
    try:
        if via in ("map", "score"):
            fr = case["frames"][0]
            ests = [mk_obj(o) for o in fr["est"]]
            gts = [mk_obj(o) for o in fr["gt"]]
            res = E["get_object_results"](E["EvaluationTask"].DETECTION, ests, gts, targets, pol)
            descs = [describe(r) for r in res]
            out = {"frames": [{"res": descs, "gts": [LID[g.semantic_label.label.value] for g in gts]}]}
            try:
                rd, nd = _build_dicts(case, res, gts, targets)
                if case.get("dict"):
                    # the dicts as handed over, in insertion order: [[label id, descriptors]], [[label id, count]]
                    by = {id(r): d for r, d in zip(res, descs)}
                    out["rd"] = [[LID[k.value], [by[id(r)] for r in v]] for k, v in rd.items()]
                    out["nd"] = [[LID[k.value], int(v)] for k, v in nd.items()]
                if via == "map":
                    thrs = tfl(case["thrs"])
                    m = E["Map"](rd, nd, targets, E["MODE"][case["mode"]], list(thrs))
                    out["maps"] = [_map_out(m, case["mode"], thrs)]
                else:
                    fam = {k: [tfl(t) for t in v] for k, v in case["fam"].items()}
                    cfg = E["MetricsScoreConfig"](
                        E["EvaluationTask"].DETECTION, target_labels=targets,
                        center_distance_thresholds=fam["center"] or None, plane_distance_thresholds=fam["plane"] or None,
                        iou_2d_thresholds=fam["iou2d"] or None, iou_3d_thresholds=fam["iou3d"] or None)
                    ms = E["MetricsScore"](cfg, used_frame=[0])
                    ms.evaluate_detection(rd, nd)
                    out["maps"] = [_map_out(m, _mode_name(m.matching_mode), m.matching_threshold_list) for m in ms.maps]
            except Exception as e:
                out["err"] = type(e).__name__
            return out
        # ---- the real manager
        from perception_eval.common.dataset import FrameGroundTruth
        from perception_eval.common.transform import HomogeneousMatrix
        from perception_eval.evaluation.result.perception_frame_config import CriticalObjectFilterConfig, PerceptionPassFailConfig

        cfg, mgr = _manager(case["targets"], case["fam"], case["policy"])
        # the filter / pass-fail configs may list the same labels in another order than the evaluation config
        crit = CriticalObjectFilterConfig(cfg, list(case.get("crit") or case["targets"]), max_x_position_list=[150.0] * len(targets),
                                          max_y_position_list=[150.0] * len(targets))
        pf = PerceptionPassFailConfig(cfg, list(case.get("pf") or case["targets"]), matching_threshold_list=[2.0] * len(targets))
        out = {"frames": [], "frame_maps": []}
        for i, fr in enumerate(case["frames"]):
            ests = [mk_obj(o) for o in fr["est"]]
            gts = [mk_obj(o) for o in fr["gt"]]
            fgt = FrameGroundTruth(100, str(i), gts, transforms=[HomogeneousMatrix((0, 0, 0), (1, 0, 0, 0), E["FrameID"].BASE_LINK, E["FrameID"].MAP)])
            r = mgr.add_frame_result(100, fgt, ests, crit, pf)
            out["frames"].append({"res": [describe(x) for x in r.object_results],
                                  "gts": [LID[g.semantic_label.label.value] for g in r.frame_ground_truth.objects]})
            out["frame_maps"].append([_map_out(m, _mode_name(m.matching_mode), m.matching_threshold_list) for m in r.metrics_score.maps])
        sc = mgr.get_scene_result()
        out["maps"] = _maps_of(sc)
        # what the manager holds after the scene evaluation, and the same question asked a second time
        out["stored"] = [{"res": [describe(x) for x in fr_.object_results],
                          "gts": [LID[g.semantic_label.label.value] for g in fr_.frame_ground_truth.objects]}
                         for fr_ in mgr.frame_results]
        out["frame_maps_after"] = [_maps_of(fr_.metrics_score) for fr_ in mgr.frame_results]
        out["maps_again"] = _maps_of(mgr.get_scene_result())
        return out
    except Exception as e:
        return {"err": type(e).__name__}


# ----------------------------------------------------------------------------- the model

def _map_req(case, out, mode, thrs):
    """the model request for one Map of a single-frame case: on the dicts as handed over, or on the frame's result list"""
    tg = [LID[t] for t in case["targets"]]
    if "rd" in out:
        return {"op": "mapdict", "mode": mode, "is2d": False, "targets": tg, "thrs": [tq(t) for t in thrs],
                "buckets": [[k, [[model_res(d, mode) for d in v]]] for k, v in out["rd"]], "nums": out["nd"]}
    fr = out["frames"][0]
    return {"op": "map", "mode": mode, "is2d": False, "scene": False, "targets": tg, "thrs": [tq(t) for t in thrs],
            "frames": [{"results": [model_res(d, mode) for d in fr["res"]], "gts": fr["gts"]}]}


def model_requests(case, out):
    if "err" in out and "maps" not in out and case["kind"] == "map":
        # the evaluation raised; for a direct Map call the model is asked for the same exception
        if case["via"] == "map" and "frames" in out and ("rd" in out or not case.get("dict")):
            return [_map_req(case, out, case["mode"], case["thrs"])]
        return []
    if case["kind"] == "rank":
        ds = [model_res(d, case["mode"]) for d in out["res"]]
        if "nested" in case:
            a, b = case["nested"]
            nested = [ds[:a], ds[a:b], ds[b:]]
        else:
            nested = [ds]
        return [{"op": "ap", "mode": case["mode"], "targets": [LID[t] for t in case["targets"]],
                 "thrs": [tq(t) for t in case["thrs"]], "G": case["G"], "results": nested}]
    reqs = []
    tg = [LID[t] for t in case["targets"]]
    if case["via"] == "manager":
        crit = [LID[t] for t in (case.get("crit") or case["targets"])]  # the label list that keys the frame-level dicts
        for fr, maps in zip(out["frames"], out["frame_maps"]):
            for m in maps:
                reqs.append({"op": "map", "mode": m["mode"], "is2d": False, "scene": False, "targets": tg, "crit": crit,
                             "thrs": [tq(t) for t in m["thrs"]],
                             "frames": [{"results": [model_res(d, m["mode"]) for d in fr["res"]], "gts": fr["gts"]}]})
        for m in out["maps"]:
            reqs.append({"op": "map", "mode": m["mode"], "is2d": False, "scene": True, "targets": tg, "thrs": [tq(t) for t in m["thrs"]],
                         "frames": [{"results": [model_res(d, m["mode"]) for d in fr["res"]], "gts": fr["gts"]} for fr in out["frames"]]})
        return reqs
    for m in out["maps"]:
        reqs.append(_map_req(case, out, m["mode"], m["thrs"]))
    return reqs


def _cmp_ap(tag, a, r):
    if "err" in a or "err" in r:
        return None if a.get("err") == r.get("err") else f"{tag}: impl {a} != model {r}"
    if not core.close(a["ap"], core.unq(r["ap"])):
        return f"{tag}.ap impl {a['ap']} != model {r['ap']}"
    for k, mk in (("tp", "tp_list"), ("fp", "fp_list")):
        if len(a[k]) != len(r[mk]) or any(not core.close(x, core.unq(y)) for x, y in zip(a[k], r[mk])):
            return f"{tag}.{mk} impl {a[k]} != model {r[mk]}"
    return None


def _cmp_map(tag, m, r):
    if "err" in r:
        return f"{tag}: impl ok, model {r}"
    if len(m["aps"]) != len(r["aps"]) or len(m["aphs"]) != len(r["aphs"]):
        return f"{tag}: number of per-label APs differs"
    for i, (a, b) in enumerate(zip(m["aps"], r["aps"])):
        d = _cmp_ap(f"{tag}.aps[{i}]", a, b)
        if d:
            return d
    for i, (a, b) in enumerate(zip(m["aphs"], r["aphs"])):
        d = _cmp_ap(f"{tag}.aphs[{i}]", a, b)
        if d:
            return d
    for k in ("map", "maph"):
        if not core.close(m[k], core.unq(r[k])):
            return f"{tag}.{k} impl {m[k]} != model {r[k]}"
    return None


def compare(case, out, resps):
    if case["kind"] == "rank":
        r = resps[0]
        d = _cmp_ap("Ap", out["ap"], r["ap"])
        if d:
            return d
        if "aph" in out:
            return _cmp_ap("Aph", out["aph"], r["aph"])
        return None
    if "err" in out and "maps" not in out:
        r = resps[0]
        return None if r.get("err") == out["err"] else f"impl {out['err']} != model {r}"
    allmaps = []
    if case["via"] == "manager":
        for i, maps in enumerate(out["frame_maps"]):
            allmaps += [(f"frame{i}.map[{j}]", m) for j, m in enumerate(maps)]
    allmaps += [(f"map[{j}]", m) for j, m in enumerate(out["maps"])]
    if len(allmaps) != len(resps):
        return "request/response count mismatch"
    for (tag, m), r in zip(allmaps, resps):
        d = _cmp_map(tag, m, r)
        if d:
            return d
    return None


# ----------------------------------------------------------------------------- the property on the real outputs

TOL = 1e-9


def _check_ap(tag, a, confs, ws, fps, G):
    """The property for one `Ap`: a = real output; per result (INPUT order) confidence, TP weight (Fraction), FP flag.

    Ties in confidence: the property fixes no order among them, so any order is accepted — within every group of equal
    confidence the increments of tp_list / fp_list must be a permutation of the group's expected (weight, flag) pairs, and
    `ap` must be the interpolated area of the ranking the code realised."""
    if "err" in a:
        return f"{tag}: {a['err']}"
    n = len(ws)
    if n == 0:
        return None if a["ap"] is None else f"{tag}: no result but ap = {a['ap']} (must be undefined)"
    if a["ap"] is None:
        return f"{tag}: {n} results but ap undefined"
    tp, fp = a["tp"], a["fp"]
    if len(tp) != n or len(fp) != n:
        return f"{tag}: tp_list / fp_list have lengths {len(tp)}, {len(fp)} for {n} results"
    inc = [(tp[j] - (tp[j - 1] if j else 0.0), fp[j] - (fp[j - 1] if j else 0.0)) for j in range(n)]
    order = rank_order(confs)
    j = 0
    while j < n:
        k = j
        while k < n and confs[order[k]] == confs[order[j]]:
            k += 1
        exp = sorted((round(float(ws[i]), 9), round(float(fps[i]))) for i in order[j:k])
        got = sorted((round(x, 9), round(y)) for x, y in inc[j:k])
        if any(abs(x[0] - y[0]) > 1e-8 or x[1] != y[1] for x, y in zip(exp, got)):
            return (f"{tag}: ranks {j}..{k - 1} (confidence {float(confs[order[j]])}) carry TP/FP increments {got}, "
                    f"expected {exp}: tp_list/fp_list are not running sums in descending-confidence order")
        j = k
    realised = [Fraction(x) for x, _ in inc]
    ref = rect_union_ap(realised, G)
    if not core.close(a["ap"], ref, TOL, TOL):
        return f"{tag}: ap {a['ap']} but the interpolated precision-recall area is {float(ref)} (weights {[float(w) for w in realised]}, G={G})"
    total = sum(ws)
    if total <= G and all(0 <= w <= 1 for w in ws) and not (-TOL <= a["ap"] <= 1 + TOL):
        return f"{tag}: ap {a['ap']} outside [0,1]"
    if total == 0 and abs(a["ap"]) > TOL:
        return f"{tag}: no correct estimate but ap = {a['ap']}"
    return None


def _check_extremes(tag, a, is_tp, confs, G):
    """AP (weight 1 per TP): 1 when every ground truth is matched by a TP and no non-TP is ranked above a TP"""
    if "err" in a or a["ap"] is None or G <= 0:
        return None
    if sum(is_tp) != G:
        return None
    order = rank_order(confs)
    worst_tp = min(confs[i] for i in order if is_tp[i])
    if any((not is_tp[i]) and confs[i] >= worst_tp for i in order):
        return None  # a wrong estimate outranks (or ties with) a correct one
    if abs(a["ap"] - 1) > TOL:
        return f"{tag}: every ground truth matched by a correct estimate ranked above all wrong ones, but AP = {a['ap']}"
    return None


def _oracle_bucket(tag, descs, G, label, mode, thr, ap, aph):
    """descs in input order (bucket of `label`); ap / aph real outputs"""
    confs = [Fraction(d["c"]) for d in descs]
    tps, looked = [], []
    for d in descs:
        t = tp_by_text(d, mode, label, thr)
        if t is None:
            return None
        tps.append(t)
        key = LABELS[d["g"]["l"]] if d["g"] is not None else LABELS[d["l"]]
        looked.append(key == label)
    fpf = [int(k and not t) for t, k in zip(tps, looked)]
    f = _check_ap(tag + ".AP", ap, confs, [Fraction(int(t)) for t in tps], fpf, G) or _check_extremes(tag, ap, tps, confs, G)
    if f:
        return f
    if aph is not None:
        hs = [Fraction(d["h"]) if t else Fraction(0) for d, t in zip(descs, tps)]
        f = _check_ap(tag + ".APH", aph, confs, hs, fpf, G)
        if f:
            return f
        if "err" not in ap and "err" not in aph and ap["ap"] is not None and aph["ap"] is not None and aph["ap"] > ap["ap"] + TOL:
            return f"{tag}: APH {aph['ap']} > AP {ap['ap']}"
    return None


def _given(out):
    """the per-label results and ground-truth counts a dict-driven case handed to the real code: {label: (descs, G)};
    None if a target label was missing from a dict (outside the property: the call has no defined value)"""
    if "rd" not in out:
        return None
    rd = {LABELS[k]: v for k, v in out["rd"]}
    nd = {LABELS[k]: v for k, v in out["nd"]}
    return rd, nd


def _oracle_map(tag, m, frames, targets, scene, given=None):
    """m real Map output; frames = [{"res": descs, "gts": label ids}]; given = the dicts handed to Map (dict-driven cases):
    each label's AP is then a statement about that label's entry — whatever the order of the keys"""
    tnames = list(targets)
    aps = []
    if given is not None and any(t not in given[0] or t not in given[1] for t in tnames):
        return None
    for li, (lab, thr) in enumerate(zip(tnames, m["thrs"])):
        bucket = []
        G = 0
        if given is not None:
            bucket, G = list(given[0][lab]), given[1][lab]
        for fr in (frames if given is None else []):
            for d in fr["res"]:
                el = LABELS[d["l"]]
                if el in tnames:
                    b = el
                elif d["g"] is not None:
                    b = LABELS[d["g"]["l"]]
                else:
                    b = None
                if b == lab:
                    bucket.append(d)
            G += sum(1 for g in fr["gts"] if LABELS[g] == lab)
        if li >= len(m["aps"]):
            return f"{tag}: no AP for label {lab}"
        f = _oracle_bucket(f"{tag}[{lab}]", bucket, G, lab, m["mode"], thr, m["aps"][li], m["aphs"][li] if li < len(m["aphs"]) else None)
        if f:
            return f
        if (m["aps"][li]["ap"] is None) != (len(bucket) == 0):
            return f"{tag}[{lab}]: AP defined iff the label has a result is violated"
    for k, key in (("map", "aps"), ("maph", "aphs")):
        vals = [a["ap"] for a in m[key] if a.get("ap") is not None]
        want = sum(vals) / len(vals) if vals else None
        if not core.close(m[k], want, TOL, TOL):
            return f"{tag}: {k} {m[k]} is not the mean {want} of the defined per-label values"
        if m[k] is not None and not (-TOL <= m[k] <= 1 + TOL):
            return f"{tag}: {k} {m[k]} outside [0,1]"
    return None


def _bucket_of(d, tnames):
    """the per-label list a result belongs to: its own label if that is evaluated, else the label of its ground truth"""
    el = LABELS[d["l"]]
    if el in tnames:
        return el
    return LABELS[d["g"]["l"]] if d["g"] is not None else None


def _ap_bracket(confs, ws, G):
    """[lowest, highest] interpolated PR area over the orders the property allows (any order among equal confidences):
    the union of the rectangles grows with the running sums, so heaviest-first / lightest-first inside each tie group are the
    extremes; both coincide when no tie group mixes weights"""
    if not ws:
        return None
    lo = sorted(range(len(ws)), key=lambda i: (-confs[i], ws[i]))
    hi = sorted(range(len(ws)), key=lambda i: (-confs[i], -ws[i]))
    return rect_union_ap([ws[i] for i in lo], G), rect_union_ap([ws[i] for i in hi], G)


def _recompute_map(tag, m, frames, targets):
    """INDEPENDENT recomputation of one real Map output from frame records [{"res": descriptors, "gts": label ids}]: per label
    the pooled result list of all frames, the ground-truth count summed over all frames, TP by the property's rule, AP / APH as
    the rectangle-union area in Fractions (nothing of the code's tp_list / fp_list is used), mAP / mAPH as the mean over the
    labels that have a result."""
    tnames = list(targets)
    los = {"aps": [], "aphs": []}
    his = {"aps": [], "aphs": []}
    exact = True
    for li, (lab, thr) in enumerate(zip(tnames, m["thrs"])):
        pooled = [d for fr in frames for d in fr["res"] if _bucket_of(d, tnames) == lab]
        G = sum(1 for fr in frames for g in fr["gts"] if LABELS[g] == lab)
        per_frame = (f"ground truths per frame {[sum(1 for g in fr['gts'] if LABELS[g] == lab) for fr in frames]}, "
                     f"results per frame {[sum(1 for d in fr['res'] if _bucket_of(d, tnames) == lab) for fr in frames]}")
        held = [h[li] for h in (m.get("G") or [], m.get("Gh") or []) if li < len(h)]
        count_note = "" if all(h is None or h == G for h in held) else f"; the value was computed against {held} ground truths"
        tps = [tp_by_text(d, m["mode"], lab, thr) for d in pooled]
        if any(t is None for t in tps):
            exact = False
            continue
        confs = [Fraction(d["c"]) for d in pooled]
        for key, ws in (("aps", [Fraction(int(t)) for t in tps]),
                        ("aphs", [Fraction(d["h"]) if t else Fraction(0) for d, t in zip(pooled, tps)])):
            if li >= len(m[key]):
                if key == "aps":
                    return f"{tag}: no AP for label {lab}"
                continue
            a = m[key][li]
            if "err" in a:
                return f"{tag}[{lab}].{key}: {a['err']}"
            br = _ap_bracket(confs, ws, G)
            if br is None:
                if a["ap"] is not None:
                    return f"{tag}[{lab}].{key}: no result of this label in any frame but the value is {a['ap']} (must be undefined)"
                continue
            if a["ap"] is None:
                return f"{tag}[{lab}].{key}: {len(pooled)} results but the value is undefined"
            if not (float(br[0]) - TOL <= a["ap"] <= float(br[1]) + TOL):
                return (f"{tag}[{lab}].{key}: {a['ap']} but the interpolated precision-recall area of the pooled results "
                        f"({len(pooled)} results, {G} ground truths over {len(frames)} frame(s)) is "
                        + (f"{float(br[0])}" if br[0] == br[1] else f"within [{float(br[0])}, {float(br[1])}]")
                        + f" ({per_frame}{count_note})")
            los[key].append(br[0])
            his[key].append(br[1])
        if pooled and count_note:
            # the ground-truth count is the recall denominator of a defined AP of this label
            return f"{tag}[{lab}]: the frames hold {G} ground truths of this label ({per_frame}){count_note}"
    if exact:
        for k, key in (("map", "aps"), ("maph", "aphs")):
            if not m[key] and key == "aphs":
                continue
            if not los[key]:
                if m[k] is not None:
                    return f"{tag}: {k} {m[k]} but no label has a result"
                continue
            lo, hi = sum(los[key]) / len(los[key]), sum(his[key]) / len(his[key])
            if m[k] is None or not (float(lo) - TOL <= m[k] <= float(hi) + TOL):
                return f"{tag}: {k} {m[k]} is not the mean of the defined per-label areas ({float(lo)}" + ("" if lo == hi else f"..{float(hi)}") + ")"
    return None


def _num_eq(a, b):
    if a is None or b is None:
        return a is None and b is None
    return abs(a - b) <= TOL


def _same_ap(a, b):
    if "err" in a or "err" in b:
        return a.get("err") == b.get("err")
    if a["ap"] is None and b["ap"] is None:
        return True  # undefined on both sides: tp_list / fp_list are then no running sums over a ranking
    return (_num_eq(a["ap"], b["ap"]) and len(a["tp"]) == len(b["tp"]) and len(a["fp"]) == len(b["fp"])
            and all(_num_eq(x, y) for x, y in zip(a["tp"], b["tp"])) and all(_num_eq(x, y) for x, y in zip(a["fp"], b["fp"])))


def _same_maps(ms1, ms2):
    if len(ms1) != len(ms2):
        return False
    for m1, m2 in zip(ms1, ms2):
        if m1["mode"] != m2["mode"] or m1["thrs"] != m2["thrs"] or not _num_eq(m1["map"], m2["map"]) or not _num_eq(m1["maph"], m2["maph"]):
            return False
        for key in ("aps", "aphs"):
            if len(m1[key]) != len(m2[key]) or not all(_same_ap(a, b) for a, b in zip(m1[key], m2[key])):
                return False
    return True


def _frame_key(fr):
    return (sorted(json.dumps(d, sort_keys=True) for d in fr["res"]), sorted(fr["gts"]))


def _oracle_scene(case, out):
    """scene level through the manager: the scene's Map is a function of the frame results the manager holds"""
    tg = case["targets"]
    stored = out.get("stored")
    if stored is None:
        return None
    if len(stored) != len(out["frames"]):
        return f"the manager holds {len(stored)} frame results after {len(out['frames'])} add_frame_result calls"
    for i, (a, b) in enumerate(zip(out["frames"], stored)):
        if _frame_key(a) != _frame_key(b):
            return f"frame {i}: the object results / ground truths held by the manager changed between add_frame_result and get_scene_result"
    for i, (a, b) in enumerate(zip(out["frame_maps"], out["frame_maps_after"])):
        if not _same_maps(a, b):
            return f"frame {i}: the frame-level scores changed when the scene was evaluated"
    if not _same_maps(out["maps"], out["maps_again"]):
        return "get_scene_result gives different scores when asked twice on the same frames"
    for i, (fr, maps) in enumerate(zip(stored, out["frame_maps"])):
        for j, m in enumerate(maps):
            f = _recompute_map(f"frame{i}.map[{j}:{m['mode']}]", m, [fr], tg)
            if f:
                return f
    for j, m in enumerate(out["maps"]):
        f = _recompute_map(f"scene.map[{j}:{m['mode']}]", m, stored, tg)
        if f:
            return f
    if len(stored) == 1 and not _same_maps(out["maps"], out["frame_maps"][0]):
        return "a one-frame scene scores differently from its only frame"
    return None


def oracle(case, out):
    if case["kind"] == "rank":
        if case.get("twod") or case.get("long"):
            # decisions re-derived from the observed scores by the property's rule
            if "err" in out["ap"]:
                return _expected_error(case, out)
            tg = case["targets"]
            if len(tg) != 1:
                return _oracle_multi(case, out)
            return _oracle_bucket("Ap", out["res"], case["G"], tg[0], case["mode"], case["thrs"][0], out["ap"], out.get("aph"))
        if "err" in out["ap"]:
            return _expected_error(case, out)
        if len(case["targets"]) != 1 or case["mode"] != "center":
            return _oracle_multi(case, out)
        # exhaustive rankings: everything from the generator's intention (kind, weight), nothing observed
        items = case["items"]
        confs = [Fraction(it["c"]) for it in items]
        G = case["G"]
        is_tp = [it["k"] == "T" for it in items]
        fpw = [1 if it["k"] in ("F", "N") else 0 for it in items]
        f = (_check_ap("Ap", out["ap"], confs, [Fraction(int(t)) for t in is_tp], fpw, G)
             or _check_extremes("Ap", out["ap"], is_tp, confs, G)
             or _check_ap("Aph", out["aph"], confs, [Fraction(it["w"], 8) if it["k"] == "T" else Fraction(0) for it in items], fpw, G))
        if f:
            return f
        a, h = out["ap"]["ap"], out["aph"]["ap"]
        if a is not None and h is not None and h > a + TOL:
            return f"APH {h} > AP {a}"
        return None
    if "err" in out and "maps" not in out:
        return _expected_error(case, out)
    tg = case["targets"]
    if case["via"] == "manager":
        for i, (fr, maps) in enumerate(zip(out["frames"], out["frame_maps"])):
            for j, m in enumerate(maps):
                f = _oracle_map(f"frame{i}.map[{j}:{m['mode']}]", m, [fr], tg, False)
                if f:
                    return f
        for j, m in enumerate(out["maps"]):
            f = _oracle_map(f"scene.map[{j}:{m['mode']}]", m, out["frames"], tg, True)
            if f:
                return f
        return _oracle_scene(case, out)
    for j, m in enumerate(out["maps"]):
        f = _oracle_map(f"map[{j}:{m['mode']}]", m, out["frames"], tg, False, _given(out))
        if f:
            return f
    return None


def _oracle_multi(case, out):
    """Ap called directly with several target labels: TP rule per looked-up label"""
    descs = out["res"]
    confs = [Fraction(d["c"]) for d in descs]
    tps, looked = [], []
    for d in descs:
        key = LABELS[d["g"]["l"]] if d["g"] is not None else LABELS[d["l"]]
        if key not in case["targets"]:
            tps.append(False)
            looked.append(False)
            continue
        thr = case["thrs"][case["targets"].index(key)]
        t = tp_by_text(d, case["mode"], key, thr)
        if t is None:
            return None
        tps.append(t)
        looked.append(True)
    fpf = [int(k and not t) for t, k in zip(tps, looked)]
    f = _check_ap("Ap", out["ap"], confs, [Fraction(int(t)) for t in tps], fpf, case["G"])
    if f or "aph" not in out:
        return f
    hs = [Fraction(d["h"]) if t else Fraction(0) for d, t in zip(descs, tps)]
    f = _check_ap("Aph", out["aph"], confs, hs, fpf, case["G"])
    if f:
        return f
    if out["ap"]["ap"] is not None and out["aph"]["ap"] > out["ap"]["ap"] + TOL:
        return f"APH {out['aph']['ap']} > AP {out['ap']['ap']}"
    return None


def _expected_error(case, out):
    """an exception is acceptable only where the documented contract has one"""
    err = out.get("err") or out["ap"].get("err")
    mode = case.get("mode")
    if err == "AssertionError" and mode in ("iou2d", "iou3d") and not iou_valid(case["thrs"]):
        return None
    if err == "AssertionError" and case.get("via") == "score" and not all(iou_valid(t) for m in ("iou2d", "iou3d") for t in case["fam"][m]):
        return None
    if err == "KeyError" and case.get("dict"):
        g = _given(out)  # a target label is no key of one of the dicts handed over
        if g is None or any(t not in g[0] or t not in g[1] for t in case["targets"]):
            return None
    if err == "IndexError" and len(case["thrs"]) < len(case["targets"]):
        return None
    if err == "AttributeError" and case.get("twod"):
        return None  # Ap needs a matching method for its matching-score statistics; 2-D objects have none for this mode
    return f"unexpected {err}"


def _scene_branches(case, out):
    """frame shapes of a manager scene, per (frame, label): gt = ground truths of the label, res = results filed under it"""
    b = []
    tn = case["targets"]
    fam = "scene" if case.get("scene") else "mgr"
    frames = out["stored"]
    b.append(f"scene:{fam}:frames={len(frames)}")
    for fr in case["frames"]:
        if "shape" in fr:
            b.append("scene:shape=" + fr["shape"])
    if any(not fr["res"] and not fr["gts"] for fr in frames):
        b.append("scene:has-empty-frame")
    sensitive = False
    for li, lab in enumerate(tn):
        ng = [sum(1 for g in fr["gts"] if LABELS[g] == lab) for fr in frames]
        nr = [sum(1 for d in fr["res"] if _bucket_of(d, tn) == lab) for fr in frames]
        kinds = set()
        for i, (g, r) in enumerate(zip(ng, nr)):
            k = "gt-only" if g and not r else "res-only" if r and not g else "absent" if not g and not r else "both"
            kinds.add(k)
            b.append(f"scene:frame-label:{k}")
            if k == "gt-only":
                b.append("scene:gt-only-at:" + ("first" if i == 0 else "last" if i == len(frames) - 1 else "middle"))
        if "gt-only" in kinds and sum(nr) > 0:
            b.append("scene:label-missed-in-one-frame-detected-in-another")
            # does the ground-truth count of the all-missed frames matter for the scene value of this label?
            for m in out["maps"]:
                if li < len(m["aps"]) and m["aps"][li].get("ap"):
                    tps = [tp_by_text(d, m["mode"], lab, m["thrs"][li]) for fr in frames for d in fr["res"] if _bucket_of(d, tn) == lab]
                    if None not in tps and any(tps):
                        sensitive = True
        if "gt-only" in kinds and "res-only" in kinds:
            b.append("scene:label-gt-only-and-res-only-frames")
        if sum(ng) > 0 and sum(nr) == 0:
            b.append("scene:label-never-detected")
    if sensitive:
        b.append("scene:missed-frame-count-moves-scene-AP")
    for m in out["maps"]:
        fm = [x for maps in out["frame_maps"] for x in maps if x["mode"] == m["mode"] and x["thrs"] == m["thrs"] and x["map"] is not None]
        if m["map"] is not None and fm:
            mean = sum(x["map"] for x in fm) / len(fm)
            b.append("scene:map" + ("=" if abs(mean - m["map"]) < 1e-12 else "<" if m["map"] < mean else ">") + "mean-of-frame-maps")
    return b


def thr_branches(lists):
    """histogram keys for the threshold values of a case"""
    b = set()
    for ts in lists:
        vals = tfl(ts)
        for t in vals:
            b.add("thr:" + ("inf" if _isinf(t) else "huge" if t >= 1e200 else "zero" if t == 0 else "tiny" if 0 < t < 1e-200
                            else "outside-iou" if not (0 <= t <= 1) and False else "ordinary"))
        if len(set(vals)) > 1:
            b.add("thr:differ-between-labels")
    return sorted(b)


def branches(case, out):
    b = []
    if case["kind"] == "map":
        b.extend(thr_branches([case["thrs"]] if "thrs" in case else [t for v in case["fam"].values() for t in v]))
        if case.get("dict"):
            d = case["dict"]
            b.append("dict:" + ("free" if d["free"] else "by-targets") + (":filled" if d["fill"] and d["free"] else ""))
            tg = [LID[t] for t in case["targets"]]
            for key in ("rd", "nd"):
                if key in out:
                    ks = [k for k, _ in out[key] if k in tg]
                    b.append(f"dict:{key}:" + ("target-order" if ks == tg else "target-missing" if len(ks) < len(tg) else "other-order")
                             + (":extra-keys" if len(out[key]) > len(ks) else ""))
        elif case["via"] in ("map", "score"):
            b.append("dict:plain")
        if case["via"] == "manager":
            for key in ("crit", "pf"):
                b.append(f"{key}-labels:" + ("other-order" if case.get(key) and case[key] != case["targets"] else "same-order"))
    else:
        b.extend(thr_branches([case["thrs"]]))
    if case["kind"] == "rank":
        n = len(case["items"])
        tag = "rank2d" if case.get("twod") else "long" if case.get("long") else "rank"
        b.append(f"{tag}:n={'0' if n == 0 else n if n <= 8 else '9-60' if n <= 60 else '61-400'}")
        if n == 0:
            b.append("trivial")
        a = out["ap"]
        if "err" in a:
            b.append(f"{tag}:err:{a['err']}")
        else:
            v = a["ap"]
            b.append(f"{tag}:ap=" + ("undef" if v is None else "0" if abs(v) < 1e-12 else "1" if abs(v - 1) < 1e-12 else ">1" if v > 1 else "mid"))
            tp = a["tp"][-1] if a["tp"] else 0
            b.append(f"{tag}:G" + ("=0" if case["G"] == 0 else "<tp" if case["G"] < tp else ">=tp"))
        confs = [it["c"] for it in case["items"]]
        b.append(f"{tag}:ties" if len(set(confs)) < len(confs) else f"{tag}:distinct-conf")
        b.append(f"{tag}:mode={case['mode']}")
        if "nested" in case:
            b.append(f"{tag}:nested")
        if not case.get("long") and not case.get("twod"):
            for it in case["items"]:
                b.append("item:" + it["k"] + ":" + it["e"] + "/" + str(it["g"]) + ":" + it["p"][:7] + ":d=" + str(max(it["d"])))
        for d in out.get("res", []):
            s = d["s"][case["mode"]]
            b.append("score:" + ("nomethod" if s == "nm" else "none" if s is None else "val"))
        if "aph" in out and "ap" in out["aph"] and out["aph"]["ap"] is not None and out["ap"].get("ap") is not None:
            b.append(f"{tag}:aph" + ("=ap" if abs(out["aph"]["ap"] - out["ap"]["ap"]) < 1e-12 else "<ap"))
        return b
    via = case["via"]
    b.append(f"map:{via}:labels={len(case['targets'])}:{case['policy']}")
    if "err" in out and "maps" not in out:
        b.append(f"map:{via}:err:{out['err']}")
        return b
    nres = sum(len(fr["res"]) for fr in out["frames"])
    if nres == 0:
        b.append("trivial")
    b.append(f"map:{via}:frames={len(out['frames'])}")
    for m in out["maps"]:
        b.append(f"map:mode={m['mode']}")
        b.append("map:map=" + ("undef" if m["map"] is None else "0" if m["map"] == 0 else "1" if abs(m["map"] - 1) < 1e-12 else "mid"))
        nd = sum(1 for a in m["aps"] if a["ap"] is not None)
        b.append(f"map:defined={nd}/{len(m['aps'])}")
        if m["maph"] is not None and m["map"] is not None:
            b.append("map:maph" + ("=map" if abs(m["maph"] - m["map"]) < 1e-12 else "<map"))
    if via == "manager" and "stored" in out:
        b.extend(_scene_branches(case, out))
    for fr in out["frames"]:
        for d in fr["res"]:
            el = LABELS[d["l"]]
            gl = None if d["g"] is None else LABELS[d["g"]["l"]]
            kind = "nogt" if gl is None else "fpgt" if gl == "false_positive" else "same" if gl == el else "unk-est" if el == "unknown" else "cross"
            tgt = "T" if el in case["targets"] else "t"
            b.append(f"res:{kind}:{tgt}")
    return b


def shrink(case):
    if case["kind"] == "rank":
        its = case["items"]
        for i in range(len(its)):
            c = dict(case)
            c["items"] = its[:i] + its[i + 1:]
            c.pop("nested", None)
            yield c
        if case["G"] > 0:
            c = dict(case)
            c["G"] = case["G"] - 1
            yield c
        if "nested" in case:
            c = dict(case)
            c.pop("nested")
            yield c
    else:
        for fi, fr in enumerate(case["frames"]):
            for key in ("est", "gt"):
                for i in range(len(fr[key])):
                    c = dict(case)
                    c["frames"] = [dict(f) for f in case["frames"]]
                    c["frames"][fi][key] = fr[key][:i] + fr[key][i + 1:]
                    yield c
        if len(case["frames"]) > 1:
            for fi in range(len(case["frames"])):
                c = dict(case)
                c["frames"] = case["frames"][:fi] + case["frames"][fi + 1:]
                yield c


def search(rng, st, disagreements):
    """extra budget aimed at the ranking / interpolation logic: all rankings one size up and tie-heavy long rankings"""
    cases = []
    for kinds in itertools.product("TFN", repeat=7):
        for G in (0, 1, 3, 7):
            cases.append(_rank_case(list(kinds), G, rng))
    for i in range(200):
        cases.append(_long_case(rng, 120))
    for i in range(300):
        cases.append(_scene_case(rng))
    return cases
