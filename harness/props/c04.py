"""C04 — AP, APH and mAP equal the interpolated precision-recall area, within [0,1].

Tie to the code: abstract rankings are realised as REAL `DynamicObjectWithPerceptionResult` lists (real
`DynamicObject` pairs at exact dyadic offsets, yaw differences of k*pi/8 for a chosen heading weight) and
handed to the real `Ap`, `Map`, `MetricsScore.evaluate_detection`, `PerceptionEvaluationManager`; the Lean
model (`PEval/Model/AP.lean`) receives the same result list (confidence, labels, the real matching score
and the real heading weight as exact rationals) and must reproduce `ap`, `tp_list`, `fp_list`, `map`,
`maph`.  The oracle is independent of the model: AP recomputed from scratch as the area of the union of
the origin-anchored rectangles [0,r_i]x[0,p_i] in exact Fractions, with the TP decision re-derived from
the property text (for `rank` cases from the generator's intended kinds, not from any observed score).
"""
from __future__ import annotations

import itertools
import math
import os
from fractions import Fraction

from .. import core

os.environ.setdefault("TQDM_DISABLE", "1")

PROP = "C04"
EXHAUSTIVE = True
RULE = (
    "rank: EXHAUSTIVE over rankings kind in {TP,FP,GT-less}^n (n<=6 quick / 8 thorough) and {TP,FP,GT-less,ignored}^n "
    "(n<=4 / 6) x ground-truth count 0..n+1; per case the rng picks the realisation of each kind (distance vs label FP, "
    "distance exactly on the threshold, unknown/any-policy TP, non-target / FP-labelled ignored), heading weights, "
    "confidence ties, the input permutation and flat/nested input; long: random rankings up to 400 results with heavy "
    "confidence ties over the four matching modes; map: random multi-label scenes matched by the real get_object_results "
    "through Map / MetricsScore.evaluate_detection / the real manager (frame and scene level); rank2d: 2-D objects. "
    "Non-trivial = at least one result; distinct = distinct canonical JSON of the case."
)
THEOREMS = [
    "PEval.C04." + t
    for t in [
        "apCode_eq_apSpec", "ap_eq_spec", "ap_undefined_iff_no_result", "ap_nonneg", "ap_le_one",
        "aph_le_ap", "ap_in_unit_interval", "ap_one_of_perfect", "ap_zero_of_no_tp", "map_mean_of_defined", "map_bounds",
        "map_undefined_iff", "sort_perm", "sort_sorted", "sort_stable", "sort_idem", "tp_le_gt_of_one_to_one",
        "tp_list_eq_cumsum", "ignored_counts_as_rank",
    ]
] + [
    # composition with the matcher model (PEval/Properties/Pipeline.lean): the one-to-one hypothesis of the bounds is
    # discharged by C01's theorems and inherited by every divide_objects bucket, for every frame of the pipeline
    "PEval.PipelineProps." + t
    for t in ["pipeline_ap_in_unit", "pipeline_frameMap_in_unit", "pipeline_aph_le_ap", "gt_ids_distinct_of_set"]
]
TRUSTED = [
    "numpy cumsum / float division (compared with exact rationals within 1e-9)",
    "the matching score (`get_matching(mode).value`) and the heading weight (`TPMetricsAph.get_value`) of each real "
    "result are INPUTS of the model (handed over exactly); their geometry is the subject of C06 / C09",
    "Python list.sort(reverse=True) is stable (modelled by a stable insertion sort; checked on tie-heavy rankings)",
]
ASSUMPTIONS = [
    "num_ground_truth >= 0",
    "the false_positive label is not a target label (an FP-labelled ground truth is then 'ignored' by every per-label AP)",
    "bounds (AP,APH in [0,1]) are checked only when #TP <= num_ground_truth (guaranteed by one-to-one matching; "
    "theorem tp_le_gt_of_one_to_one); rank cases deliberately include G < #TP to tie the model to the code there too",
    "FINDING-CANDIDATE excluded from the TP-iff oracle: under MatchingLabelPolicy.ALLOW_ANY a pair (estimate label A, "
    "ground-truth label B), A != B both target labels, is label-compatible and may beat the threshold but is counted "
    "neither TP nor FP by any per-label AP (bucket A looks the threshold up under label B in the singleton [A])",
]

LABELS = ["unknown", "false_positive", "car", "bicycle", "pedestrian", "motorbike", "truck", "bus"]
LID = {n: i for i, n in enumerate(LABELS)}
MODES = ["center", "plane", "iou2d", "iou3d"]

# ----------------------------------------------------------------------------- real objects (cached)

_OBJ = {}
_RES = {}
_ENV = {}


def env():
    if _ENV:
        return _ENV
    from pyquaternion import Quaternion
    from perception_eval.common.label import AutowareLabel, Label
    from perception_eval.common.object import DynamicObject
    from perception_eval.common.object2d import DynamicObject2D
    from perception_eval.common.schema import FrameID
    from perception_eval.common.shape import Shape, ShapeType
    from perception_eval.common.evaluation_task import EvaluationTask
    from perception_eval.evaluation.result.object_result import DynamicObjectWithPerceptionResult, get_object_results
    from perception_eval.evaluation.matching import MatchingMode
    from perception_eval.evaluation.matching.object_matching import MatchingLabelPolicy
    from perception_eval.evaluation.matching.objects_filter import (
        divide_objects, divide_objects_to_num, get_negative_objects, get_positive_objects)
    from perception_eval.evaluation.metrics.detection.ap import Ap
    from perception_eval.evaluation.metrics.detection.map import Map
    from perception_eval.evaluation.metrics.detection.tp_metrics import TPMetricsAp, TPMetricsAph
    from perception_eval.evaluation.metrics.metrics import MetricsScore
    from perception_eval.evaluation.metrics.metrics_score_config import MetricsScoreConfig

    _ENV.update(locals())
    _ENV["MODE"] = {"center": MatchingMode.CENTERDISTANCE, "plane": MatchingMode.PLANEDISTANCE,
                    "iou2d": MatchingMode.IOU2D, "iou3d": MatchingMode.IOU3D}
    _ENV["LAB"] = {n: AutowareLabel(n) for n in LABELS}
    return _ENV


def mk_obj(o):
    """o = {"l": label name, "x","y","z": floats, "k": yaw in units of pi/8, "c": confidence, "id": n}"""
    E = env()
    key = (o["l"], o["x"], o["y"], o.get("z", 0.0), o["k"], o.get("c", 1.0), o["id"], o.get("ge", "e"))
    if key not in _OBJ:
        lab = E["LAB"][o["l"]]
        _OBJ[key] = E["DynamicObject"](
            100, E["FrameID"].BASE_LINK, (o["x"], o["y"], o.get("z", 0.0)),
            E["Quaternion"](axis=[0, 0, 1], angle=math.pi * o["k"] / 8),
            E["Shape"](E["ShapeType"].BOUNDING_BOX, (2.0, 4.0, 1.5)), (0.0, 0.0, 0.0), o.get("c", 1.0),
            E["Label"](lab, lab.value, []), uuid=f"{o.get('ge', 'e')}{o['id']}", pointcloud_num=10)
    return _OBJ[key]


def mk_obj2d(o):
    """o = {"l", "roi": [x,y,w,h] | None, "c", "id"}"""
    E = env()
    key = ("2d", o["l"], tuple(o["roi"]) if o.get("roi") else None, o.get("c", 1.0), o["id"], o.get("ge", "e"))
    if key not in _OBJ:
        lab = E["LAB"][o["l"]]
        _OBJ[key] = E["DynamicObject2D"](
            100, E["FrameID"].CAM_FRONT, o.get("c", 1.0), E["Label"](lab, lab.value, []),
            roi=tuple(o["roi"]) if o.get("roi") else None, uuid=f"{o.get('ge', 'e')}{o['id']}")
    return _OBJ[key]


def item_objs(it):
    """a ranking item -> (estimate spec, ground-truth spec | None)"""
    bx, by = it["b"]
    g = None
    if it["g"] is not None:
        g = {"l": it["g"], "x": bx, "y": by, "z": 0.0, "k": it["kg"], "c": 1.0, "id": it["id"], "ge": "g"}
    dx, dy, dz = it["d"]
    e = {"l": it["e"], "x": bx + dx, "y": by + dy, "z": dz, "k": it["ke"], "c": it["c"], "id": it["id"], "ge": "e"}
    return e, g


def _ikey(it):
    return (bool(it.get("twod")), it["e"], it["g"], tuple(it.get("b", ())), tuple(it.get("d", ())), it.get("ke"), it.get("kg"),
            it["c"], it.get("p", "DEFAULT"), it["id"], tuple(it["re"]) if it.get("re") else None, tuple(it["rg"]) if it.get("rg") else None)


def mk_result(it):
    E = env()
    key = _ikey(it)
    if key not in _RES:
        if it.get("twod"):
            e = mk_obj2d({"l": it["e"], "roi": it.get("re"), "c": it["c"], "id": it["id"], "ge": "e"})
            g = None if it["g"] is None else mk_obj2d({"l": it["g"], "roi": it.get("rg"), "id": it["id"], "ge": "g"})
        else:
            es, gs = item_objs(it)
            e = mk_obj(es)
            g = None if gs is None else mk_obj(gs)
        _RES[key] = E["DynamicObjectWithPerceptionResult"](e, g, E["MatchingLabelPolicy"][it.get("p", "DEFAULT")])
    return _RES[key]


_DESC = {}


def describe_item(it):
    """descriptor of the (cached) real result of a ranking item"""
    key = _ikey(it)
    if key not in _DESC:
        _DESC[key] = describe(mk_result(it), with_h=not it.get("twod"))
    return _DESC[key]


def _uid(o):
    return int(o.uuid[1:])


def describe(res, with_h=True):
    """what the model reads of one real object result (all four matching scores, exact)"""
    E = env()
    e, g = res.estimated_object, res.ground_truth_object
    sc = {}
    for name, mm in E["MODE"].items():
        m = res.get_matching(mm)
        sc[name] = "nm" if m is None else core.qopt(m.value)
    h = "0"
    if with_h and isinstance(e, E["DynamicObject"]):
        h = core.q(E["TPMetricsAph"]().get_value(res))
    return {"id": _uid(e), "c": core.q(e.semantic_score), "l": LID[e.semantic_label.label.value],
            "g": None if g is None else {"id": _uid(g), "l": LID[g.semantic_label.label.value]},
            "s": sc, "h": h, "p": res.matching_label_policy.name}


def model_res(d, mode):
    s = d["s"][mode]
    r = {"id": d["id"], "c": d["c"], "l": d["l"], "g": d["g"], "h": d["h"], "p": d["p"]}
    if s == "nm":
        r["nm"] = True
        r["s"] = None
    else:
        r["s"] = s
    return r


def fnum(x):
    """canonical float output: inf -> None"""
    x = float(x)
    if math.isinf(x) or math.isnan(x):
        return None
    return x


def ap_out(a):
    return {"ap": fnum(a.ap), "tp": [float(x) for x in a.tp_list], "fp": [float(x) for x in a.fp_list]}


# ----------------------------------------------------------------------------- independent reference

def rect_union_ap(ws, G):
    """area of the union of the rectangles [0,r_i]x[0,p_i], r_i = cum_i/G, p_i = cum_i/(i+1); None if no result"""
    if not ws:
        return None
    c = Fraction(0)
    pts = []
    for i, w in enumerate(ws):
        c += w
        pts.append((c / G if G > 0 else Fraction(0), c / (i + 1)))
    # sweep from the largest recall down keeping the running maximum of the precision
    order = sorted(range(len(pts)), key=lambda i: pts[i][0], reverse=True)
    xs = sorted({Fraction(0)} | {r for r, _ in pts})
    area = Fraction(0)
    j = 0
    best = Fraction(0)
    for a, b in reversed(list(zip(xs, xs[1:]))):
        while j < len(order) and pts[order[j]][0] >= b:
            best = max(best, pts[order[j]][1])
            j += 1
        area += (b - a) * best
    return area


def rank_order(confs):
    """indices sorted by descending confidence, input order among equals (written without list.sort(reverse=True))"""
    return sorted(range(len(confs)), key=lambda i: (-confs[i], i))


def compatible(policy, e, g):
    if g == "false_positive" or policy == "ALLOW_ANY":
        return True
    if policy == "ALLOW_UNKNOWN":
        return e == g or e == "unknown"
    return e == g


def beats(mode, v, t):
    return v < t if mode in ("center", "plane") else v > t


def tp_by_text(d, mode, label, thr):
    """the property's TP rule for the AP of `label` on an observed result descriptor; None = outside the oracle's domain"""
    if d["g"] is None:
        return False
    gl, el = LABELS[d["g"]["l"]], LABELS[d["l"]]
    if gl == "false_positive":
        return False
    if gl != label:
        if compatible(d["p"], el, gl) and d["p"] == "ALLOW_ANY":
            return None  # finding candidate (see ASSUMPTIONS): compatible cross-label pair, ignored by the code
        return False
    s = d["s"][mode]
    if s == "nm":
        return None
    if s is None:
        return False
    return compatible(d["p"], el, gl) and beats(mode, Fraction(s), Fraction(thr))


# ----------------------------------------------------------------------------- generators

TP_W = [8, 6, 4, 3, 0]


def _realise(kind, rng, i, conf, aligned):
    """one real-isable item for an abstract kind under target 'car', center distance, threshold 1.0.
    The geometry depends on (id, variant, weight) only, so the 3 ms construction of a real result is shared."""
    kg = (3 * i) % 16 - 7
    it = {"id": i, "b": [16.0 * i, 4.0 * (i % 3)], "c": conf, "kg": kg, "ke": kg, "k": kind, "w": 8, "p": "DEFAULT"}
    if kind == "T":
        v = "same" if not aligned and rng.random() < 0.6 else rng.choice(["same", "unk", "any", "zero"])
        it.update(e="car", g="car", d=[0.5, 0.0, 0.0])
        if v == "unk":
            it.update(e="unknown", p="ALLOW_UNKNOWN")
        elif v == "any":
            it.update(e="bicycle", p="ALLOW_ANY")
        elif v == "zero":
            it.update(d=[0.0, 0.0, 0.0])
        elif not aligned:
            w = rng.choice(TP_W)
            it.update(w=w, ke=kg + (1 if i % 2 else -1) * (8 - w))
    elif kind == "F":
        v = rng.choice(["far", "edge", "label", "unk"])
        it.update(e="car", g="car", d=[0.75, 1.0, 0.0])  # distance 1.25
        if v == "edge":
            it.update(d=[1.0, 0.0, 0.0])  # exactly on the threshold: not better
        elif v == "label":
            it.update(e="bicycle", d=[0.5, 0.0, 0.0])
        elif v == "unk":
            it.update(e="unknown", d=[0.5, 0.0, 0.0])  # DEFAULT policy: unknown is not compatible
    elif kind == "N":
        it.update(e="car", g=None, d=[0.0, 0.0, 0.0])
    else:  # "I" ignored: no threshold for the looked-up label
        v = rng.choice(["gtlabel", "nogt", "fpgt"])
        if v == "gtlabel":
            it.update(e="car", g="pedestrian", d=[0.5, 0.0, 0.0])
        elif v == "nogt":
            it.update(e="bicycle", g=None, d=[0.0, 0.0, 0.0])
        else:
            it.update(e="car", g="false_positive", d=[0.5, 0.0, 0.0])
    return it


def _rank_case(kinds, G, rng):
    n = len(kinds)
    aligned = rng.random() < 0.4
    # non-increasing confidences along the ranking, with ties
    confs = []
    c = 16
    tie_p = rng.choice([0.0, 0.3, 0.7])
    for i in range(n):
        if i and rng.random() >= tie_p:
            c -= 1
        confs.append(c / 16)
    items = [_realise(k, rng, i, confs[i], aligned) for i, k in enumerate(kinds)]
    # input order: random, but the members of a tie group keep their ranking order
    pos = list(range(n))
    rng.shuffle(pos)
    placed = [None] * n
    groups = {}
    for i in range(n):
        groups.setdefault(confs[i], []).append(i)
    slot_of = {i: pos[i] for i in range(n)}
    for members in groups.values():
        slots = sorted(slot_of[i] for i in members)
        for i, s in zip(members, slots):
            placed[s] = items[i]
    case = {"kind": "rank", "items": placed, "G": G, "mode": "center", "targets": ["car"], "thrs": [1.0]}
    if n >= 2 and rng.random() < 0.3:
        cut = sorted(rng.sample(range(n + 1), 2))
        case["nested"] = cut
    return case


def _long_case(rng, nmax):
    n = rng.randint(7, nmax)
    mode = rng.choice(MODES)
    targets = rng.choice([["car"], ["car"], ["pedestrian", "car"], ["car", "bicycle", "pedestrian"]])
    if mode in ("center", "plane"):
        thrs = [rng.choice([0.5, 1.0, 1.25, 2.0, 3.0]) for _ in targets]
    else:
        thrs = [rng.choice([0.0, 0.125, 0.3, 0.5, 0.75, 1.0]) for _ in targets]
    levels = rng.choice([2, 3, 5, 8, 16])
    offs = [[0.0, 0.0, 0.0], [0.5, 0.0, 0.0], [0.75, 1.0, 0.0], [1.0, 0.0, 0.0], [0.0, 1.0, 0.0], [1.5, 2.0, 0.0],
            [0.25, 0.25, 0.0], [0.0, 0.0, 0.5], [2.0, 1.0, 0.25], [4.0, 0.0, 0.0]]
    pols = ["DEFAULT", "DEFAULT", "ALLOW_UNKNOWN", "ALLOW_ANY"]
    # a small pool of distinct results reused along the ranking (construction of a real result costs 3 ms)
    pool = []
    for j in range(rng.randint(4, 16)):
        kg = rng.randint(-7, 8)
        g = rng.choice(["car", "car", "car", "bicycle", "pedestrian", "false_positive", None, None])
        e = g if (g and g != "false_positive" and rng.random() < 0.7) else rng.choice(["car", "bicycle", "pedestrian", "unknown", "truck"])
        pool.append({"id": j, "b": [16.0 * j + 8.0, 4.0 * (j % 5) - 8.0], "kg": kg, "ke": kg + rng.choice([0, 0, 1, -2, 3, 4, 8, -7]),
                     "e": e, "g": g, "d": rng.choice(offs), "p": rng.choice(pols)})
    items = []
    for i in range(n):
        it = dict(rng.choice(pool))
        it["c"] = rng.randint(0, levels) / levels if levels not in (3, 5) else rng.randint(0, levels) / 8
        items.append(it)
    G = rng.choice([0, 1, n // 4, n // 2, n, n + 1, rng.randint(0, n + 1)])
    case = {"kind": "rank", "long": True, "items": items, "G": G, "mode": mode, "targets": targets, "thrs": thrs}
    if rng.random() < 0.3:
        case["nested"] = sorted(rng.sample(range(n + 1), 2))
    return case


def _scene(rng, targets, nmax=6):
    labs = targets + ["truck", "unknown", "false_positive"]
    gts, ests = [], []
    offs = [[0.0, 0.0], [0.5, 0.0], [0.75, 1.0], [1.0, 0.0], [0.0, 1.0], [1.5, 2.0], [0.25, 0.25], [2.0, 1.0], [0.0, 0.5]]
    for i in range(rng.randint(0, nmax)):
        lab = rng.choice(targets * 3 + labs)
        gts.append({"l": lab, "x": 12.0 * (i % 4) - 18.0 + rng.choice([0.0, 0.5, 3.0]), "y": 10.0 * (i // 4) - 5.0, "z": 0.0,
                    "k": rng.randint(-7, 8), "id": i, "ge": "g"})
    j = 0
    for g in gts:
        for _ in range(rng.choice([0, 1, 1, 1, 1, 2])):
            dx, dy = rng.choice(offs)
            lab = g["l"] if (g["l"] != "false_positive" and rng.random() < 0.65) else rng.choice(targets + ["unknown", "truck"])
            ests.append({"l": lab, "x": g["x"] + dx * rng.choice([1, -1]), "y": g["y"] + dy * rng.choice([1, -1]),
                         "z": rng.choice([0.0, 0.0, 0.25]), "k": g["k"] + rng.choice([0, 0, 0, 1, -2, 4, 8]),
                         "c": rng.randint(1, 8) / 8, "id": j, "ge": "e"})
            j += 1
    for _ in range(rng.randint(0, 3)):
        ests.append({"l": rng.choice(targets + ["unknown", "truck"]), "x": 40.0 + 8.0 * j, "y": -30.0, "z": 0.0, "k": 0,
                     "c": rng.randint(1, 8) / 8, "id": j, "ge": "e"})
        j += 1
    rng.shuffle(ests)
    return {"est": ests, "gt": gts}


def _thr(rng, mode, n, allow_bad=False):
    if mode in ("center", "plane"):
        return [rng.choice([0.5, 1.0, 1.25, 2.0, 3.0]) for _ in range(n)]
    t = [rng.choice([0.0, 0.125, 0.3, 0.5, 0.75, 1.0]) for _ in range(n)]
    if allow_bad and rng.random() < 0.08:
        t[rng.randrange(n)] = rng.choice([1.5, -0.125])
    return t


def _map_case(rng, via):
    k = rng.randint(1, 4)
    targets = rng.sample(["car", "bicycle", "pedestrian", "motorbike"], k)
    policy = rng.choice(["DEFAULT", "DEFAULT", "ALLOW_UNKNOWN", "ALLOW_ANY"])
    case = {"kind": "map", "via": via, "targets": targets, "policy": policy}
    if via == "map":
        mode = rng.choice(MODES)
        case.update(mode=mode, thrs=_thr(rng, mode, k, allow_bad=True), frames=[_scene(rng, targets)])
    elif via == "score":
        case.update(fam={m: [_thr(rng, m, k) for _ in range(rng.randint(0, 2))] for m in MODES},
                    frames=[_scene(rng, targets)])
    else:  # manager: frame level for every frame, then the scene
        case.update(fam={m: [_thr(rng, m, k) for _ in range(rng.randint(0, 1) if m != "center" else 1)] for m in MODES},
                    frames=[_scene(rng, targets, 5) for _ in range(rng.randint(1, 3))])
    return case


def _rank2d_case(rng):
    n = rng.randint(1, 6)
    mode = rng.choice(["center", "iou2d", "iou3d", "plane"])
    noroi = rng.random() < 0.3
    items = []
    for i in range(n):
        g = rng.choice(["car", "car", "pedestrian", None])
        e = rng.choice(["car", "car", "pedestrian"])
        re_ = None if noroi else [100 * i + rng.choice([0, 2, 8, 30]), 50, 20, 10]
        rg = None if noroi else [100 * i, 50, 20, 10]
        items.append({"twod": True, "id": i, "e": e, "g": g, "re": re_, "rg": rg, "c": rng.randint(1, 4) / 4, "p": "DEFAULT"})
    thr = rng.choice([1.0, 3.0, 10.0]) if mode in ("center", "plane") else rng.choice([0.0, 0.5, 0.75])
    return {"kind": "rank", "twod": True, "items": items, "G": rng.randint(0, n + 1), "mode": mode, "targets": ["car"], "thrs": [thr]}


def corpus():
    cs = []
    # the docstring example of Ap: correct [T,F,T,T], G=4 -> 0.625
    class R:  # deterministic stand-in rng
        def __init__(self):
            import random
            self.r = random.Random(4)
        def __getattr__(self, a):
            return getattr(self.r, a)
    r = R()
    cs.append(_rank_case(["T", "F", "T", "T"], 4, r))
    cs.append(_rank_case([], 0, r))
    cs.append(_rank_case([], 3, r))
    cs.append(_rank_case(["T", "T", "N"], 2, r))      # perfect
    cs.append(_rank_case(["F", "N", "I"], 2, r))      # no TP
    cs.append(_rank_case(["T", "T"], 1, r))           # G < #TP: AP > 1 on the code and on the model (outside one-to-one)
    # ALLOW_ANY cross-label pair (finding candidate): neither TP nor FP for AP
    cs.append({"kind": "map", "via": "map", "targets": ["car", "pedestrian"], "policy": "ALLOW_ANY", "mode": "center",
               "thrs": [1.0, 1.0], "frames": [{"est": [{"l": "car", "x": 0.5, "y": 0.0, "z": 0.0, "k": 0, "c": 0.5, "id": 0, "ge": "e"}],
                                                "gt": [{"l": "pedestrian", "x": 0.0, "y": 0.0, "z": 0.0, "k": 0, "id": 0, "ge": "g"}]}]})
    # IoU threshold outside [0,1] -> AssertionError, but only if some result reaches is_better_than
    cs.append({"kind": "rank", "items": [_realise("T", r, 0, 0.5, True)], "G": 1, "mode": "iou2d", "targets": ["car"], "thrs": [1.5]})
    cs.append({"kind": "rank", "items": [_realise("N", r, 0, 0.5, True)], "G": 1, "mode": "iou2d", "targets": ["car"], "thrs": [1.5]})
    # threshold list shorter than the target list -> IndexError when the second label is looked up
    it = _realise("T", r, 0, 0.5, True)
    cs.append({"kind": "rank", "items": [it], "G": 1, "mode": "center", "targets": ["bicycle", "car"], "thrs": [1.0]})
    return cs


def generate(rng, tier):
    cases = []
    n3, n4 = (6, 4) if tier == "quick" else (8, 6)
    for n in range(0, n3 + 1):
        for kinds in itertools.product("TFN", repeat=n):
            for G in range(0, n + 2):
                cases.append(_rank_case(list(kinds), G, rng))
    for n in range(1, n4 + 1):
        for kinds in itertools.product("TFNI", repeat=n):
            if "I" not in kinds:
                continue
            for G in range(0, n + 2):
                cases.append(_rank_case(list(kinds), G, rng))
    nl, nm, ns, ng, n2 = (60, 260, 60, 14, 60) if tier == "quick" else (500, 2500, 500, 120, 400)
    for i in range(nl):
        cases.append(_long_case(rng, 400 if i % 3 == 0 else 60))
    for _ in range(nm):
        cases.append(_map_case(rng, "map"))
    for _ in range(ns):
        cases.append(_map_case(rng, "score"))
    for _ in range(ng):
        cases.append(_map_case(rng, "manager"))
    for _ in range(n2):
        cases.append(_rank2d_case(rng))
    return cases


# ----------------------------------------------------------------------------- the real code

def _results_of(case):
    rs = [mk_result(it) for it in case["items"]]
    if "nested" in case:
        a, b = case["nested"]
        return [rs[:a], rs[a:b], rs[b:]]
    return list(rs)


def _run_ap(tm, case, rs):
    E = env()
    try:
        arg = [list(x) for x in rs] if "nested" in case else list(rs)
        a = E["Ap"](tm, arg, case["G"], [E["LAB"][t] for t in case["targets"]], E["MODE"][case["mode"]], list(case["thrs"]))
        return ap_out(a)
    except Exception as e:
        return {"err": type(e).__name__}


_MGR = {}


def _manager(targets, fam, policy):
    import tempfile

    from perception_eval.config import PerceptionEvaluationConfig
    from perception_eval.manager import PerceptionEvaluationManager

    d = {
        "evaluation_task": "detection", "target_labels": list(targets), "max_x_position": 200.0, "max_y_position": 200.0,
        "min_point_numbers": [0] * len(targets), "label_prefix": "autoware", "merge_similar_labels": False,
        "allow_matching_unknown": policy != "DEFAULT", "matching_label_policy": policy,
        "center_distance_thresholds": fam["center"], "plane_distance_thresholds": fam["plane"],
        "iou_2d_thresholds": fam["iou2d"], "iou_3d_thresholds": fam["iou3d"],
    }
    d = {k: v for k, v in d.items() if v != []}
    cfg = PerceptionEvaluationConfig(dataset_paths=[str(core.REPO / "perception_eval/test/sample_data")], frame_id="base_link",
                                     result_root_directory=tempfile.mkdtemp(prefix="c04_"), evaluation_config_dict=d)
    return cfg, PerceptionEvaluationManager(cfg)


def _map_out(m, mode, thrs):
    return {"mode": mode, "thrs": [float(t) for t in thrs], "aps": [ap_out(a) for a in m.aps], "aphs": [ap_out(a) for a in m.aphs],
            "map": fnum(m.map), "maph": fnum(m.maph)}


_REV = None


def _mode_name(mm):
    E = env()
    for k, v in E["MODE"].items():
        if v == mm:
            return k


def run_impl(case):
    E = env()
    if case["kind"] == "rank":
        rs = _results_of(case)
        twod = bool(case.get("twod"))
        out = {"res": [describe_item(it) for it in case["items"]]}
        out["ap"] = _run_ap(E["TPMetricsAp"](), case, rs)
        if not twod:
            out["aph"] = _run_ap(E["TPMetricsAph"](), case, rs)
        return out
    # ---- map
    targets = [E["LAB"][t] for t in case["targets"]]
    pol = E["MatchingLabelPolicy"][case["policy"]]
    via = case["via"]
    try:
        if via in ("map", "score"):
            fr = case["frames"][0]
            ests = [mk_obj(o) for o in fr["est"]]
            gts = [mk_obj(o) for o in fr["gt"]]
            res = E["get_object_results"](E["EvaluationTask"].DETECTION, ests, gts, targets, pol)
            out = {"frames": [{"res": [describe(r) for r in res], "gts": [LID[g.semantic_label.label.value] for g in gts]}]}
            rd = E["divide_objects"](res, targets)
            nd = E["divide_objects_to_num"](gts, targets)
            if via == "map":
                m = E["Map"](rd, nd, targets, E["MODE"][case["mode"]], list(case["thrs"]))
                out["maps"] = [_map_out(m, case["mode"], case["thrs"])]
            else:
                fam = case["fam"]
                cfg = E["MetricsScoreConfig"](
                    E["EvaluationTask"].DETECTION, target_labels=targets,
                    center_distance_thresholds=fam["center"] or None, plane_distance_thresholds=fam["plane"] or None,
                    iou_2d_thresholds=fam["iou2d"] or None, iou_3d_thresholds=fam["iou3d"] or None)
                ms = E["MetricsScore"](cfg, used_frame=[0])
                ms.evaluate_detection(rd, nd)
                out["maps"] = [_map_out(m, _mode_name(m.matching_mode), m.matching_threshold_list) for m in ms.maps]
            return out
        # ---- the real manager
        from perception_eval.common.dataset import FrameGroundTruth
        from perception_eval.common.transform import HomogeneousMatrix
        from perception_eval.evaluation.result.perception_frame_config import CriticalObjectFilterConfig, PerceptionPassFailConfig

        cfg, mgr = _manager(case["targets"], case["fam"], case["policy"])
        crit = CriticalObjectFilterConfig(cfg, list(case["targets"]), max_x_position_list=[150.0] * len(targets),
                                          max_y_position_list=[150.0] * len(targets))
        pf = PerceptionPassFailConfig(cfg, list(case["targets"]), matching_threshold_list=[2.0] * len(targets))
        out = {"frames": [], "frame_maps": []}
        for i, fr in enumerate(case["frames"]):
            ests = [mk_obj(o) for o in fr["est"]]
            gts = [mk_obj(o) for o in fr["gt"]]
            fgt = FrameGroundTruth(100, str(i), gts, transforms=[HomogeneousMatrix((0, 0, 0), (1, 0, 0, 0), E["FrameID"].BASE_LINK, E["FrameID"].MAP)])
            r = mgr.add_frame_result(100, fgt, ests, crit, pf)
            out["frames"].append({"res": [describe(x) for x in r.object_results],
                                  "gts": [LID[g.semantic_label.label.value] for g in r.frame_ground_truth.objects]})
            out["frame_maps"].append([_map_out(m, _mode_name(m.matching_mode), m.matching_threshold_list) for m in r.metrics_score.maps])
        sc = mgr.get_scene_result()
        out["maps"] = [_map_out(m, _mode_name(m.matching_mode), m.matching_threshold_list) for m in sc.maps]
        return out
    except Exception as e:
        return {"err": type(e).__name__}


# ----------------------------------------------------------------------------- the model

def model_requests(case, out):
    if "err" in out and "res" not in out and "frames" not in out:
        # the whole evaluation raised before any observable was produced; re-derive the inputs for the model
        if case["kind"] == "map" and case["via"] == "map":
            E = env()
            targets = [E["LAB"][t] for t in case["targets"]]
            fr = case["frames"][0]
            res = E["get_object_results"](E["EvaluationTask"].DETECTION, [mk_obj(o) for o in fr["est"]], [mk_obj(o) for o in fr["gt"]],
                                         targets, E["MatchingLabelPolicy"][case["policy"]])
            frames = [{"results": [model_res(describe(r), case["mode"]) for r in res], "gts": [LID[o["l"]] for o in fr["gt"]]}]
            return [{"op": "map", "mode": case["mode"], "is2d": False, "scene": False, "targets": [LID[t] for t in case["targets"]],
                     "thrs": [core.q(t) for t in case["thrs"]], "frames": frames}]
        return []
    if case["kind"] == "rank":
        ds = [model_res(d, case["mode"]) for d in out["res"]]
        if "nested" in case:
            a, b = case["nested"]
            nested = [ds[:a], ds[a:b], ds[b:]]
        else:
            nested = [ds]
        return [{"op": "ap", "mode": case["mode"], "targets": [LID[t] for t in case["targets"]],
                 "thrs": [core.q(t) for t in case["thrs"]], "G": case["G"], "results": nested}]
    reqs = []
    tg = [LID[t] for t in case["targets"]]
    if case["via"] == "manager":
        for fr, maps in zip(out["frames"], out["frame_maps"]):
            for m in maps:
                reqs.append({"op": "map", "mode": m["mode"], "is2d": False, "scene": False, "targets": tg, "thrs": [core.q(t) for t in m["thrs"]],
                             "frames": [{"results": [model_res(d, m["mode"]) for d in fr["res"]], "gts": fr["gts"]}]})
        for m in out["maps"]:
            reqs.append({"op": "map", "mode": m["mode"], "is2d": False, "scene": True, "targets": tg, "thrs": [core.q(t) for t in m["thrs"]],
                         "frames": [{"results": [model_res(d, m["mode"]) for d in fr["res"]], "gts": fr["gts"]} for fr in out["frames"]]})
        return reqs
    for m in out["maps"]:
        fr = out["frames"][0]
        reqs.append({"op": "map", "mode": m["mode"], "is2d": False, "scene": False, "targets": tg, "thrs": [core.q(t) for t in m["thrs"]],
                     "frames": [{"results": [model_res(d, m["mode"]) for d in fr["res"]], "gts": fr["gts"]}]})
    return reqs


def _cmp_ap(tag, a, r):
    if "err" in a or "err" in r:
        return None if a.get("err") == r.get("err") else f"{tag}: impl {a} != model {r}"
    if not core.close(a["ap"], core.unq(r["ap"])):
        return f"{tag}.ap impl {a['ap']} != model {r['ap']}"
    for k, mk in (("tp", "tp_list"), ("fp", "fp_list")):
        if len(a[k]) != len(r[mk]) or any(not core.close(x, core.unq(y)) for x, y in zip(a[k], r[mk])):
            return f"{tag}.{mk} impl {a[k]} != model {r[mk]}"
    return None


def _cmp_map(tag, m, r):
    if "err" in r:
        return f"{tag}: impl ok, model {r}"
    if len(m["aps"]) != len(r["aps"]) or len(m["aphs"]) != len(r["aphs"]):
        return f"{tag}: number of per-label APs differs"
    for i, (a, b) in enumerate(zip(m["aps"], r["aps"])):
        d = _cmp_ap(f"{tag}.aps[{i}]", a, b)
        if d:
            return d
    for i, (a, b) in enumerate(zip(m["aphs"], r["aphs"])):
        d = _cmp_ap(f"{tag}.aphs[{i}]", a, b)
        if d:
            return d
    for k in ("map", "maph"):
        if not core.close(m[k], core.unq(r[k])):
            return f"{tag}.{k} impl {m[k]} != model {r[k]}"
    return None


def compare(case, out, resps):
    if case["kind"] == "rank":
        r = resps[0]
        d = _cmp_ap("Ap", out["ap"], r["ap"])
        if d:
            return d
        if "aph" in out:
            return _cmp_ap("Aph", out["aph"], r["aph"])
        return None
    if "err" in out and "maps" not in out:
        r = resps[0]
        return None if r.get("err") == out["err"] else f"impl {out['err']} != model {r}"
    allmaps = []
    if case["via"] == "manager":
        for i, maps in enumerate(out["frame_maps"]):
            allmaps += [(f"frame{i}.map[{j}]", m) for j, m in enumerate(maps)]
    allmaps += [(f"map[{j}]", m) for j, m in enumerate(out["maps"])]
    if len(allmaps) != len(resps):
        return "request/response count mismatch"
    for (tag, m), r in zip(allmaps, resps):
        d = _cmp_map(tag, m, r)
        if d:
            return d
    return None


# ----------------------------------------------------------------------------- the property on the real outputs

TOL = 1e-9


def _check_ap(tag, a, confs, ws, fps, G):
    """The property for one `Ap`: a = real output; per result (INPUT order) confidence, TP weight (Fraction), FP flag.

    Ties in confidence: the property fixes no order among them, so any order is accepted — within every group of equal
    confidence the increments of tp_list / fp_list must be a permutation of the group's expected (weight, flag) pairs, and
    `ap` must be the interpolated area of the ranking the code realised."""
    if "err" in a:
        return f"{tag}: {a['err']}"
    n = len(ws)
    if n == 0:
        return None if a["ap"] is None else f"{tag}: no result but ap = {a['ap']} (must be undefined)"
    if a["ap"] is None:
        return f"{tag}: {n} results but ap undefined"
    tp, fp = a["tp"], a["fp"]
    if len(tp) != n or len(fp) != n:
        return f"{tag}: tp_list / fp_list have lengths {len(tp)}, {len(fp)} for {n} results"
    inc = [(tp[j] - (tp[j - 1] if j else 0.0), fp[j] - (fp[j - 1] if j else 0.0)) for j in range(n)]
    order = rank_order(confs)
    j = 0
    while j < n:
        k = j
        while k < n and confs[order[k]] == confs[order[j]]:
            k += 1
        exp = sorted((round(float(ws[i]), 9), round(float(fps[i]))) for i in order[j:k])
        got = sorted((round(x, 9), round(y)) for x, y in inc[j:k])
        if any(abs(x[0] - y[0]) > 1e-8 or x[1] != y[1] for x, y in zip(exp, got)):
            return (f"{tag}: ranks {j}..{k - 1} (confidence {float(confs[order[j]])}) carry TP/FP increments {got}, "
                    f"expected {exp}: tp_list/fp_list are not running sums in descending-confidence order")
        j = k
    realised = [Fraction(x) for x, _ in inc]
    ref = rect_union_ap(realised, G)
    if not core.close(a["ap"], ref, TOL, TOL):
        return f"{tag}: ap {a['ap']} but the interpolated precision-recall area is {float(ref)} (weights {[float(w) for w in realised]}, G={G})"
    total = sum(ws)
    if total <= G and all(0 <= w <= 1 for w in ws) and not (-TOL <= a["ap"] <= 1 + TOL):
        return f"{tag}: ap {a['ap']} outside [0,1]"
    if total == 0 and abs(a["ap"]) > TOL:
        return f"{tag}: no correct estimate but ap = {a['ap']}"
    return None


def _check_extremes(tag, a, is_tp, confs, G):
    """AP (weight 1 per TP): 1 when every ground truth is matched by a TP and no non-TP is ranked above a TP"""
    if "err" in a or a["ap"] is None or G <= 0:
        return None
    if sum(is_tp) != G:
        return None
    order = rank_order(confs)
    worst_tp = min(confs[i] for i in order if is_tp[i])
    if any((not is_tp[i]) and confs[i] >= worst_tp for i in order):
        return None  # a wrong estimate outranks (or ties with) a correct one
    if abs(a["ap"] - 1) > TOL:
        return f"{tag}: every ground truth matched by a correct estimate ranked above all wrong ones, but AP = {a['ap']}"
    return None


def _oracle_bucket(tag, descs, G, label, mode, thr, ap, aph):
    """descs in input order (bucket of `label`); ap / aph real outputs"""
    confs = [Fraction(d["c"]) for d in descs]
    tps, looked = [], []
    for d in descs:
        t = tp_by_text(d, mode, label, thr)
        if t is None:
            return None
        tps.append(t)
        key = LABELS[d["g"]["l"]] if d["g"] is not None else LABELS[d["l"]]
        looked.append(key == label)
    fpf = [int(k and not t) for t, k in zip(tps, looked)]
    f = _check_ap(tag + ".AP", ap, confs, [Fraction(int(t)) for t in tps], fpf, G) or _check_extremes(tag, ap, tps, confs, G)
    if f:
        return f
    if aph is not None:
        hs = [Fraction(d["h"]) if t else Fraction(0) for d, t in zip(descs, tps)]
        f = _check_ap(tag + ".APH", aph, confs, hs, fpf, G)
        if f:
            return f
        if "err" not in ap and "err" not in aph and ap["ap"] is not None and aph["ap"] is not None and aph["ap"] > ap["ap"] + TOL:
            return f"{tag}: APH {aph['ap']} > AP {ap['ap']}"
    return None


def _oracle_map(tag, m, frames, targets, scene):
    """m real Map output; frames = [{"res": descs, "gts": label ids}]"""
    tnames = list(targets)
    aps = []
    for li, (lab, thr) in enumerate(zip(tnames, m["thrs"])):
        bucket = []
        G = 0
        for fr in frames:
            for d in fr["res"]:
                el = LABELS[d["l"]]
                if el in tnames:
                    b = el
                elif d["g"] is not None:
                    b = LABELS[d["g"]["l"]]
                else:
                    b = None
                if b == lab:
                    bucket.append(d)
            G += sum(1 for g in fr["gts"] if LABELS[g] == lab)
        if li >= len(m["aps"]):
            return f"{tag}: no AP for label {lab}"
        f = _oracle_bucket(f"{tag}[{lab}]", bucket, G, lab, m["mode"], thr, m["aps"][li], m["aphs"][li] if li < len(m["aphs"]) else None)
        if f:
            return f
        if (m["aps"][li]["ap"] is None) != (len(bucket) == 0):
            return f"{tag}[{lab}]: AP defined iff the label has a result is violated"
    for k, key in (("map", "aps"), ("maph", "aphs")):
        vals = [a["ap"] for a in m[key] if a.get("ap") is not None]
        want = sum(vals) / len(vals) if vals else None
        if not core.close(m[k], want, TOL, TOL):
            return f"{tag}: {k} {m[k]} is not the mean {want} of the defined per-label values"
        if m[k] is not None and not (-TOL <= m[k] <= 1 + TOL):
            return f"{tag}: {k} {m[k]} outside [0,1]"
    return None


def oracle(case, out):
    if case["kind"] == "rank":
        if case.get("twod") or case.get("long"):
            # decisions re-derived from the observed scores by the property's rule
            if "err" in out["ap"]:
                return _expected_error(case, out)
            tg = case["targets"]
            if len(tg) != 1:
                return _oracle_multi(case, out)
            return _oracle_bucket("Ap", out["res"], case["G"], tg[0], case["mode"], case["thrs"][0], out["ap"], out.get("aph"))
        if "err" in out["ap"]:
            return _expected_error(case, out)
        if len(case["targets"]) != 1 or case["mode"] != "center":
            return _oracle_multi(case, out)
        # exhaustive rankings: everything from the generator's intention (kind, weight), nothing observed
        items = case["items"]
        confs = [Fraction(it["c"]) for it in items]
        G = case["G"]
        is_tp = [it["k"] == "T" for it in items]
        fpw = [1 if it["k"] in ("F", "N") else 0 for it in items]
        f = (_check_ap("Ap", out["ap"], confs, [Fraction(int(t)) for t in is_tp], fpw, G)
             or _check_extremes("Ap", out["ap"], is_tp, confs, G)
             or _check_ap("Aph", out["aph"], confs, [Fraction(it["w"], 8) if it["k"] == "T" else Fraction(0) for it in items], fpw, G))
        if f:
            return f
        a, h = out["ap"]["ap"], out["aph"]["ap"]
        if a is not None and h is not None and h > a + TOL:
            return f"APH {h} > AP {a}"
        return None
    if "err" in out and "maps" not in out:
        return _expected_error(case, out)
    tg = case["targets"]
    if case["via"] == "manager":
        for i, (fr, maps) in enumerate(zip(out["frames"], out["frame_maps"])):
            for j, m in enumerate(maps):
                f = _oracle_map(f"frame{i}.map[{j}:{m['mode']}]", m, [fr], tg, False)
                if f:
                    return f
        for j, m in enumerate(out["maps"]):
            f = _oracle_map(f"scene.map[{j}:{m['mode']}]", m, out["frames"], tg, True)
            if f:
                return f
        return None
    for j, m in enumerate(out["maps"]):
        f = _oracle_map(f"map[{j}:{m['mode']}]", m, out["frames"], tg, False)
        if f:
            return f
    return None


def _oracle_multi(case, out):
    """Ap called directly with several target labels: TP rule per looked-up label"""
    descs = out["res"]
    confs = [Fraction(d["c"]) for d in descs]
    tps, looked = [], []
    for d in descs:
        key = LABELS[d["g"]["l"]] if d["g"] is not None else LABELS[d["l"]]
        if key not in case["targets"]:
            tps.append(False)
            looked.append(False)
            continue
        thr = case["thrs"][case["targets"].index(key)]
        t = tp_by_text(d, case["mode"], key, thr)
        if t is None:
            return None
        tps.append(t)
        looked.append(True)
    fpf = [int(k and not t) for t, k in zip(tps, looked)]
    f = _check_ap("Ap", out["ap"], confs, [Fraction(int(t)) for t in tps], fpf, case["G"])
    if f or "aph" not in out:
        return f
    hs = [Fraction(d["h"]) if t else Fraction(0) for d, t in zip(descs, tps)]
    f = _check_ap("Aph", out["aph"], confs, hs, fpf, case["G"])
    if f:
        return f
    if out["ap"]["ap"] is not None and out["aph"]["ap"] > out["ap"]["ap"] + TOL:
        return f"APH {out['aph']['ap']} > AP {out['ap']['ap']}"
    return None


def _expected_error(case, out):
    """an exception is acceptable only where the documented contract has one"""
    err = out.get("err") or out["ap"].get("err")
    mode = case.get("mode")
    if err == "AssertionError" and mode in ("iou2d", "iou3d") and any(not (0.0 <= t <= 1.0) for t in case["thrs"]):
        return None
    if err == "IndexError" and len(case["thrs"]) < len(case["targets"]):
        return None
    if err == "AttributeError" and case.get("twod"):
        return None  # Ap needs a matching method for its matching-score statistics; 2-D objects have none for this mode
    return f"unexpected {err}"


def branches(case, out):
    b = []
    if case["kind"] == "rank":
        n = len(case["items"])
        tag = "rank2d" if case.get("twod") else "long" if case.get("long") else "rank"
        b.append(f"{tag}:n={'0' if n == 0 else n if n <= 8 else '9-60' if n <= 60 else '61-400'}")
        if n == 0:
            b.append("trivial")
        a = out["ap"]
        if "err" in a:
            b.append(f"{tag}:err:{a['err']}")
        else:
            v = a["ap"]
            b.append(f"{tag}:ap=" + ("undef" if v is None else "0" if abs(v) < 1e-12 else "1" if abs(v - 1) < 1e-12 else ">1" if v > 1 else "mid"))
            tp = a["tp"][-1] if a["tp"] else 0
            b.append(f"{tag}:G" + ("=0" if case["G"] == 0 else "<tp" if case["G"] < tp else ">=tp"))
        confs = [it["c"] for it in case["items"]]
        b.append(f"{tag}:ties" if len(set(confs)) < len(confs) else f"{tag}:distinct-conf")
        b.append(f"{tag}:mode={case['mode']}")
        if "nested" in case:
            b.append(f"{tag}:nested")
        if not case.get("long") and not case.get("twod"):
            for it in case["items"]:
                b.append("item:" + it["k"] + ":" + it["e"] + "/" + str(it["g"]) + ":" + it["p"][:7] + ":d=" + str(max(it["d"])))
        for d in out.get("res", []):
            s = d["s"][case["mode"]]
            b.append("score:" + ("nomethod" if s == "nm" else "none" if s is None else "val"))
        if "aph" in out and "ap" in out["aph"] and out["aph"]["ap"] is not None and out["ap"].get("ap") is not None:
            b.append(f"{tag}:aph" + ("=ap" if abs(out["aph"]["ap"] - out["ap"]["ap"]) < 1e-12 else "<ap"))
        return b
    via = case["via"]
    b.append(f"map:{via}:labels={len(case['targets'])}:{case['policy']}")
    if "err" in out and "maps" not in out:
        b.append(f"map:{via}:err:{out['err']}")
        return b
    nres = sum(len(fr["res"]) for fr in out["frames"])
    if nres == 0:
        b.append("trivial")
    b.append(f"map:{via}:frames={len(out['frames'])}")
    for m in out["maps"]:
        b.append(f"map:mode={m['mode']}")
        b.append("map:map=" + ("undef" if m["map"] is None else "0" if m["map"] == 0 else "1" if abs(m["map"] - 1) < 1e-12 else "mid"))
        nd = sum(1 for a in m["aps"] if a["ap"] is not None)
        b.append(f"map:defined={nd}/{len(m['aps'])}")
        if m["maph"] is not None and m["map"] is not None:
            b.append("map:maph" + ("=map" if abs(m["maph"] - m["map"]) < 1e-12 else "<map"))
    for fr in out["frames"]:
        for d in fr["res"]:
            el = LABELS[d["l"]]
            gl = None if d["g"] is None else LABELS[d["g"]["l"]]
            kind = "nogt" if gl is None else "fpgt" if gl == "false_positive" else "same" if gl == el else "unk-est" if el == "unknown" else "cross"
            tgt = "T" if el in case["targets"] else "t"
            b.append(f"res:{kind}:{tgt}")
    return b


def shrink(case):
    if case["kind"] == "rank":
        its = case["items"]
        for i in range(len(its)):
            c = dict(case)
            c["items"] = its[:i] + its[i + 1:]
            c.pop("nested", None)
            yield c
        if case["G"] > 0:
            c = dict(case)
            c["G"] = case["G"] - 1
            yield c
        if "nested" in case:
            c = dict(case)
            c.pop("nested")
            yield c
    else:
        for fi, fr in enumerate(case["frames"]):
            for key in ("est", "gt"):
                for i in range(len(fr[key])):
                    c = dict(case)
                    c["frames"] = [dict(f) for f in case["frames"]]
                    c["frames"][fi][key] = fr[key][:i] + fr[key][i + 1:]
                    yield c
        if len(case["frames"]) > 1:
            for fi in range(len(case["frames"])):
                c = dict(case)
                c["frames"] = case["frames"][:fi] + case["frames"][fi + 1:]
                yield c


def search(rng, st, disagreements):
    """extra budget aimed at the ranking / interpolation logic: all rankings one size up and tie-heavy long rankings"""
    cases = []
    for kinds in itertools.product("TFN", repeat=7):
        for G in (0, 1, 3, 7):
            cases.append(_rank_case(list(kinds), G, rng))
    for i in range(200):
        cases.append(_long_case(rng, 120))
    return cases
