"""C06 — matching scores are geometrically exact, bounded and symmetric.

Tie to the code: REAL `DynamicObject` / `DynamicObject2D` pairs are scored by the four `MatchingMethod`
classes; the same inputs (exact rationals of the floats handed to the real code, rotations as the
rational unit complex number (c, s) the quaternion approximates to 1e-16) go to the Lean model
(`PEval.Model.Geometry`).  Compared: every `MatchingMethod.value` (distances on the un-squared scale
against sqrt of the model's squared value), and shapely's intersection area against the model's exact
Sutherland-Hodgman clipper (cross-check of the external contract).

Oracle (independent of the model; Python `Fraction` geometry written from the property text): exact
Euclidean center distance, exact IoU (own rational half-plane clipper, closed form for ROIs), bounds,
symmetry, identical -> 1 / 0, disjoint -> 0, IoU3D <= IoU BEV, plane distance = RMS over the corners
of the ground truth's nearest side, invariance under a common rotation about the ego (all scores) and
a common translation (center distance, IoUs).

Purity stream (kind "pure"): the scores are functions of the two boxes only.  The same two REAL objects, with their
centres held in the containers the library itself produces (float64 ndarray from HomogeneousMatrix / TransformDict /
convert_objects_to_base_link, rows of one buffer, int arrays, lists, tuples), are scored several times in different
orders (cd->pd->iou, iou->cd, swapped after direct, through DynamicObjectWithPerceptionResult, random sequences).
Every value must equal the value of freshly built tuple-position objects AND the exact Fraction value of the property
text, and repeated/swapped evaluations must agree (whether the objects' position / orientation / size are bit-identical
afterwards is recorded in the histogram only: it is not a clause of the statement).  The 2-D objects of the "roi" stream are likewise scored again and through the result object.
"""
from __future__ import annotations

import math
from fractions import Fraction as Fr

from .. import core

PROP = "C06"
EXHAUSTIVE = False
RULE = (
    "3-D: pairs of real DynamicObjects (BASE_LINK, BOUNDING_BOX) from the families random / overlap / nested / "
    "touching / disjoint / sliver (1:200) / equal / axis-aligned / tie (GT symmetric about the ego) / z-disjoint / "
    "large / degenerate(zero size); yaw = rational point of the unit circle from integer half-angle pair (a, b); "
    "dyadic centres and sizes; each pair also scored swapped, against itself, after a common rotation about the "
    "ego and after rotation + translation. 2-D: real DynamicObject2D pairs with integer ROIs: every ordered pair "
    "of a small window (thorough: exhaustively, quick: a sample) plus random large ones, each also shifted. "
    "Purity: box pairs of the same families (positive sizes) with the centres stored as float64 ndarray (assigned / via the "
    "constructor / two rows of one buffer), as produced by the library (convert_objects_to_base_link, TransformDict.transform), "
    "int64 ndarray, list or tuple; scored by a sequence of steps on the SAME two objects (11 fixed orders: cd-pd-iou, iou-cd, "
    "each twice, direct then swapped, swapped first, plane distance first, DynamicObjectWithPerceptionResult first / twice / swapped / "
    "after direct scores, plus random sequences of 3-8 steps out of 10); every container x order combination at least once. "
    "A case is non-trivial unless tagged degenerate; distinct = distinct canonical JSON of the case"
)
THEOREMS = [
    "PEval.C06." + t
    for t in [
        "centerDist2_eq", "centerDist2_symm", "centerDist2_nonneg", "centerDist2_self", "centerDist2_rigid_invariant",
        "roiCenterDist2_eq", "roiCenterDist2_symm", "roiCenterDist2_shift_invariant",
        "interOK_rect", "rectInter_symm", "rectInter_self", "rectInter_disjoint",
        "roiIoU_bounds", "roiIoU_symm", "roiIoU_self", "roiIoU_disjoint", "roiIoU_shift_invariant", "roiIoUCode_ok",
        "iou_bounds", "iouCode_ok",
        "heightInter_bounds", "heightInter_symm", "heightInter_self", "heightInter_disjoint",
        "iou3d_le_iouBev", "iou3d_bounds", "iou3d_self_eq_one", "iou3d_disjoint_eq_zero",
        "areaBev_eq", "areaBev_move",
        "footprint_move", "planeDist2_nonneg", "planeDist2_self_eq_zero", "planeDist2_rot_about_ego_invariant",
        "planeDist2_eq_mean_sq_nearest_side", "planeDist2_nearest_is_side",
        "clip_interArea_nonneg", "interArea_rigid_invariant", "interArea_footprint_self", "interArea_footprint_nested",
        "clipIou_self_eq_one", "clipIou_rigid_invariant",
        # strengthening (audit Part 1 item 4): the area contract for ROTATED boxes.
        #  exact clipper `interArea`: subject bound, separated boxes (either box's edge), contract given the one
        #  equation I(P,Q) = I(Q,P) that compare() evaluates exactly on every pair
        "clip_interArea_le_subject", "interOK_clip_partial", "interOK_clip_of_symm", "clip_interArea_separated",
        "clipIou_separated_eq_zero", "clipIou_bounds_of_symm",
        #  symmetrised exact area `interSym` (= interArea on every checked pair): the WHOLE contract by theorem
        "interOK_sym", "interSym_symm", "interSym_eq_clip_of_symm", "interSym_footprint_self",
        "interSym_rigid_invariant", "interSym_separated",
        "symIou_bounds", "symIou3d_bounds", "symIouCode_ok", "symIou_symm", "symIou_self_eq_one",
        "symIou_separated_eq_zero", "symIou_rigid_invariant",
    ]
]
# De-registered (still in Properties/C06.lean, used as lemmas): their content was a hypothesis or `0/x = 0` -
#   iou_symm (assumes a symmetric `inter`; kept also as iou_symm_of_inter_symm), iou3d_symm (one I on both sides; kept also
#   as iou3d_symm_of_inter_symm), iou_self_eq_one (assumes inter p p = area p), iou_disjoint_eq_zero (iou 0 A1 A2 = 0, no
#   boxes), boxIou_move_invariant (assumes I' = I).  Replaced by symIou_symm, symIou_self_eq_one / clipIou_self_eq_one,
#   symIou_separated_eq_zero / clipIou_separated_eq_zero, symIou_rigid_invariant / clipIou_rigid_invariant.
TRUSTED = [
    "shapely/GEOS `Polygon.intersection(...).area` is an EXTERNAL CONTRACT (0 <= I <= min(A1,A2), symmetric, I(P,P)=A(P), "
    "0 for disjoint interiors, rigid-motion invariant); on every run shapely's area is cross-checked (1e-9) against the exact "
    "rational Sutherland-Hodgman clipper `interArea` of the Lean model.  PROVED for that clipper on two rotated boxes: 0 <= I, "
    "I <= A(subject) (any subject in convex position, any clip polygon), I(P,P)=A(P), nested, rigid invariance, I = 0 for "
    "separated boxes (separating edge of either box, touching allowed).  NOT proved: I(P,Q) = I(Q,P) for the clipper (two "
    "clipping orders give different vertex lists of one region), hence I <= A(clip) only through that equation: compare() "
    "evaluates I(P,Q) = I(Q,P) EXACTLY on every generated pair (driver fields inter / inter_swapped / inter_sym), and the "
    "whole contract is a theorem for interSym = min(I(P,Q), I(Q,P)), which equals interArea on every such pair",
    "that `interArea` is the TRUE area of the intersection of two rotated rectangles in general position (correctness of "
    "the clipper beyond the contract clauses above) is validated by the shapely cross-check only",
    "pyquaternion `Quaternion.rotate` for a yaw-only unit quaternion = planar rotation by (c, s) (checked through the scores)",
    "np.argsort on 4 keys is stable (numpy uses insertion sort below 16 elements)",
    "sqrt is monotone: distances are modelled squared; `round(., 10)` of the plane distance and of the left/right cross "
    "product is not modelled (it changes the value by <= 5e-11, below the comparison tolerance)",
]
ASSUMPTIONS = [
    "3-D objects are BOUNDING_BOX shapes in BASE_LINK with yaw-only orientation (the ego is the origin)",
    "plane distance: when the choice of the two nearest GT corners is decided by a margin >= 1e-7 the value is compared with the "
    "model / the exact RMS of that side; on a tie (or a margin below 1e-7) the text leaves the side open: the RMS corner distance of "
    "ANY tied choice of the two nearest corners (corresponding est/gt corners) is accepted, in compare and in the oracle alike",
    "positive sizes for the property clauses; zero-size boxes / ROIs are outside the quantifier: values are compared with the model "
    "only where both sides return a number, a raise (any class) or a rejecting constructor is no claim; such cases are counted as skipped",
    "ROI centre: the library's public Roi.center is read; it must lie within half a pixel of the true centre offset + size/2 and move "
    "with the ROI under a common shift, and the 2-D center distance must be the distance of those centres (the text fixes no rounding); "
    "the model's floor convention is compared only while the library reports the same centres",
    "purity stream: that scoring leaves its inputs bit-identical is NOT asserted (not in the statement; recorded in the histogram): a "
    "modification that matters shows as a wrong repeated / swapped / later score; for library-converted centres (float noise of the "
    "map->base_link conversion) the exact reference is the un-moved pair with tolerance 1e-6, the freshly-built-object reference uses "
    "the converted values with 1e-9; int-array / list centres (outside the documented tuple-of-floats type) may be rejected by the library",
    "exception classes are never compared (the statement names none): a scoring call either returns a number or raised",
]

TOL = 1e-9


# --------------------------------------------------------------------------- rational geometry (oracle side)

def rot_cs(a: int, b: int):
    n = a * a + b * b
    return Fr(a * a - b * b, n), Fr(2 * a * b, n)


def rot_mul(r, q):
    """half-angle complex numbers multiply: first q then r"""
    return [r[0] * q[0] - r[1] * q[1], r[0] * q[1] + r[1] * q[0]]


def _reduce(ab):
    g = math.gcd(ab[0], ab[1]) or 1
    return [ab[0] // g, ab[1] // g]


def fp_rational(box):
    """rational footprint of a box, local corner order of the property text (any fixed labelling of corners)"""
    c, s = rot_cs(*box["rot"])
    x, y = Fr(box["pos"][0]), Fr(box["pos"][1])
    w, l = Fr(box["size"][0]), Fr(box["size"][1])
    out = []
    for (u, v) in ((l / 2, w / 2), (-l / 2, w / 2), (-l / 2, -w / 2), (l / 2, -w / 2)):
        out.append((c * u - s * v + x, s * u + c * v + y))
    return out


def _area2(P):
    n = len(P)
    return sum(P[i][0] * P[(i + 1) % n][1] - P[(i + 1) % n][0] * P[i][1] for i in range(n))


def clip_area(P, Q):
    """exact area of the intersection of two convex polygons (half-plane clipping, Fractions)"""
    if _area2(Q) < 0:
        Q = Q[::-1]
    poly = list(P)
    n = len(Q)
    for i in range(n):
        a, b = Q[i], Q[(i + 1) % n]
        if not poly:
            break

        def side(p):
            return (b[0] - a[0]) * (p[1] - a[1]) - (b[1] - a[1]) * (p[0] - a[0])

        res = []
        for k in range(len(poly)):
            p, q_ = poly[k - 1], poly[k]
            dp, dq = side(p), side(q_)
            if (dp < 0) != (dq < 0):
                t = dp / (dp - dq)
                res.append((p[0] + t * (q_[0] - p[0]), p[1] + t * (q_[1] - p[1])))
            if dq >= 0:
                res.append(q_)
        poly = res
    return abs(_area2(poly)) / 2 if len(poly) >= 3 else Fr(0)


def separated(P, Q):
    """separating-axis test: interiors disjoint (touching counts as disjoint)"""
    for A in (P, Q):
        n = len(A)
        for i in range(n):
            ex, ey = A[(i + 1) % n][0] - A[i][0], A[(i + 1) % n][1] - A[i][1]
            nx, ny = -ey, ex
            pp = [nx * p[0] + ny * p[1] for p in P]
            qq = [nx * p[0] + ny * p[1] for p in Q]
            if max(pp) <= min(qq) or max(qq) <= min(pp):
                return True
    return False


def z_overlap(e, g):
    ze, he, zg, hg = Fr(e["pos"][2]), Fr(e["size"][2]), Fr(g["pos"][2]), Fr(g["size"][2])
    return max(Fr(0), min(ze + he / 2, zg + hg / 2) - max(ze - he / 2, zg - hg / 2))


def move_box(box, motion, with_t=True):
    """the box after the common rigid motion; position computed exactly, then rounded once to a float"""
    C, S = rot_cs(*motion["rot"])
    x, y, z = (Fr(v) for v in box["pos"])
    t = motion["t"] if with_t else [0.0, 0.0, 0.0]
    nx, ny, nz = C * x - S * y + Fr(t[0]), S * x + C * y + Fr(t[1]), z + Fr(t[2])
    return {"pos": [float(nx), float(ny), float(nz)], "rot": _reduce(rot_mul(motion["rot"], box["rot"])), "size": list(box["size"])}


def pos_size(box):
    return all(v > 0 for v in box["size"])


# --------------------------------------------------------------------------- real objects

_LAB = None


def _label():
    global _LAB
    if _LAB is None:
        from perception_eval.common.label import AutowareLabel, Label

        _LAB = Label(AutowareLabel.CAR, "car")
    return _LAB


def mk3d(box, position=None):
    from perception_eval.common.object import DynamicObject
    from perception_eval.common.schema import FrameID
    from perception_eval.common.shape import Shape, ShapeType
    from pyquaternion import Quaternion

    a, b = box["rot"]
    n = math.hypot(a, b)
    return DynamicObject(
        unix_time=0, frame_id=FrameID.BASE_LINK, position=tuple(float(v) for v in box["pos"]) if position is None else position,
        orientation=Quaternion(w=a / n, x=0.0, y=0.0, z=b / n),
        shape=Shape(ShapeType.BOUNDING_BOX, tuple(float(v) for v in box["size"])),
        velocity=(0.0, 0.0, 0.0), semantic_score=0.5, semantic_label=_label(),
    )


def mk2d(roi):
    from perception_eval.common.object2d import DynamicObject2D
    from perception_eval.common.schema import FrameID

    return DynamicObject2D(unix_time=0, frame_id=FrameID.CAM_FRONT, semantic_score=0.5, semantic_label=_label(),
                           roi=tuple(int(v) for v in roi))


def _val(cls, e, g, **kw):
    """one real scoring call (the ONLY calls whose exceptions are recorded as an outcome): float | None | {"err": class name}"""
    try:
        v = cls(e, g, **kw).value
        return None if v is None else float(v)
    except Exception as ex:  # noqa
        return {"err": type(ex).__name__}


def _scores3d(e, g, which=("cd", "pd", "iou2d", "iou3d")):
    from perception_eval.evaluation.matching import object_matching as om

    M = {"cd": om.CenterDistanceMatching, "pd": om.PlaneDistanceMatching, "iou2d": om.IOU2dMatching, "iou3d": om.IOU3dMatching}
    return {k: _val(M[k], e, g) for k in which}


def _fp_real(o):
    return [[float(p[0]), float(p[1])] for p in list(o.get_footprint().exterior.coords)[:-1]]


def _raised(x):
    """did the real scoring call raise?  (`_val` records the class name for the log; it is never compared: the property says
    nothing about exception classes)"""
    return isinstance(x, dict) and "err" in x


def _float_nearest(o):
    """indices of the two GT footprint corners the float distances rank nearest to the ego (histogram only)"""
    import numpy as np

    fg = np.array(list(o.get_footprint().exterior.coords)[:-1])
    d = np.linalg.norm(fg[:, :2], axis=1)
    return sorted(int(i) for i in np.argsort(d)[:2])


def _inter_real(a, b, how):
    """shapely's intersection area of the two public footprints (external-contract cross-check of compare)"""
    try:
        return float(getattr(a, how)().intersection(getattr(b, how)()).area)
    except Exception as ex:  # noqa
        return {"err": type(ex).__name__}


def _roi_center(o):
    """the public `Roi.center` of a 2-D object as a pair of numbers; None when the attribute is not there in this form
    (the observation is then dropped: histogram key `unobservable:Roi.center`)"""
    c = getattr(getattr(o, "roi", None), "center", None)
    try:
        c = [float(c[0]), float(c[1])]
    except Exception:  # noqa
        return None
    return c if len(c) == 2 and all(math.isfinite(v) for v in c) else None


def _run_box(case):
    import numpy as np  # noqa: F401
    from perception_eval.evaluation.matching import object_matching as om

    eb, gb = case["est"], case["gt"]
    out = {}
    e, g = mk3d(eb), mk3d(gb)
    out["base"] = _scores3d(e, g)
    out["swap"] = _scores3d(g, e, ("cd", "iou2d", "iou3d"))
    out["self_e"] = _scores3d(e, mk3d(eb))
    out["self_g"] = _scores3d(mk3d(gb), g)
    out["base"]["inter"] = _inter_real(e, g, "get_footprint")
    try:
        out["base"]["float_nearest"] = _float_nearest(g)
    except Exception:  # noqa  (histogram only)
        pass
    mv = {}
    for tag, with_t in (("rot", False), ("rt", True)):
        eb2, gb2 = move_box(eb, case["motion"], with_t), move_box(gb, case["motion"], with_t)
        mv[tag] = {"est": eb2, "gt": gb2}
        e2, g2 = mk3d(eb2), mk3d(gb2)
        out[tag] = _scores3d(e2, g2)
        out[tag]["inter"] = _inter_real(e2, g2, "get_footprint")
    out["moved"] = mv
    # ---- the same pair expressed in the MAP frame, ego pose = the motion, transform supplied
    # (corner ranking of the plane distance must still be relative to the ego).  The set-up is harness code (its failure is
    # an infrastructure error); only the four scoring calls are observed, each on its own.
    from perception_eval.common.schema import FrameID
    from perception_eval.common.transform import HomogeneousMatrix, TransformDict
    from pyquaternion import Quaternion

    a, b = case["motion"]["rot"]
    n = math.hypot(a, b)
    yaw = 2.0 * math.atan2(b / n, a / n)
    e2m = HomogeneousMatrix(tuple(float(v) for v in case["motion"]["t"]), Quaternion(axis=[0, 0, 1], angle=yaw),
                            FrameID.BASE_LINK, FrameID.MAP)
    td = TransformDict([e2m])
    from harness import builders as _B  # registry with a history (replaced ego pose), see builders.give_history

    td = _B.maybe_history(td, e2m, ("c06", case["motion"]["t"], case["est"]["pos"]))
    em, gm = mk3d(mv["rt"]["est"]), mk3d(mv["rt"]["gt"])
    em.frame_id = gm.frame_id = FrameID.MAP
    M = {"cd": om.CenterDistanceMatching, "pd": om.PlaneDistanceMatching, "iou2d": om.IOU2dMatching, "iou3d": om.IOU3dMatching}
    out["mapframe"] = {kk: _val(cls, em, gm, transforms=td) for kk, cls in M.items()}
    # ---- objects DERIVED from already-scored ones the way the library derives them (deepcopy, then the
    # state is replaced: interpolation, frame conversion) must score like freshly built objects
    from copy import deepcopy

    fe, fg = mk3d(mv["rt"]["est"]), mk3d(mv["rt"]["gt"])
    try:  # building the derived objects is harness code on top of `ObjectState` (positional, mutable): when that form is
        # not there any more the observation is dropped, never reported
        from perception_eval.common.object import ObjectState

        de, dg = deepcopy(e), deepcopy(g)  # e, g were scored above
        for d_, f_ in ((de, fe), (dg, fg)):
            d_.state = ObjectState(f_.state.position, f_.state.orientation, d_.state.shape, d_.state.velocity)
        de2 = deepcopy(e)
        de2.state.position = fe.state.position
        de2.state.orientation = fe.state.orientation
    except Exception as ex:  # noqa
        out["unobservable"] = ["derived-objects:" + type(ex).__name__]
    else:
        out["derived"] = _scores3d(de, dg)
        out["derived_inplace"] = _scores3d(de2, dg)
    return out


def run_impl(case):
    from perception_eval.evaluation.matching import object_matching as om

    k = case["kind"]
    if k == "box":
        if pos_size(case["est"]) and pos_size(case["gt"]):
            return _run_box(case)
        # zero-size boxes are OUTSIDE the quantifier ("all pairs of boxes with positive size"): whatever the library does
        # with them (ZeroDivisionError today, a guard returning 0.0, a rejecting constructor) is no claim of C06
        try:
            out = _run_box(case)
        except Exception as ex:  # noqa
            return {"outside": True, "rejected": type(ex).__name__}
        out["outside"] = True
        return out
    if k == "roi":
        ra, rb = case["est"], case["gt"]
        inside = ra[2] > 0 and ra[3] > 0 and rb[2] > 0 and rb[3] > 0
        try:
            out = _run_roi(case, om)
        except Exception as ex:  # noqa
            if inside:
                raise
            return {"outside": True, "rejected": type(ex).__name__}  # zero-size ROIs: outside "pairs of integer ROIs" with an area
        if not inside:
            out["outside"] = True
        return out
    if k == "pure":
        return _run_pure(case)
    raise ValueError(k)


def _run_roi(case, om):
    ra, rb = case["est"], case["gt"]
    e, g = mk2d(ra), mk2d(rb)
    sc = lambda a, b: {"cd": _val(om.CenterDistanceMatching, a, b), "iou2d": _val(om.IOU2dMatching, a, b)}  # noqa
    out = {"base": sc(e, g), "swap": sc(g, e), "self_e": sc(e, mk2d(ra)), "self_g": sc(mk2d(rb), g)}
    out["base"]["inter"] = _inter_real(e, g, "get_polygon")
    dx, dy = case["shift"]
    ra2, rb2 = [ra[0] + dx, ra[1] + dy, ra[2], ra[3]], [rb[0] + dx, rb[1] + dy, rb[2], rb[3]]
    e2, g2 = mk2d(ra2), mk2d(rb2)
    out["shift"] = sc(e2, g2)
    out["moved"] = {"est": ra2, "gt": rb2}
    # the ROI centres the library itself reports (public attribute `Roi.center`), of the pair and of the shifted pair
    cs = [_roi_center(o) for o in (e, g, e2, g2)]
    out["centers"] = None if any(c is None for c in cs) else {"est": cs[0], "gt": cs[1], "est_shift": cs[2], "gt_shift": cs[3]}
    # ---- purity: the SAME two objects scored again after everything above, and through the result object
    out["again"] = sc(e, g)
    out["result"] = _result_scores(e, g, ("cd", "iou2d"))
    out["again_swap"] = sc(g, e)
    return out


# --------------------------------------------------------------------------- purity stream (real objects)

_OPS = {"cd": "CenterDistanceMatching", "pd": "PlaneDistanceMatching", "iou2d": "IOU2dMatching", "iou3d": "IOU3dMatching"}
_RES_ATTR = {"cd": "center_distance", "pd": "plane_distance", "iou2d": "iou_2d", "iou3d": "iou_3d"}


def _result_scores(e, g, which=("cd", "pd", "iou2d", "iou3d")):
    """the four scores as DynamicObjectWithPerceptionResult reports them (observe_at of the property)"""
    from perception_eval.evaluation.result.object_result import DynamicObjectWithPerceptionResult

    try:
        r = DynamicObjectWithPerceptionResult(e, g)
    except Exception as ex:  # noqa
        return {k: {"err": type(ex).__name__} for k in which}
    out = {}
    for k in which:
        try:
            v = getattr(r, _RES_ATTR[k]).value
            out[k] = None if v is None else float(v)
        except Exception as ex:  # noqa
            out[k] = {"err": type(ex).__name__}
    return out


def _hex(seq):
    return [float(x).hex() for x in seq]


def _snap3d(o):
    """the VALUES that enter the scores (bitwise, container/dtype-insensitive)"""
    import numpy as np

    st = o.state
    return {"position": _hex(np.asarray(st.position).tolist()), "orientation": _hex(list(st.orientation.elements)),
            "size": _hex(list(st.shape.size))}


def _postype(o):
    import numpy as np

    p = o.state.position
    return f"ndarray:{p.dtype}" if isinstance(p, np.ndarray) else type(p).__name__


def _fresh(snap):
    """freshly built object with TUPLE position from a snapshot"""
    from perception_eval.common.object import DynamicObject
    from perception_eval.common.schema import FrameID
    from perception_eval.common.shape import Shape, ShapeType
    from pyquaternion import Quaternion

    f = lambda xs: tuple(float.fromhex(x) for x in xs)  # noqa
    w, x, y, z = f(snap["orientation"])
    return DynamicObject(unix_time=0, frame_id=FrameID.BASE_LINK, position=f(snap["position"]), orientation=Quaternion(w=w, x=x, y=y, z=z),
                         shape=Shape(ShapeType.BOUNDING_BOX, f(snap["size"])), velocity=(0.0, 0.0, 0.0), semantic_score=0.5,
                         semantic_label=_label())


def _build_pure(case):
    """the pair with its positions held in the container under test"""
    import numpy as np

    eb, gb, cont = case["est"], case["gt"], case["container"]
    if cont in ("lib-converted", "lib-transform"):
        from perception_eval.common.dataset import convert_objects_to_base_link
        from perception_eval.common.schema import FrameID
        from perception_eval.common.transform import HomogeneousMatrix, TransformDict
        from pyquaternion import Quaternion

        a, b = case["motion"]["rot"]
        n = math.hypot(a, b)
        yaw = 2.0 * math.atan2(b / n, a / n)
        e2m = HomogeneousMatrix(tuple(float(v) for v in case["motion"]["t"]), Quaternion(axis=[0, 0, 1], angle=yaw), FrameID.BASE_LINK, FrameID.MAP)
        em, gm = mk3d(move_box(eb, case["motion"])), mk3d(move_box(gb, case["motion"]))
        if cont == "lib-converted":
            em.frame_id = gm.frame_id = FrameID.MAP
            e, g = convert_objects_to_base_link([em, gm], e2m)
            return e, g
        td = TransformDict([e2m])
        e, g = mk3d(eb), mk3d(gb)
        e.state.position = td.transform((FrameID.MAP, FrameID.BASE_LINK), em.state.position)
        g.state.position = td.transform((FrameID.MAP, FrameID.BASE_LINK), gm.state.position)
        return e, g
    e, g = mk3d(eb), mk3d(gb)
    pe, pg = [float(v) for v in eb["pos"]], [float(v) for v in gb["pos"]]
    if cont == "f64":
        e.state.position, g.state.position = np.array(pe, dtype=np.float64), np.array(pg, dtype=np.float64)
    elif cont == "f64-rows":  # two rows of one buffer (vectorised conversion of a frame)
        buf = np.array([pe, pg], dtype=np.float64)
        e.state.position, g.state.position = buf[0], buf[1]
    elif cont == "f64-ctor":  # handed to the constructor rather than assigned
        e, g = mk3d(eb, np.array(pe, dtype=np.float64)), mk3d(gb, np.array(pg, dtype=np.float64))
    elif cont == "int":
        e.state.position, g.state.position = np.array([int(v) for v in pe], dtype=np.int64), np.array([int(v) for v in pg], dtype=np.int64)
    elif cont == "list":
        e.state.position, g.state.position = list(pe), list(pg)
    elif cont == "tuple":
        pass
    else:
        raise ValueError(cont)
    return e, g


def _run_pure(case):
    from perception_eval.evaluation.matching import object_matching as om

    e, g = _build_pure(case)
    snap0 = {"est": _snap3d(e), "gt": _snap3d(g)}
    out = {"postype": [_postype(e), _postype(g)], "snap0": snap0, "steps": [], "mutated": None}
    for i, op in enumerate(case["ops"]):
        swapped = op.endswith("~")
        name = op.rstrip("~")
        a, b = (g, e) if swapped else (e, g)
        fa, fb = (_fresh(snap0["gt"]), _fresh(snap0["est"])) if swapped else (_fresh(snap0["est"]), _fresh(snap0["gt"]))
        if name == "R":
            v, ref = _result_scores(a, b), _result_scores(fa, fb)
        else:
            v, ref = _val(getattr(om, _OPS[name]), a, b), _val(getattr(om, _OPS[name]), fa, fb)
        out["steps"].append({"op": op, "v": v, "ref": ref})
        if out["mutated"] is None:
            now = {"est": _snap3d(e), "gt": _snap3d(g)}
            if now != snap0:
                who, what = next((w, f) for w in ("est", "gt") for f in ("position", "orientation", "size") if now[w][f] != snap0[w][f])
                out["mutated"] = {"step": i, "op": op, "who": who, "what": what,
                                  "before": [float.fromhex(x) for x in snap0[who][what]], "after": [float.fromhex(x) for x in now[who][what]]}
    return out


# --------------------------------------------------------------------------- model side

def _mbox(box):
    c, s = rot_cs(*box["rot"])
    return {"c": [core.q(float(v)) for v in box["pos"]], "rot": [core.q(c), core.q(s)], "size": [core.q(float(v)) for v in box["size"]]}


def model_requests(case, out):
    if not isinstance(out, dict) or out.get("unexpected") or "moved" not in out:
        return []  # nothing of the real code to compare (rejected out-of-quantifier input, or an unexpected exception)
    if case["kind"] == "box":
        mv = out["moved"]
        return [
            {"op": "box", "est": _mbox(case["est"]), "gt": _mbox(case["gt"])},
            {"op": "box", "est": _mbox(mv["rot"]["est"]), "gt": _mbox(mv["rot"]["gt"])},
            {"op": "box", "est": _mbox(mv["rt"]["est"]), "gt": _mbox(mv["rt"]["gt"])},
        ]
    if case["kind"] == "roi":
        return [{"op": "roi", "est": list(case["est"]), "gt": list(case["gt"])},
                {"op": "roi", "est": out["moved"]["est"], "gt": out["moved"]["gt"]}]
    return []


def _mval(x):
    """model number or error"""
    if isinstance(x, dict):
        return x
    return core.unq(str(x))


def _cmp_val(name, impl, model, sqrt=False):
    """impl: float | {'err'}; model: Fraction | {'err'}.  Only called for pairs INSIDE the quantifier (positive sizes), where
    the model is total: a real call that raised is a disagreement whatever its class."""
    if isinstance(model, dict):
        return f"{name}: the model has no value on a positive-size pair: {model}"
    if isinstance(impl, dict):
        return f"{name}: impl raised {impl.get('err')} vs model {float(model)!r}"
    if impl is None:
        return f"{name}: impl None"
    m = float(model)
    if sqrt:
        if m < 0:
            return f"{name}: model squared distance negative {model}"
        m = math.sqrt(m)
    return None if core.close(impl, m, TOL, TOL) else f"{name}: impl {impl!r} vs model {m!r}"


def _cmp_outside(name, impl, model, sqrt=False):
    """a pair OUTSIDE the quantifier (a zero size): compared only where both sides produced a number; 'raised' on either
    side (ZeroDivisionError today; object_matching.py carries `TODO: if tiny box dim seen return 0.0 IOU`) is no claim.
    -> (disagreement | None, ignored?)"""
    if isinstance(impl, dict) or isinstance(model, dict) or impl is None:
        return None, True
    return _cmp_val(name, impl, model, sqrt), False


def _side_pairs(keys, slack=1e-7):
    """index pairs {i, j} of footprint corners that are 'the two nearest to the ego' up to `slack` in distance: every corner
    outside the pair is at least as far as both of them.  Without a tie this is the one nearest side (for a rectangle the two
    nearest corners are adjacent).  On a tie (GT symmetric about the ego) every tied choice: the property says "the ground
    truth's nearest-to-ego side" and leaves the tie open.  (When all four corners tie - GT centred on the ego - the float
    noise of the unchanged code also selects diagonal pairs, so adjacency is not demanded.)"""
    d = [math.sqrt(float(k)) for k in keys]
    out = []
    for i in range(4):
        for j in range(i + 1, 4):
            rest = [d[k] for k in range(4) if k not in (i, j)]
            if max(d[i], d[j]) <= min(rest) + slack:
                out.append((i, j))
    return out


def _pd2_candidates(P, Q, slack=1e-7):
    """squared plane distance for every admissible nearest side of Q (corner lists in corresponding order): mean of the
    two squared distances between corresponding corners.  The VALUE set does not depend on how the corners are labelled."""
    keys = [q[0] * q[0] + q[1] * q[1] for q in Q]
    vals = []
    for i, j in _side_pairs(keys, slack):
        vals.append((sum((P[i][t] - Q[i][t]) ** 2 for t in range(2)) + sum((P[j][t] - Q[j][t]) ** 2 for t in range(2))) / 2)
    return vals


def _pd_margin(r):
    ks = [float(core.unq(x)) for x in r["sorted_keys"]]
    return math.sqrt(ks[2]) - math.sqrt(ks[1])


def _cmp_pd(tag, sc, r):
    """plane distance against the model.  Decided corner choice (margin >= 1e-7): the model's value.  Tie / near tie: the
    model's deterministic winner (first index of a stable argsort over the library's CURRENT corner labelling) is one of
    several outcomes the property admits; any tied nearest side is accepted, computed from the model's exact footprints."""
    if _pd_margin(r) >= 1e-7:
        return _cmp_val(f"{tag}.plane_distance", sc["pd"], _mval(r["pd2"]), sqrt=True)
    if _raised(sc["pd"]) or sc["pd"] is None:
        return f"{tag}.plane_distance: impl {sc['pd']} on a positive-size pair"
    P = [(core.unq(p[0]), core.unq(p[1])) for p in r["fp_est"]]
    Q = [(core.unq(p[0]), core.unq(p[1])) for p in r["fp_gt"]]
    cands = [math.sqrt(float(v)) for v in _pd2_candidates(P, Q)] + [math.sqrt(float(_mval(r["pd2"])))]
    if any(core.close(sc["pd"], c, TOL, TOL) for c in cands):
        return None
    return f"tie {tag}.plane_distance: impl {sc['pd']!r} is the RMS corner distance of none of the tied nearest sides {sorted(set(cands))}"


def compare(case, out, resps):
    if out.get("unexpected") or ("err" in out and "base" not in out and "steps" not in out):
        return None  # no output of the real code to compare (reported by run_check itself)
    if case["kind"] == "box":
        if out.get("outside"):
            if "base" not in out:
                return "skip"  # the library rejects the zero-size box altogether
            for tag, r in zip(("base", "rot", "rt"), resps):
                sc = out[tag]
                for nm, key, mk, sq in (("center_distance", "cd", "cd2", True), ("iou_2d", "iou2d", "iou2d", False), ("iou_3d", "iou3d", "iou3d", False)):
                    d, _ign = _cmp_outside(f"{tag}.{nm} [zero-size box]", sc[key], _mval(r[mk]), sq)
                    if d:
                        return d
            return "skip"  # counted: a case outside the quantifier
        for tag, r in zip(("base", "rot", "rt"), resps):
            sc = out[tag]
            for d in (
                _cmp_val(f"{tag}.center_distance", sc["cd"], _mval(r["cd2"]), sqrt=True),
                _cmp_val(f"{tag}.iou_2d", sc["iou2d"], _mval(r["iou2d"])),
                _cmp_val(f"{tag}.iou_3d", sc["iou3d"], _mval(r["iou3d"])),
                _cmp_val(f"{tag}.shapely_area_vs_clipConvex", sc["inter"], _mval(r["inter"])),
            ):
                if d:
                    return d
            if _mval(r["inter"]) != _mval(r["inter_swapped"]):
                return f"{tag}: model clipper not symmetric {r['inter']} vs {r['inter_swapped']}"
            # the symmetrised exact area `interSym` (for which the WHOLE area contract is a theorem) is the value the
            # scores were compared with: I(P,Q) = I(Q,P) exactly, hence interSym = interArea on this pair
            if "inter_sym" in r and _mval(r["inter_sym"]) != _mval(r["inter"]):
                return f"{tag}: interSym {r['inter_sym']} != interArea {r['inter']}"
            d = _cmp_pd(tag, sc, r)
            if d:
                return d
        return None
    if case["kind"] == "roi":
        if out.get("outside"):
            if "base" not in out:
                return "skip"
            for tag, r in zip(("base", "shift"), resps):
                for nm, key, mk, sq in (("center_distance", "cd", "cd2", True), ("iou_2d", "iou2d", "iou2d", False)):
                    d, _ign = _cmp_outside(f"{tag}.{nm} [zero-size ROI]", out[tag][key], _mval(r[mk]), sq)
                    if d and (key != "cd" or _centers_as_model(out, resps)):
                        return d
            return "skip"
        skip = False
        floor_centres = _centers_as_model(out, resps)
        for tag, r in zip(("base", "shift"), resps):
            sc = out[tag]
            if floor_centres:
                d = _cmp_val(f"{tag}.center_distance", sc["cd"], _mval(r["cd2"]), sqrt=True)
                if d:
                    return d
            else:
                # the library reports other ROI centres than the model's `offset + size // 2` (e.g. the true centre
                # offset + size / 2): the text says "ROI centers" and fixes no rounding; the oracle judges the value
                skip = True
            d = _cmp_val(f"{tag}.iou_2d", sc["iou2d"], _mval(r["iou2d"]))
            if d:
                return d
        r = resps[0]
        d = _cmp_val("shapely_area_vs_closed_form", out["base"]["inter"], _mval(r["inter"]))
        if d:
            return d
        if _mval(r["inter"]) != _mval(r["inter_clip"]):
            return f"model: closed form {r['inter']} != clipConvex {r['inter_clip']}"
        return "skip" if skip else None
    if case["kind"] == "pure":
        return None
    return f"unknown kind {case['kind']}"


def _centers_as_model(out, resps):
    """do the ROI centres the library reports coincide with the model's (`Roi.center` of the Lean model: offset + size // 2)?
    When the attribute cannot be read the model's convention is assumed (the comparison of the distance then decides)."""
    cs = out.get("centers")
    if not cs:
        return True
    try:
        for who, tag, r in (("est", "est", resps[0]), ("gt", "gt", resps[0]), ("est", "est_shift", resps[1]), ("gt", "gt_shift", resps[1])):
            mc = r[f"center_{who}"]
            if [float(mc[0]), float(mc[1])] != [float(v) for v in cs[tag]]:
                return False
    except (KeyError, IndexError, TypeError, ValueError):
        return True
    return True


# --------------------------------------------------------------------------- oracle = the property text

def _num(x):
    return isinstance(x, float) and not math.isnan(x) and not math.isinf(x)


def _close(a, b):
    return core.close(a, b, TOL, TOL)


def _oracle_box(case, out):
    eb, gb = case["est"], case["gt"]
    if not (pos_size(eb) and pos_size(gb)) or out.get("outside"):
        return None  # outside the quantifier (positive sizes)
    for tag in ("base", "swap", "self_e", "self_g", "rot", "rt"):
        for k, v in out[tag].items():
            if k in ("cd", "pd", "iou2d", "iou3d") and not _num(v):
                return f"{tag}.{k} is not a finite number: {v}"
    b, sw, se, sg, ro, rt = (out[t] for t in ("base", "swap", "self_e", "self_g", "rot", "rt"))
    # ---- center distance = Euclidean distance of the centers
    ref = math.sqrt(float(sum((Fr(eb["pos"][i]) - Fr(gb["pos"][i])) ** 2 for i in range(3))))
    if not _close(b["cd"], ref):
        return f"center distance {b['cd']!r} != Euclidean distance of the centers {ref!r}"
    if not _close(sw["cd"], b["cd"]):
        return f"center distance not symmetric: {b['cd']!r} vs {sw['cd']!r}"
    if abs(se["cd"]) > TOL or abs(sg["cd"]) > TOL:
        return f"center distance of identical boxes not 0: {se['cd']!r}, {sg['cd']!r}"
    for tag, m in (("rotation about ego", ro), ("rotation+translation", rt)):
        if not _close(m["cd"], b["cd"]):
            return f"center distance changed under common {tag}: {b['cd']!r} -> {m['cd']!r}"
    # ---- IoU: exact, bounded, symmetric, identities, 3D <= BEV, invariant
    P, Q = fp_rational(eb), fp_rational(gb)
    A1, A2 = Fr(eb["size"][0]) * Fr(eb["size"][1]), Fr(gb["size"][0]) * Fr(gb["size"][1])
    I = clip_area(P, Q)
    true2d = I / (A1 + A2 - I)
    h = z_overlap(eb, gb)
    V1, V2 = A1 * Fr(eb["size"][2]), A2 * Fr(gb["size"][2])
    true3d = (I * h) / (V1 + V2 - I * h)
    for k, true in (("iou2d", true2d), ("iou3d", true3d)):
        v = b[k]
        if not (-TOL <= v <= 1 + TOL):
            return f"{k} = {v!r} outside [0, 1]"
        if not _close(v, float(true)):
            return f"{k} = {v!r} but the true intersection-over-union is {float(true)!r}"
        if not _close(sw[k], v):
            return f"{k} not symmetric: {v!r} vs {sw[k]!r}"
        if not (_close(se[k], 1.0) and _close(sg[k], 1.0)):
            return f"{k} of identical boxes not 1: {se[k]!r}, {sg[k]!r}"
        for tag, m in (("rotation about ego", ro), ("rotation+translation", rt)):
            if not _close(m[k], v):
                return f"{k} changed under common {tag}: {v!r} -> {m[k]!r}"
    # ---- the pair after the common rigid motion, expressed in the MAP frame with the ego pose supplied: the ego has moved
    # with the objects, so this is "both objects rotated together about the ego" + a common translation seen from the map
    # ("plane distance ... of the ground truth's nearest-to-ego side"; "All scores are unchanged when both objects are
    # rotated together about the ego (distance and IoU also under any common translation)")
    mf = out.get("mapframe", {})
    for k in ("cd", "iou2d", "iou3d"):
        if k in mf:
            if not _num(mf[k]):
                return f"{_SCORE_NAME[k]} of the pair in the map frame (ego pose supplied) is not a finite number: {mf[k]}"
            if abs(mf[k] - b[k]) > 1e-6 * max(1.0, abs(b[k])):
                return f"{k} differs between the ego-frame pair ({b[k]!r}) and the same pair in the map frame with the ego pose supplied ({mf[k]!r})"
    # ---- derived objects (deepcopy of a scored object, state replaced) score like fresh ones
    for tag in ("derived", "derived_inplace"):
        dv = out.get(tag, {})
        for k in ("cd", "pd", "iou2d", "iou3d"):
            if k in dv and not _num(dv[k]):
                return f"{_SCORE_NAME[k]} of objects derived from scored ones by deepcopy + new state is not a finite number: {dv[k]}"
            if k in dv and _num(rt[k]) and not _close(dv[k], rt[k]) and (k != "pd" or _pd_margin_of(fp_rational(out["moved"]["rt"]["gt"])) >= 1e-7):
                return f"{k} of objects derived from scored ones by deepcopy + new state is {dv[k]!r}, freshly built objects give {rt[k]!r}"
    if separated(P, Q) and (abs(b["iou2d"]) > TOL or abs(b["iou3d"]) > TOL):
        return f"disjoint footprints but iou2d={b['iou2d']!r}, iou3d={b['iou3d']!r}"
    if h == 0 and abs(b["iou3d"]) > TOL:
        return f"disjoint in height but iou3d={b['iou3d']!r}"
    if b["iou3d"] > b["iou2d"] + TOL:
        return f"iou3d {b['iou3d']!r} > iou bev {b['iou2d']!r}"
    # ---- plane distance
    if b["pd"] < 0 or ro["pd"] < 0:
        return f"plane distance negative: {b['pd']!r}"
    if abs(se["pd"]) > TOL or abs(sg["pd"]) > TOL:
        return f"plane distance of identical boxes not 0: {se['pd']!r}, {sg['pd']!r}"
    # "equals the RMS distance between the corresponding footprint corners of the ground truth's nearest-to-ego side": on an
    # exact (or float-undecidable, < 1e-7) tie of the corner ranking ANY tied nearest side is such a side
    cands = [math.sqrt(float(v)) for v in _pd2_candidates(P, Q)]
    if cands and not any(_close(b["pd"], c) for c in cands):
        return (f"plane distance {b['pd']!r} != RMS corner distance over the GT's nearest side "
                f"{cands[0]!r}" + (f" (nor over any of the tied nearest sides {sorted(set(cands))})" if len(cands) > 1 else ""))
    if _pd_margin_of(Q) >= 1e-7:
        if not _close(ro["pd"], b["pd"]):
            return f"plane distance changed under common rotation about ego: {b['pd']!r} -> {ro['pd']!r}"
        if "pd" in mf:
            if not _num(mf["pd"]):
                return f"plane distance of the pair in the map frame (ego pose supplied) is not a finite number: {mf['pd']}"
            if abs(mf["pd"] - b["pd"]) > 1e-6 * max(1.0, abs(b["pd"])):
                return f"plane distance differs between the ego-frame pair ({b['pd']!r}) and the same pair in the map frame with the ego pose supplied ({mf['pd']!r})"
    else:
        # tie: the moved renderings may pick another tied side; each must still be the RMS over SOME tied nearest side
        for what, v in (("after the common rotation about the ego", ro["pd"]), ("in the map frame with the ego pose supplied", mf.get("pd"))):
            if v is None:
                continue
            if not _num(v):
                return f"plane distance {what} is not a finite number: {v}"
            if cands and not any(abs(v - c) <= 1e-6 * max(1.0, c) for c in cands):
                return f"plane distance {what} is {v!r}: the RMS corner distance of none of the GT's tied nearest sides {sorted(set(cands))}"
    return None


def _pd_margin_of(Q):
    d = sorted(math.sqrt(float(p[0] * p[0] + p[1] * p[1])) for p in Q)
    return d[2] - d[1]


def _roi_inside(case):
    ra, rb = case["est"], case["gt"]
    return ra[2] > 0 and ra[3] > 0 and rb[2] > 0 and rb[3] > 0


def _roi_center_refs(case, out):
    """the admissible readings of "ROI centers" for the pair and the shifted pair -> list of (reference distance of the
    pair, of the shifted pair), or a failure text.
    The text says "Euclidean distance between ... ROI centers" and fixes no rounding: the centre of an integer ROI is its
    true centre offset + size/2, or - what the library documents today (`Roi.center`, int pixels) - a pixel within half a
    pixel of it.  The library's OWN public `Roi.center` is read; it must be such a centre and must move with the ROI."""
    ra, rb = case["est"], case["gt"]
    dx, dy = case["shift"]
    true = lambda r: (Fr(r[0]) + Fr(r[2], 2), Fr(r[1]) + Fr(r[3], 2))  # noqa
    dist = lambda a, b: math.sqrt(float((Fr(a[0]) - Fr(b[0])) ** 2 + (Fr(a[1]) - Fr(b[1])) ** 2))  # noqa
    cs = out.get("centers")
    if cs:
        for who, r in (("est", ra), ("gt", rb)):
            c, t = cs[who], true(r)
            if any(abs(Fr(c[i]) - t[i]) > Fr(1, 2) for i in range(2)):
                return None, f"Roi.center {c} of the ROI {r} is not its centre (true centre {[float(v) for v in t]}, more than half a pixel off)"
            c2 = cs[who + "_shift"]
            if [Fr(c2[0]) - Fr(c[0]), Fr(c2[1]) - Fr(c[1])] != [dx, dy]:
                return None, (f"Roi.center does not move with the ROI: {r} has centre {c}, the same ROI shifted by {[dx, dy]} has centre {c2}")
        return [(dist(cs["est"], cs["gt"]), dist(cs["est_shift"], cs["gt_shift"]))], None
    # `Roi.center` not readable in this form: either documented reading is accepted
    fl = lambda r: (r[0] + r[2] // 2, r[1] + r[3] // 2)  # noqa
    return [(dist(fl(ra), fl(rb)),) * 2, (dist(true(ra), true(rb)),) * 2], None


def _oracle_roi(case, out):
    ra, rb = case["est"], case["gt"]
    if not _roi_inside(case) or out.get("outside"):
        return None
    for tag in ("base", "swap", "self_e", "self_g", "shift"):
        for k in ("cd", "iou2d"):
            if not _num(out[tag][k]):
                return f"{tag}.{k} is not a finite number: {out[tag][k]}"
    b, sw, se, sg, sh = (out[t] for t in ("base", "swap", "self_e", "self_g", "shift"))
    refs, bad = _roi_center_refs(case, out)
    if bad:
        return bad
    if not any(_close(b["cd"], r0) and _close(sh["cd"], r1) for r0, r1 in refs):
        return (f"2-D center distance {b['cd']!r} (shifted pair: {sh['cd']!r}) != distance of the ROI centers "
                f"{' / '.join(repr(r0) for r0, _ in refs)}")
    if not _close(sw["cd"], b["cd"]):
        return f"2-D center distance not symmetric {b['cd']!r} vs {sw['cd']!r}"
    if abs(se["cd"]) > TOL or abs(sg["cd"]) > TOL:
        return "2-D center distance of identical ROIs not 0"
    if not _close(sh["cd"], b["cd"]):
        return f"2-D center distance changed under a common shift: {b['cd']!r} -> {sh['cd']!r}"
    ox = max(0, min(ra[0] + ra[2], rb[0] + rb[2]) - max(ra[0], rb[0]))
    oy = max(0, min(ra[1] + ra[3], rb[1] + rb[3]) - max(ra[1], rb[1]))
    I = ox * oy
    true = Fr(I, ra[2] * ra[3] + rb[2] * rb[3] - I)
    v = b["iou2d"]
    if not (-TOL <= v <= 1 + TOL):
        return f"2-D IoU {v!r} outside [0,1]"
    if not _close(v, float(true)):
        return f"2-D IoU {v!r} but the true intersection-over-union is {float(true)!r}"
    if I == 0 and abs(v) > TOL:
        return f"disjoint ROIs but IoU {v!r}"
    if not _close(sw["iou2d"], v):
        return f"2-D IoU not symmetric {v!r} vs {sw['iou2d']!r}"
    if not (_close(se["iou2d"], 1.0) and _close(sg["iou2d"], 1.0)):
        return f"2-D IoU of identical ROIs not 1: {se['iou2d']!r} {sg['iou2d']!r}"
    if not _close(sh["iou2d"], v):
        return f"2-D IoU changed under a common shift: {v!r} -> {sh['iou2d']!r}"
    return None


def _oracle_roi_pure(case, out):
    """the same two ROI objects scored again (after the swapped / self scores) and through the result object"""
    if not _roi_inside(case) or out.get("outside") or "again" not in out:
        return None
    b = out["base"]
    for tag, what in (("again", "scored a second time"), ("result", "scored through DynamicObjectWithPerceptionResult"),
                      ("again_swap", "scored with swapped arguments after the result object")):
        for k, nm in (("cd", "2-D center distance"), ("iou2d", "2-D IoU")):
            v = out[tag][k]
            if not _num(v):
                return f"{nm} of the same two objects {what} is not a finite number: {v}"
            if not _close(v, b[k]):
                return f"{nm} of the same two objects {what} is {v!r}, the first evaluation gave {b[k]!r}"
    # (that scoring leaves its input objects bit-identical is NOT a clause of C06: a modification that matters shows in the
    # repeated / swapped evaluations above, one that does not is no violation of the statement)
    return None


def _truth(eb, gb):
    """the property text evaluated exactly (Fractions) for the ordered pair (estimate, ground truth)"""
    cd = math.sqrt(float(sum((Fr(eb["pos"][i]) - Fr(gb["pos"][i])) ** 2 for i in range(3))))
    P, Q = fp_rational(eb), fp_rational(gb)
    A1, A2 = Fr(eb["size"][0]) * Fr(eb["size"][1]), Fr(gb["size"][0]) * Fr(gb["size"][1])
    I = clip_area(P, Q)
    h = z_overlap(eb, gb)
    V1, V2 = A1 * Fr(eb["size"][2]), A2 * Fr(gb["size"][2])
    t = {"cd": cd, "iou2d": float(I / (A1 + A2 - I)), "iou3d": float((I * h) / (V1 + V2 - I * h)), "pd": None}
    if _pd_margin_of(Q) >= 1e-7:  # (ties: the tied side is not determined by the text; the repeated-evaluation clauses still apply)
        t["pd"] = math.sqrt(float(_pd2_candidates(P, Q)[0]))
    return t


def _pure_in_domain(case):
    eb, gb = case["est"], case["gt"]
    if not (pos_size(eb) and pos_size(gb)):
        return False
    if case["container"] == "int" and any(float(v) != int(v) for b in (eb, gb) for v in b["pos"]):
        return False  # an int array cannot hold this centre
    return True


_SCORE_NAME = {"cd": "center distance", "pd": "plane distance", "iou2d": "BEV IoU", "iou3d": "3-D IoU"}


def _oracle_pure(case, out):
    """Scores are functions of the two boxes only: whatever container holds the centre, however often and in whatever
    order the scores of the pair were evaluated before, every score equals (a) the score of freshly built
    tuple-position objects and (b) the exact value the property text prescribes."""
    eb, gb = case["est"], case["gt"]
    if not _pure_in_domain(case):
        return None
    lib = case["container"] in ("lib-converted", "lib-transform")
    truth = {False: _truth(eb, gb), True: None}
    hist = []
    seen = {}
    for st in out["steps"]:
        op = st["op"]
        swapped = op.endswith("~")
        name = op.rstrip("~")
        if swapped and truth[True] is None:
            truth[True] = _truth(gb, eb)
        vals = st["v"] if name == "R" else {name: st["v"]}
        refs = st["ref"] if name == "R" else {name: st["ref"]}
        via = "DynamicObjectWithPerceptionResult" if name == "R" else "MatchingMethod"
        ctx = (f"[{via}{', arguments swapped' if swapped else ''}; centres held as {case['container']} ({'/'.join(out['postype'])}); "
               f"evaluated before on the same two objects: {' '.join(hist) or 'nothing'}]")
        for k in ("cd", "pd", "iou2d", "iou3d"):
            if k not in vals:
                continue
            v, ref, nm = vals[k], refs[k], _SCORE_NAME[k]
            if _raised(v) and case["container"] in ("int", "list"):
                # the documented type of a position is a tuple of floats; a library that REJECTS an int array / a list is
                # within its contract (no claim); one that accepts it must score it right (clauses below)
                continue
            if not _num(v):
                return f"{nm} is not a finite number: {v} {ctx}"
            if _num(ref) and not _close(v, ref):
                return f"{nm} = {v!r}, but freshly built objects with the same centres as tuples score {ref!r} {ctx}"
            tv = truth[swapped][k]
            if tv is not None:
                tol = 1e-6 if lib else TOL
                if not core.close(v, tv, tol, tol):
                    return f"{nm} = {v!r}, but the exact value for the two boxes is {tv!r} {ctx}"
            key = (k, swapped)
            if key in seen and not _close(v, seen[key]):
                return f"{nm} = {v!r}, an earlier evaluation of the same two objects gave {seen[key]!r} {ctx}"
            seen.setdefault(key, v)
            if k != "pd" and (k, not swapped) in seen and not _close(v, seen[(k, not swapped)]):
                return f"{nm} not symmetric: {v!r} vs {seen[(k, not swapped)]!r} {ctx}"
        hist.append(op)
    # `out["mutated"]` (the objects' position / orientation / size are not bit-identical after scoring) is NOT a clause of
    # C06 - the statement is about score VALUES.  A modification that matters makes a later / repeated / swapped evaluation
    # wrong and is reported by the clauses above with the step sequence; it is kept in the histogram (pure:inputs-MUTATED).
    return None


def oracle(case, out):
    if not isinstance(out, dict) or out.get("unexpected") or ("err" in out and "base" not in out and "steps" not in out):
        # an exception that escaped run_impl (reported by run_check itself under the current convention)
        return f"real code raised {out.get('err')}: {str(out.get('trace', ''))[-300:]}" if isinstance(out, dict) else None
    if out.get("outside") and "base" not in out:
        return None  # the library rejected an out-of-quantifier (zero-size) input
    if case["kind"] == "box":
        return _oracle_box(case, out)
    if case["kind"] == "roi":
        return _oracle_roi(case, out) or _oracle_roi_pure(case, out)
    if case["kind"] == "pure":
        return _oracle_pure(case, out)
    return None


# --------------------------------------------------------------------------- generation

AXIS_ROTS = [[1, 0], [1, 1], [0, 1], [1, -1]]


def _rot(rng, big=False):
    if rng.random() < 0.15:
        return list(rng.choice(AXIS_ROTS))
    m = 1000 if big else 8
    while True:
        a, b = rng.randint(-m, m), rng.randint(-m, m)
        if a or b:
            return _reduce([a, b])


def _size(rng, lo=0.25, hi=8.0):
    return [core.dyadic(rng, lo, hi, 16), core.dyadic(rng, lo, hi, 16), core.dyadic(rng, 0.25, 4.0, 16)]


def _pos(rng, r=24.0, denom=16):
    return [core.dyadic(rng, -r, r, denom), core.dyadic(rng, -r, r, denom), core.dyadic(rng, -2.0, 2.0, denom)]


def _motion(rng, big=False):
    return {"rot": _rot(rng, big), "t": [core.dyadic(rng, -40, 40, 8), core.dyadic(rng, -40, 40, 8), core.dyadic(rng, -3, 3, 8)]}


def _local_offset(box, u, v):
    """box centre + R(u, v), rounded to a float"""
    c, s = rot_cs(*box["rot"])
    return [float(Fr(box["pos"][0]) + c * Fr(u) - s * Fr(v)), float(Fr(box["pos"][1]) + s * Fr(u) + c * Fr(v))]


def gen_box(rng, family):
    gt = {"pos": _pos(rng), "rot": _rot(rng), "size": _size(rng)}
    if family == "random":
        est = {"pos": [gt["pos"][0] + core.dyadic(rng, -6, 6, 16), gt["pos"][1] + core.dyadic(rng, -6, 6, 16), core.dyadic(rng, -2, 2, 16)],
               "rot": _rot(rng), "size": _size(rng)}
    elif family == "overlap":
        w, l, h = gt["size"]
        est = {"pos": [gt["pos"][0] + core.dyadic(rng, -1, 1, 32), gt["pos"][1] + core.dyadic(rng, -1, 1, 32), gt["pos"][2] + core.dyadic(rng, -0.5, 0.5, 32)],
               "rot": _reduce(rot_mul(gt["rot"], rng.choice([[1, 0], [16, 1], [16, -1], [8, 1], [40, 1], [1, 1], [0, 1]]))),
               "size": [max(0.0625, w + core.dyadic(rng, -0.5, 0.5, 16)), max(0.0625, l + core.dyadic(rng, -0.5, 0.5, 16)), max(0.0625, h + core.dyadic(rng, -0.5, 0.5, 16))]}
    elif family == "nested":
        gt["size"] = [core.dyadic(rng, 2, 8, 16), core.dyadic(rng, 2, 8, 16), core.dyadic(rng, 1, 4, 16)]
        w, l, h = gt["size"]
        ew, el, eh = core.dyadic(rng, 0.25, w / 2, 16), core.dyadic(rng, 0.25, l / 2, 16), core.dyadic(rng, 0.25, h / 2, 16)
        u = core.dyadic(rng, -(l - el) / 4, (l - el) / 4, 32)
        v = core.dyadic(rng, -(w - ew) / 4, (w - ew) / 4, 32)
        xy = _local_offset(gt, u, v)
        est = {"pos": [xy[0], xy[1], gt["pos"][2] + core.dyadic(rng, -(h - eh) / 4, (h - eh) / 4, 32)], "rot": list(gt["rot"]), "size": [ew, el, eh]}
        if rng.random() < 0.5:
            est, gt = gt, est
    elif family == "touching":
        gt["rot"] = list(rng.choice(AXIS_ROTS)) if rng.random() < 0.6 else gt["rot"]
        es = _size(rng)
        along_x = rng.random() < 0.5
        if along_x:
            u, v = (gt["size"][1] + es[1]) / 2 * rng.choice([-1, 1]), core.dyadic(rng, -1, 1, 16)
        else:
            u, v = core.dyadic(rng, -1, 1, 16), (gt["size"][0] + es[0]) / 2 * rng.choice([-1, 1])
        xy = _local_offset(gt, u, v)
        est = {"pos": [xy[0], xy[1], gt["pos"][2]], "rot": list(gt["rot"]), "size": es}
    elif family == "disjoint":
        es = _size(rng)
        r = math.hypot(gt["size"][0], gt["size"][1]) / 2 + math.hypot(es[0], es[1]) / 2
        ang = rng.random() * 2 * math.pi
        d = r + core.dyadic(rng, 0.125, 30, 8)
        est = {"pos": [gt["pos"][0] + round(d * math.cos(ang) * 16) / 16, gt["pos"][1] + round(d * math.sin(ang) * 16) / 16, core.dyadic(rng, -2, 2, 16)],
               "rot": _rot(rng), "size": es}
    elif family == "sliver":
        gt["size"] = [0.0625, 12.5, core.dyadic(rng, 0.5, 3, 16)]
        mode = rng.choice(["cross", "parallel", "box"])
        if mode == "cross":
            est = {"pos": [gt["pos"][0] + core.dyadic(rng, -2, 2, 32), gt["pos"][1] + core.dyadic(rng, -2, 2, 32), gt["pos"][2]],
                   "rot": _rot(rng), "size": [0.0625, 12.5, core.dyadic(rng, 0.5, 3, 16)]}
        elif mode == "parallel":
            xy = _local_offset(gt, core.dyadic(rng, -6, 6, 32), core.dyadic(rng, -0.0625, 0.0625, 256))
            est = {"pos": [xy[0], xy[1], gt["pos"][2]], "rot": list(gt["rot"]), "size": [0.0625, 12.5, gt["size"][2]]}
        else:
            est = {"pos": [gt["pos"][0] + core.dyadic(rng, -3, 3, 32), gt["pos"][1] + core.dyadic(rng, -3, 3, 32), gt["pos"][2]], "rot": _rot(rng), "size": _size(rng)}
        if rng.random() < 0.5:
            est, gt = gt, est
    elif family == "equal":
        est = {"pos": list(gt["pos"]), "rot": list(gt["rot"]), "size": list(gt["size"])}
    elif family == "axis":
        gt["rot"] = list(rng.choice(AXIS_ROTS))
        est = {"pos": [gt["pos"][0] + core.dyadic(rng, -4, 4, 16), gt["pos"][1] + core.dyadic(rng, -4, 4, 16), gt["pos"][2] + core.dyadic(rng, -1, 1, 16)],
               "rot": list(rng.choice(AXIS_ROTS)), "size": _size(rng)}
    elif family == "tie":
        # GT symmetric about an ego axis / centred on the ego: corner distances tie exactly
        mode = rng.choice(["x-axis", "y-axis", "origin", "diag", "edge-through-ego"])
        gt["rot"] = list(rng.choice(AXIS_ROTS)) if mode not in ("diag", "edge-through-ego") else [1, 0]
        if mode == "x-axis":
            gt["pos"][1] = 0.0
        elif mode == "y-axis":
            gt["pos"][0] = 0.0
        elif mode == "origin":
            gt["pos"][0] = gt["pos"][1] = 0.0
        elif mode == "edge-through-ego":
            # the side y = 0 of the GT lies on the ego's x axis: the left/right cross product is exactly 0
            gt["size"] = [core.dyadic(rng, 4, 8, 16), core.dyadic(rng, 0.5, 2, 16), gt["size"][2]]
            gt["pos"][1] = gt["size"][0] / 2 * rng.choice([-1, 1])
            gt["pos"][0] = core.dyadic(rng, 2, 6, 16) * rng.choice([-1, 1])
        else:
            gt["size"][0] = gt["size"][1]
            gt["pos"][1] = gt["pos"][0]
        est = {"pos": [gt["pos"][0] + core.dyadic(rng, -1, 1, 16), gt["pos"][1] + core.dyadic(rng, -1, 1, 16), gt["pos"][2]], "rot": _rot(rng), "size": _size(rng)}
    elif family == "zdisjoint":
        est = {"pos": [gt["pos"][0] + core.dyadic(rng, -0.5, 0.5, 16), gt["pos"][1] + core.dyadic(rng, -0.5, 0.5, 16), 0.0], "rot": _rot(rng), "size": _size(rng)}
        gap = rng.choice([0.0, 0.0, core.dyadic(rng, 0.0625, 2, 16)])  # touching in z or apart
        est["pos"][2] = gt["pos"][2] + rng.choice([-1, 1]) * ((gt["size"][2] + est["size"][2]) / 2 + gap)
    elif family == "large":
        gt = {"pos": [core.dyadic(rng, -1024, 1024, 8), core.dyadic(rng, -1024, 1024, 8), core.dyadic(rng, -8, 8, 8)], "rot": _rot(rng, True),
              "size": [core.dyadic(rng, 0.5, 30, 8), core.dyadic(rng, 0.5, 30, 8), core.dyadic(rng, 0.5, 6, 8)]}
        est = {"pos": [gt["pos"][0] + core.dyadic(rng, -10, 10, 8), gt["pos"][1] + core.dyadic(rng, -10, 10, 8), gt["pos"][2] + core.dyadic(rng, -2, 2, 8)],
               "rot": _rot(rng, True), "size": [core.dyadic(rng, 0.5, 30, 8), core.dyadic(rng, 0.5, 30, 8), core.dyadic(rng, 0.5, 6, 8)]}
    elif family == "degenerate":
        est = {"pos": list(gt["pos"]), "rot": _rot(rng), "size": _size(rng)}
        for bx in ((est, gt) if rng.random() < 0.5 else (gt,)):
            bx["size"][rng.choice([0, 1])] = 0.0
        if rng.random() < 0.3:
            est["size"][2] = 0.0
    else:
        raise ValueError(family)
    motion = _motion(rng, family == "large")
    return {"kind": "box", "family": family, "est": est, "gt": gt, "motion": motion}


FAMILIES = [("random", 6), ("overlap", 5), ("nested", 3), ("touching", 3), ("disjoint", 2), ("sliver", 3), ("equal", 2),
            ("axis", 3), ("tie", 3), ("zdisjoint", 2), ("large", 2), ("degenerate", 1)]

N_PURE_QUICK = 600

WINDOW_OFF = [-1, 0, 1, 2]
WINDOW_SIZE = [1, 2, 3]


def _window_rois():
    return [[x, y, w, h] for x in WINDOW_OFF for y in WINDOW_OFF for w in WINDOW_SIZE for h in WINDOW_SIZE]


def gen_roi_random(rng):
    big = rng.random() < 0.5
    m = 4000 if big else 64
    a = [rng.randint(-m // 4, m), rng.randint(-m // 4, m), rng.randint(1, m), rng.randint(1, m)]
    mode = rng.choice(["near", "free", "equal", "nested", "touch", "degenerate"] if rng.random() < 0.2 else ["near", "free", "nested", "touch"])
    if mode == "near":
        b = [a[0] + rng.randint(-a[2], a[2]), a[1] + rng.randint(-a[3], a[3]), max(1, a[2] + rng.randint(-a[2] // 2, a[2] // 2)), max(1, a[3] + rng.randint(-a[3] // 2, a[3] // 2))]
    elif mode == "free":
        b = [rng.randint(-m // 4, m), rng.randint(-m // 4, m), rng.randint(1, m), rng.randint(1, m)]
    elif mode == "equal":
        b = list(a)
    elif mode == "nested":
        w, h = rng.randint(1, a[2]), rng.randint(1, a[3])
        b = [a[0] + rng.randint(0, a[2] - w), a[1] + rng.randint(0, a[3] - h), w, h]
    elif mode == "touch":
        b = [a[0] + a[2], a[1] + rng.randint(-a[3], a[3]), rng.randint(1, m), rng.randint(1, m)]
        if rng.random() < 0.5:
            b = [a[0] + rng.randint(-a[2], a[2]), a[1] - b[3], b[2], b[3]]
    else:
        b = [a[0], a[1], 0, rng.choice([0, 3])]
        if rng.random() < 0.5:
            a = [a[0], a[1], 0, 0]
    if rng.random() < 0.5:
        a, b = b, a
    return {"kind": "roi", "family": mode, "est": a, "gt": b, "shift": [rng.randint(-500, 500), rng.randint(-500, 500)]}


CONTAINERS = [("f64", 5), ("f64-rows", 2), ("f64-ctor", 2), ("lib-converted", 3), ("lib-transform", 2), ("int", 2), ("list", 2), ("tuple", 1)]
ORDERS = {
    "cd-pd-iou": ["cd", "pd", "iou2d", "iou3d"],
    "iou-cd": ["iou2d", "iou3d", "cd", "pd", "iou2d", "iou3d"],
    "twice": ["cd", "cd", "pd", "pd", "iou2d", "iou2d", "iou3d", "iou3d"],
    "direct-then-swapped": ["cd", "cd~", "iou2d~", "iou3d~", "pd~", "cd", "pd"],
    "swapped-first": ["cd~", "cd", "iou2d", "pd", "iou3d", "iou2d~"],
    "pd-first": ["pd", "iou3d", "pd~", "iou3d~", "cd", "pd"],
    "result": ["R", "cd", "iou2d", "iou3d", "pd"],
    "result-twice": ["R", "R"],
    "result-swapped": ["R", "R~", "R"],
    "direct-then-result": ["cd", "R"],
    "iou-then-result": ["iou2d", "iou3d", "pd", "R", "R~"],
}
ALL_OPS = ["cd", "pd", "iou2d", "iou3d", "cd~", "pd~", "iou2d~", "iou3d~", "R", "R~"]
PURE_FAMILIES = [f for f, w in FAMILIES for _ in range(w) if f != "degenerate"]


def gen_pure(rng, family=None, container=None, order=None):
    c = gen_box(rng, family or rng.choice(PURE_FAMILIES))
    cont = container or rng.choice([k for k, w in CONTAINERS for _ in range(w)])
    if cont == "int":  # integer centres (an int array cannot hold anything else)
        for who in ("est", "gt"):
            c[who]["pos"] = [float(round(v)) for v in c[who]["pos"]]
    order = order or rng.choice(list(ORDERS) + ["random"] * 4)
    ops = list(ORDERS[order]) if order in ORDERS else [rng.choice(ALL_OPS) for _ in range(rng.randint(3, 8))]
    return {"kind": "pure", "family": c["family"], "container": cont, "order": order, "ops": ops, "est": c["est"], "gt": c["gt"], "motion": c["motion"]}


def corpus():
    cs = []
    # purity: the pair of the design-round probe and an identical pair, centres as float64 arrays / library-converted
    pe = {"pos": [12.0, 3.0, 0.75], "rot": [10, 1], "size": [2.0, 4.5, 1.5]}
    pg = {"pos": [12.5, 3.5, 1.0], "rot": [6, 1], "size": [2.0, 4.5, 1.5]}
    for cont, order in (("f64", "cd-pd-iou"), ("f64", "result"), ("lib-converted", "result-twice"), ("lib-transform", "direct-then-swapped"),
                        ("int", "twice"), ("list", "iou-cd"), ("f64-rows", "swapped-first"), ("f64-ctor", "result-swapped")):
        ip = (lambda b: dict(b, pos=[float(round(v)) for v in b["pos"]])) if cont == "int" else (lambda b: dict(b))
        cs.append({"kind": "pure", "family": "corpus", "container": cont, "order": order, "ops": list(ORDERS[order]), "est": ip(pe), "gt": ip(pg),
                   "motion": {"rot": [13, 2], "t": [100.0, 50.0, 0.0]}})
    cs.append({"kind": "pure", "family": "corpus", "container": "f64", "order": "result", "ops": list(ORDERS["result"]), "est": pe, "gt": dict(pe),
               "motion": {"rot": [1, 0], "t": [0.0, 0.0, 0.0]}})
    # hand-written corners: the probe pair of the design round, unit boxes of the repo's own tests, exact ties
    cs.append({"kind": "box", "family": "corpus", "est": {"pos": [1.0, 2.0, 0.5], "rot": [2, 1], "size": [2.0, 4.0, 1.5]},
               "gt": {"pos": [1.5, 2.0, 0.0], "rot": [1, 0], "size": [2.0, 4.0, 2.0]}, "motion": {"rot": [3, 1], "t": [5.0, -7.0, 1.0]}})
    cs.append({"kind": "box", "family": "corpus", "est": {"pos": [1.0, 1.0, 1.0], "rot": [1, 0], "size": [1.0, 1.0, 1.0]},
               "gt": {"pos": [1.0, 1.0, 1.0], "rot": [1, 0], "size": [1.0, 1.0, 1.0]}, "motion": {"rot": [1, 1], "t": [0.0, 0.0, 0.0]}})
    cs.append({"kind": "box", "family": "corpus", "est": {"pos": [0.0, 0.0, 0.0], "rot": [1, 0], "size": [2.0, 2.0, 2.0]},
               "gt": {"pos": [0.0, 0.0, 0.0], "rot": [1, 1], "size": [2.0, 2.0, 2.0]}, "motion": {"rot": [1, 2], "t": [1.0, 1.0, 0.0]}})
    # touching edge to edge, touching in a corner, touching in height
    cs.append({"kind": "box", "family": "corpus", "est": {"pos": [2.0, 0.0, 0.0], "rot": [1, 0], "size": [1.0, 2.0, 1.0]},
               "gt": {"pos": [4.0, 0.5, 0.0], "rot": [1, 0], "size": [1.0, 2.0, 1.0]}, "motion": {"rot": [1, 3], "t": [2.0, 0.0, 0.0]}})
    cs.append({"kind": "box", "family": "corpus", "est": {"pos": [2.0, 0.0, 0.0], "rot": [1, 0], "size": [1.0, 2.0, 1.0]},
               "gt": {"pos": [4.0, 1.0, 0.0], "rot": [1, 0], "size": [1.0, 2.0, 1.0]}, "motion": {"rot": [5, 3], "t": [2.0, 0.0, 0.0]}})
    cs.append({"kind": "box", "family": "corpus", "est": {"pos": [2.0, 0.0, 0.0], "rot": [1, 0], "size": [1.0, 2.0, 1.0]},
               "gt": {"pos": [2.0, 0.0, 1.5], "rot": [3, 1], "size": [1.0, 2.0, 2.0]}, "motion": {"rot": [5, 3], "t": [2.0, 0.0, 0.0]}})
    # sliver crossing a sliver at 45 degrees
    cs.append({"kind": "box", "family": "corpus", "est": {"pos": [3.0, 3.0, 0.0], "rot": [1, 0], "size": [0.0625, 12.5, 1.0]},
               "gt": {"pos": [3.0, 3.0, 0.0], "rot": [29, 12], "size": [0.0625, 12.5, 1.0]}, "motion": {"rot": [7, -2], "t": [-3.0, 11.0, 0.5]}})
    # zero-size boxes: ZeroDivisionError on the real code and in the model
    cs.append({"kind": "box", "family": "degenerate", "est": {"pos": [0.0, 0.0, 0.0], "rot": [1, 0], "size": [0.0, 0.0, 0.0]},
               "gt": {"pos": [0.0, 0.0, 0.0], "rot": [1, 0], "size": [0.0, 0.0, 0.0]}, "motion": {"rot": [1, 0], "t": [0.0, 0.0, 0.0]}})
    for a, b in [([0, 0, 2, 2], [1, 1, 2, 2]), ([3, -1, 5, 7], [3, -1, 5, 7]), ([0, 0, 1, 1], [1, 0, 1, 1]), ([0, 0, 3, 3], [1, 1, 1, 1]),
                 ([0, 0, 0, 0], [0, 0, 0, 0]), ([0, 0, 0, 0], [3, -1, 5, 7]), ([10, 10, 7, 9], [12, 11, 5, 3])]:
        cs.append({"kind": "roi", "family": "corpus", "est": a, "gt": b, "shift": [3, -4]})
    return cs


def generate(rng, tier):
    cases = []
    n_box = 1500 if tier == "quick" else 14000
    fams = [f for f, w in FAMILIES for _ in range(w)]
    for i in range(n_box):
        cases.append(gen_box(rng, fams[i % len(fams)]))
    W = _window_rois()
    pairs = [(a, b) for a in W for b in W]
    if tier == "quick":
        pairs = rng.sample(pairs, 1500)
    for a, b in pairs:
        cases.append({"kind": "roi", "family": "window", "est": list(a), "gt": list(b), "shift": [rng.randint(-5, 5), rng.randint(-5, 5)]})
    for _ in range(1500 if tier == "quick" else 12000):
        cases.append(gen_roi_random(rng))
    # purity stream: every container x every order at least once, then random combinations
    for cont, _w in CONTAINERS:
        for order in list(ORDERS) + ["random"]:
            cases.append(gen_pure(rng, None, cont, order))
    for _ in range(N_PURE_QUICK if tier == "quick" else 4000):
        cases.append(gen_pure(rng))
    return cases


# --------------------------------------------------------------------------- bookkeeping

def extra_evidence():
    n = len(_window_rois())
    return {"exhaustive_subdomain": f"thorough tier: all {n}x{n} ordered pairs of integer ROIs with offsets in {WINDOW_OFF}^2 and "
                                    f"sizes in {WINDOW_SIZE}^2 (quick tier: a seeded sample of 1500 of them)"}


def _step_vals(st):
    v = st["v"]
    return list(v.values()) if isinstance(v, dict) and "err" not in v else [v]


def branches(case, out):
    br = [f"{case['kind']}:{case.get('family')}"]
    if not isinstance(out, dict) or out.get("unexpected") or ("err" in out and "base" not in out and "steps" not in out):
        return br + ["impl-exception"]
    for u in out.get("unobservable", []):
        br.append("unobservable:" + u)
    if out.get("outside") and "base" not in out:
        return br + ["trivial", "skipped:outside-quantifier:rejected-by-the-library"]
    if case["kind"] == "pure":
        ops = case["ops"]
        if not _pure_in_domain(case):
            return br + ["trivial"]
        br += [f"pure:container={case['container']}", f"pure:order={case['order']}", f"pure:postype={out['postype'][0]}"]
        if any(o.endswith("~") for o in ops):
            br.append("pure:swapped-step")
        if any(o.startswith("R") for o in ops):
            br.append("pure:result-step")
        if len(set(ops)) < len(ops):
            br.append("pure:repeated-step")
        if ops and ops[0].rstrip("~") != "cd" and not ops[0].startswith("R"):
            br.append("pure:first-score-not-cd")
        br.append("pure:inputs-" + ("MUTATED" if out.get("mutated") else "unchanged"))
        if case["container"] in ("int", "list") and any(_raised(x) for st in out["steps"] for x in _step_vals(st)):
            br.append("skipped:pure:container-rejected-by-the-library")
        return br
    b = out["base"]
    if case["kind"] == "box":
        if not (pos_size(case["est"]) and pos_size(case["gt"])):
            br += ["trivial", "skipped:outside-quantifier:zero-size-box"]
            br.append("box:zero-size:raises" if _raised(b["iou2d"]) or _raised(b["iou3d"]) else "box:zero-size:returns")
            return br
        i2, i3 = b["iou2d"], b["iou3d"]
        if _num(i2):
            br.append("iou2d:" + ("zero" if i2 <= TOL else "one" if i2 >= 1 - TOL else "partial"))
        if _num(i3):
            br.append("iou3d:" + ("zero" if i3 <= TOL else "one" if i3 >= 1 - TOL else "partial"))
            if _num(i2) and i2 > TOL and i3 <= TOL:
                br.append("height:disjoint")
        if _num(b.get("inter")):
            A = min(case["est"]["size"][0] * case["est"]["size"][1], case["gt"]["size"][0] * case["gt"]["size"][1])
            if b["inter"] > TOL and abs(b["inter"] - A) <= 1e-9:
                br.append("inter:nested")
        Q = fp_rational(case["gt"])
        d2 = [p[0] * p[0] + p[1] * p[1] for p in Q]
        order = sorted(range(4), key=lambda i: d2[i])
        br.append("pd:nearest=" + "".join(map(str, sorted(order[:2]))))
        if d2[order[1]] == d2[order[2]]:
            br.append("pd:exact-tie")
            br.append(f"pd:tie:admissible-sides={len(_side_pairs(d2))}")
            if len({round(math.sqrt(float(v)), 9) for v in _pd2_candidates(fp_rational(case["est"]), Q)}) > 1:
                br.append("pd:tie:sides-differ-in-value")
        P = fp_rational(case["est"])
        cr = Q[order[0]][0] * Q[order[1]][1] - Q[order[0]][1] * Q[order[1]][0]
        br.append("pd:left-right=" + ("neg" if cr < 0 else "zero" if cr == 0 else "pos"))
        del P
    else:
        ra, rb = case["est"], case["gt"]
        if not (ra[2] > 0 and ra[3] > 0 and rb[2] > 0 and rb[3] > 0):
            br += ["trivial", "skipped:outside-quantifier:zero-size-roi"]
            br.append("roi:zero-size:raises" if _raised(b["iou2d"]) else "roi:zero-size:returns")
            return br
        if not out.get("centers"):
            br.append("unobservable:Roi.center")
        i2 = b["iou2d"]
        if _num(i2):
            br.append("roi-iou:" + ("zero" if i2 <= TOL else "one" if i2 >= 1 - TOL else "partial"))
        br.append("roi-center:" + ("odd-size" if (ra[2] % 2 or ra[3] % 2 or rb[2] % 2 or rb[3] % 2) else "even-size"))
    return br


def shrink(case):
    import copy

    if case["kind"] == "pure":
        ops = case["ops"]
        for i in range(len(ops)):
            if len(ops) > 1:
                c = copy.deepcopy(case); c["ops"] = ops[:i] + ops[i + 1:]; c["order"] = "shrunk"; yield c
    if case["kind"] in ("box", "pure"):
        ident = {"rot": [1, 0], "t": [0.0, 0.0, 0.0]}
        if case["motion"] != ident:
            c = copy.deepcopy(case); c["motion"] = ident; yield c
            c = copy.deepcopy(case); c["motion"]["t"] = [0.0, 0.0, 0.0]; yield c
            c = copy.deepcopy(case); c["motion"]["rot"] = [1, 0]; yield c
        for who in ("est", "gt"):
            if case[who]["rot"] != [1, 0]:
                c = copy.deepcopy(case); c[who]["rot"] = [1, 0]; yield c
            for i in range(3):
                if case[who]["pos"][i] != 0.0:
                    c = copy.deepcopy(case); c[who]["pos"][i] = 0.0; yield c
                    if float(round(case[who]["pos"][i])) != case[who]["pos"][i]:
                        c = copy.deepcopy(case); c[who]["pos"][i] = float(round(case[who]["pos"][i])); yield c
                if case[who]["size"][i] != 1.0:
                    c = copy.deepcopy(case); c[who]["size"][i] = 1.0; yield c
                    r = float(max(1, round(case[who]["size"][i])))
                    if r != case[who]["size"][i]:
                        c = copy.deepcopy(case); c[who]["size"][i] = r; yield c
    else:
        if case["shift"] != [0, 0]:
            c = copy.deepcopy(case); c["shift"] = [0, 0]; yield c
        for who in ("est", "gt"):
            for i in range(4):
                for v in ((0, 1) if i < 2 else (1, 2)):
                    if case[who][i] != v:
                        c = copy.deepcopy(case); c[who][i] = v; yield c


def search(rng, st, disagreements):
    """extra budget aimed at the families of the diverging cases"""
    fams = [d["case"].get("family") for d in disagreements if isinstance(d.get("case"), dict)]
    out = []
    known = {f for f, _ in FAMILIES}
    for f in fams[:10]:
        if f in known:
            out.extend(gen_box(rng, f) for _ in range(100))
    out.extend(gen_roi_random(rng) for _ in range(300))
    out.extend(gen_pure(rng) for _ in range(300))
    return out
