"""C07 — evaluation results do not depend on the coordinate frame of the objects.

Every generated scene (or frame sequence) is rendered twice with REAL objects: in the ego frame
(BASE_LINK) and in the map frame with the ego pose supplied as the frame's base_link->map transform.
Both renderings go through a fresh real PerceptionEvaluationManager (add_frame_result, get_scene_result).
Oracle = the property: the two executions agree (filtering, matching, per-object scores, TP/FP/FN/TN,
AP/APH, MOTA/MOTP/ID switches).  The Lean model (PEval.Model.FrameChange) renders the same scene
with exact rationals: its map coordinates, ego-relative positions and squared center distances are
compared with the real ones, and the theorems state the invariance for every scene and pose.
Scenes in which some decision lies within 1e-6 of its boundary are outside the property's
quantifier: they are detected on the ego rendering, counted and skipped.

"Any ego pose" includes real map coordinates (MGRS/UTM: 1e4 .. 1e6 m from the map origin).  The 'far' family
renders scenes with such ego translations and puts *twins* into them: distinct objects with the same label,
yaw, height and time stamp standing 1/1024 .. 1 m apart (ground truths: one matched / both unmatched / both
matched / matched but failing; estimates: two detections of one ground truth).  Everything that is decided
through object identity (`==`, `in`, `remove`: which unmatched ground truths become FN or TN, num_success /
num_fail, ground-truth counts per label) must come out the same in both renderings; the Lean model states why
(`samePose_toMap`: a rigid motion is injective) and its equality tables are compared with the real `==`.
"""
from __future__ import annotations

import math
from fractions import Fraction

from .. import builders as B
from .. import core

PROP = "C07"
RULE = (
    "random scenes (0..6 GT, 0..7 estimates around them, labels car/bicycle/pedestrian/motorbike/unknown, "
    "per-scene manager filter x/y or distance ring, critical filter, pass/fail thresholds, label policy, radii) x random rational "
    "ego pose (yaw from a rational point on the circle, dyadic translation up to 4096 m); tracking: 2..5 frame sequences with "
    "persistent uuids and moving ego; 'far' family: the same kind of scenes with ego translations of 5e4 .. 1e6 m (both axes, one axis, "
    "mixed signs) and 1-2 pairs of twins per frame (same label/yaw/height/time, 1/1024 .. 1 m apart; ground-truth twins with one / none / "
    "both matched or a failing match, estimate twins around one ground truth), detection and tracking. "
    "non-trivial = at least one estimate-GT pair survives the filters; distinct = distinct JSON"
)
THEOREMS = ["PEval.C07." + t for t in [
    "egoPos_toMap", "position_decision_frame_free", "filter_toMap", "centerDist2_toMap", "planeDist2_toMap", "iou_toMap",
    "aphWeight_toMap", "headingError_toMap", "scoreRow_toMap", "scoreRow_toMap_decisions", "scoreTable_toMap",
    "downstream_frame_free", "samePose_toMap", "containsPose_toMap", "sameTable_toMap", "distinct_toMap"]]
TRUSTED = [
    "pyquaternion yaw_pitch_roll / rotation composition and numpy matrix products (external contracts, exercised by every case)",
    "shapely polygon intersection (IoU scores are compared between the two renderings within 1e-6)",
]
ASSUMPTIONS = [
    "ego poses are yaw + planar translation (the property's quantifier), translations up to 2^20 m",
    "no two objects of a frame are equal under DynamicObject.__eq__ (twins are distinct objects: they differ in position by >= 1/1024 m)",
    "no decision within 1e-6 of its boundary, no two matches of a frame with center distances within 1e-6 of each other "
    "(margins are checked on the ego rendering; such scenes are counted as skipped)",
]

LABELS = ["car", "bicycle", "pedestrian", "motorbike"]
MEMBER = {"car": "CAR", "bicycle": "BICYCLE", "pedestrian": "PEDESTRIAN", "motorbike": "MOTORBIKE", "unknown": "UNKNOWN"}
MARGIN = 1e-6


# ----------------------------------------------------------------------------- generation

def _obj(rng, i, around=None, est=False):
    if around is None:
        x = round(rng.uniform(-45, 45), 3)
        y = round(rng.uniform(-45, 45), 3)
        yaw = round(rng.uniform(-math.pi, math.pi), 4)
        lab = rng.choice(LABELS)
        w, l, h = round(rng.uniform(0.5, 2.5), 2), round(rng.uniform(0.5, 6.0), 2), round(rng.uniform(1.0, 2.5), 2)
    else:
        x = round(around["x"] + rng.uniform(-1.5, 1.5), 3)
        y = round(around["y"] + rng.uniform(-1.5, 1.5), 3)
        yaw = round(around["yaw"] + rng.choice([0, 0, 0.1, -0.2, 1.0, math.pi]) + rng.uniform(-0.05, 0.05), 4)
        yaw = math.remainder(yaw, 2 * math.pi)
        lab = around["label"] if rng.random() < 0.75 else rng.choice(LABELS + ["unknown"])
        w = round(around["w"] * rng.uniform(0.8, 1.2), 2)
        l = round(around["l"] * rng.uniform(0.8, 1.2), 2)
        h = round(around["h"] * rng.uniform(0.8, 1.2), 2)
    o = {"id": i, "x": x, "y": y, "yaw": yaw, "label": lab, "w": w, "l": l, "h": h, "uuid": f"{'e' if est else 'g'}{i}"}
    if est:
        o["score"] = round(rng.uniform(0.05, 0.99), 4)
    return o


def _pose(rng):
    t = Fraction(rng.randint(-40, 40), rng.randint(1, 40))
    return {"t": core.q(t), "tx": rng.randint(-4096 * 4, 4096 * 4) / 4, "ty": rng.randint(-4096 * 4, 4096 * 4) / 4}


def _cfg(rng):
    c = {}
    if rng.random() < 0.6:
        c["filter"] = {"kind": "xy", "max_x": round(rng.uniform(30, 90), 2), "max_y": round(rng.uniform(30, 90), 2)}
    else:
        c["filter"] = {"kind": "dist", "max": round(rng.uniform(40, 90), 2), "min": round(rng.uniform(0, 8), 2)}
    if rng.random() < 0.5:
        c["crit"] = {"kind": "xy", "max_x": [round(rng.uniform(25, 70), 2) for _ in LABELS],
                     "max_y": [round(rng.uniform(25, 70), 2) for _ in LABELS]}
    else:
        c["crit"] = {"kind": "dist", "max": [round(rng.uniform(20, 80), 2) for _ in LABELS],
                     "min": [round(rng.uniform(0.5, 6), 2) for _ in LABELS]}
    c["pf_thr"] = [round(rng.uniform(0.3, 3.0), 2) for _ in LABELS]
    c["policy"] = rng.choice(["DEFAULT", "ALLOW_UNKNOWN", "ALLOW_ANY"])
    c["radii"] = None if rng.random() < 0.5 else [round(rng.uniform(1.0, 4.0), 2) for _ in LABELS]
    c["center_thr"] = round(rng.uniform(0.3, 2.0), 2)
    c["plane_thr"] = round(rng.uniform(0.5, 3.0), 2)
    c["iou2d_thr"] = round(rng.uniform(0.1, 0.7), 2)
    c["iou3d_thr"] = round(rng.uniform(0.1, 0.6), 2)
    return c


def _scene(rng, task):
    nf = 1 if task == "detection" else rng.randint(2, 5)
    ng = rng.choice([0, 1, 2, 3, 3, 4, 5, 6])
    gts = [_obj(rng, i) for i in range(ng)]
    frames = []
    est_ids = {}
    for f in range(nf):
        if f > 0:  # move the ground truth a little, keep uuids
            gts = [dict(g, x=round(g["x"] + rng.uniform(-1, 1), 3), y=round(g["y"] + rng.uniform(-1, 1), 3)) for g in gts]
            if gts and rng.random() < 0.2:
                gts = gts[:-1]
        ests = []
        k = 0
        for g in gts:
            if rng.random() < 0.85:
                e = _obj(rng, 100 * f + k, around=g, est=True)
                # persistent track ids with occasional switches
                key = g["uuid"]
                if key not in est_ids or rng.random() < 0.15:
                    est_ids[key] = f"t{len(est_ids)}_{f}"
                e["uuid"] = est_ids[key]
                ests.append(e)
                k += 1
        for _ in range(rng.randint(0, 2)):
            e = _obj(rng, 100 * f + k, est=True)
            e["uuid"] = f"x{f}_{k}"
            ests.append(e)
            k += 1
        rng.shuffle(ests)
        frames.append({"t": 1000 * (f + 1), "gts": [dict(g) for g in gts], "ests": ests, "pose": _pose(rng),
                       "history": rng.random() < 0.5})
    return {"kind": "scene", "task": task, "frames": frames, "cfg": _cfg(rng)}


# ---- the 'far' family: real map coordinates and twins ------------------------------------------------------
# The property quantifies over ALL ego poses; real maps put the ego 1e4 .. 1e6 m from the map origin.  At such
# magnitudes anything relative (tolerant comparisons, float32 storage, rounding to a fixed number of significant
# digits) behaves differently from the ego rendering of the same scene.  Twins make object identity matter: two
# distinct objects that agree in everything `__eq__` looks at except a small planar offset.

TWIN_OFFSETS = [1.0 / 1024, 1.0 / 256, 1.0 / 64, 1.0 / 16, 0.125, 0.2, 0.25, 0.3, 0.375, 0.4, 0.5, 0.5, 0.6, 0.625, 0.75, 0.875, 1.0]
TWIN_VARIANTS = ["one-matched", "one-matched", "one-matched", "both-unmatched", "both-matched", "matched-fails", "est-twins"]
FAR = 5e4  # |map coordinate| from which a relative tolerance of 1e-5 reaches 0.5 m


def _far_pose(rng):
    def big():
        lo, hi = rng.choice([(5e4, 1.3e5), (5e4, 1.3e5), (1.3e5, 1.05e6)])
        return rng.choice([1, -1]) * rng.randint(int(lo * 4), int(hi * 4)) / 4

    u = rng.random()
    if u < 0.75:
        tx, ty = big(), big()
    elif u < 0.9:
        tx, ty = (big(), rng.randint(-256, 256) / 4) if rng.random() < 0.5 else (rng.randint(-256, 256) / 4, big())
    else:
        tx, ty = rng.randint(-4096 * 4, 4096 * 4) / 4, rng.randint(-4096 * 4, 4096 * 4) / 4
    t = Fraction(rng.randint(-40, 40), rng.randint(1, 40)) if rng.random() < 0.85 else Fraction(0)
    return {"t": core.q(t), "tx": tx, "ty": ty}


def _slip(rng, k):
    """distance of a twin's estimate from its ground truth: pair `k` draws from its own band, so that the matches of
    two pairs of twins are never tied in the matcher's ranking"""
    return (rng.choice([0, 1, 2, 4]) + 8 * k) / 128 + (0.0 if rng.random() < 0.5 else round(rng.uniform(0.001, 0.006), 4))


def _add_twins(rng, fr, f, k, variant, track):
    """put one pair of twins (and the estimates of `variant`) into frame `fr`; `k` numbers the pair"""
    off = rng.choice(TWIN_OFFSETS)
    th = rng.choice([0.0, math.pi / 2]) if rng.random() < 0.4 else round(rng.uniform(-3, 3), 3)
    ux, uy = (1.0, 0.0) if th == 0.0 else (0.0, 1.0) if th == math.pi / 2 else (math.cos(th), math.sin(th))
    r, phi = rng.uniform(8.0, 17.0), rng.uniform(-math.pi, math.pi)  # inside every generated filter, away from the bounds
    lab = rng.choice(LABELS)
    small = lab in ("pedestrian", "bicycle") or rng.random() < 0.5
    a = {"id": 50 + 2 * k, "x": round(r * math.cos(phi), 3), "y": round(r * math.sin(phi), 3), "yaw": round(rng.uniform(-3.1, 3.1), 4),
         "label": lab, "w": round(rng.uniform(0.5, 0.9), 2) if small else round(rng.uniform(1.5, 2.2), 2),
         "l": round(rng.uniform(0.5, 0.9), 2) if small else round(rng.uniform(3.0, 5.0), 2), "h": round(rng.uniform(1.0, 2.0), 2),
         "uuid": f"gT{k}a"}
    b = dict(a, id=51 + 2 * k, x=a["x"] + off * ux, y=a["y"] + off * uy, uuid=f"gT{k}b")

    def est(g, i, slip, side, uuid):
        # beside `g`, on the side away from its twin (side = +1 for a, -1 for b): the nearest ground truth is `g`
        e = dict(g, id=i, x=g["x"] - side * slip * ux, y=g["y"] - side * slip * uy, uuid=uuid, score=rng.choice([0.5, 0.625, 0.75, 0.875]))
        if rng.random() < 0.3:
            e["yaw"] = round(math.remainder(g["yaw"] + rng.choice([0.05, -0.1, 3.0, math.pi]) + rng.uniform(-0.04, 0.04), 2 * math.pi), 4)
        return e

    first, s1 = (a, 1) if rng.random() < 0.5 else (b, -1)
    second, s2 = (b, -1) if first is a else (a, 1)
    base = 100 * f + 90 + 4 * k
    tid = (lambda n: f"tT{k}{n}") if track else (lambda n: f"xT{f}_{k}{n}")
    new_g, new_e = [a, b], []
    if variant in ("one-matched", "both-matched"):
        new_e.append(est(first, base, _slip(rng, k), s1, tid("p")))
    if variant == "both-matched":
        new_e.append(est(second, base + 1, _slip(rng, k) + 1 / 256, s2, tid("q")))
    if variant == "matched-fails":  # matched, but with another label or too far away to pass
        e = est(first, base, _slip(rng, k), s1, tid("p"))
        if rng.random() < 0.5:
            e["label"] = rng.choice([l for l in LABELS if l != lab])
        else:
            e["x"] -= s1 * 4.0 * ux
            e["y"] -= s1 * 4.0 * uy
        new_e.append(e)
    if variant == "est-twins":  # ONE ground truth, two detections of it that are twins of each other
        new_g = [a]
        e1 = est(a, base, _slip(rng, k), 1, tid("p"))
        e1["yaw"] = a["yaw"]
        e2 = dict(e1, id=base + 1, x=e1["x"] - off * ux, y=e1["y"] - off * uy, uuid=tid("q"))
        if rng.random() < 0.5:
            e2["score"] = e1["score"]
        new_e += [e1, e2] if rng.random() < 0.5 else [e2, e1]
    rng.shuffle(new_g)
    for g in new_g:  # adjacent or not, before or after the other ground truths
        at = rng.choice([0, len(fr["gts"])])
        fr["gts"][at:at] = [g]
    for e in new_e:
        at = rng.randint(0, len(fr["ests"]))
        fr["ests"][at:at] = [e]
    fr.setdefault("twins", []).append({"variant": variant, "ids": [g["id"] for g in new_g], "off": off})


def _far_scene(rng, task):
    """a light scene of the ordinary kind, far from the map origin, with twins in every frame"""
    c = _scene(rng, task)
    cfg = c["cfg"]
    if rng.random() < 0.6:  # the twins' matches mostly pass (one-matched = TP + FN), sometimes not
        cfg["pf_thr"] = [max(t, 1.0) for t in cfg["pf_thr"]]
    variants = [rng.choice(TWIN_VARIANTS) for _ in range(rng.choice([1, 1, 2]))]
    keep_g, keep_e = rng.choice([0, 1, 2, 3]), rng.choice([0, 1, 2])
    for f, fr in enumerate(c["frames"]):
        # the twins are the subject, the rest is context (kept away from them so that the variant is what it says)
        fr["gts"] = [g for g in fr["gts"] if math.hypot(g["x"], g["y"]) > 22.0][:keep_g]
        fr["ests"] = [e for e in fr["ests"] if math.hypot(e["x"], e["y"]) > 22.0][:keep_e]
        fr["pose"] = _far_pose(rng)
        for k, v in enumerate(variants):
            _add_twins(rng, fr, f, k, v, task == "tracking")
    c["far"] = True
    return c


def corpus():
    # F2 (fixed): map-frame results, critical filter narrower than the manager filter
    g = [{"id": 0, "x": 10.0, "y": 0.0, "yaw": 0.0, "label": "car", "w": 2.0, "l": 4.0, "h": 1.5, "uuid": "g0"},
         {"id": 1, "x": 50.0, "y": 0.0, "yaw": 0.0, "label": "car", "w": 2.0, "l": 4.0, "h": 1.5, "uuid": "g1"}]
    e = [dict(g[0], id=0, x=10.2, uuid="e0", score=0.9), dict(g[1], id=1, x=50.2, uuid="e1", score=0.8)]
    cfg = {"filter": {"kind": "xy", "max_x": 100.0, "max_y": 100.0},
           "crit": {"kind": "xy", "max_x": [30.0] * 4, "max_y": [30.0] * 4}, "pf_thr": [2.0] * 4,
           "policy": "ALLOW_UNKNOWN", "radii": None, "center_thr": 1.0, "plane_thr": 2.0, "iou2d_thr": 0.5, "iou3d_thr": 0.5}
    c1 = {"kind": "scene", "task": "detection",
          "frames": [{"t": 1000, "gts": g, "ests": e, "pose": {"t": "1/4", "tx": 1000.0, "ty": 2000.0}}], "cfg": cfg}
    # F3 (fixed): headings of opposite sign
    g2 = [dict(g[0], yaw=-0.3)]
    e2 = [dict(e[0], yaw=0.3)]
    c2 = {"kind": "scene", "task": "detection",
          "frames": [{"t": 1000, "gts": g2, "ests": e2, "pose": {"t": "-3/2", "tx": -512.0, "ty": 64.5}}], "cfg": cfg}
    # twins far from the map origin: two pedestrians side by side, one of them detected (TP + FN in every frame)
    ped = {"id": 0, "x": 12.0, "y": 3.0, "yaw": 0.3, "label": "pedestrian", "w": 0.6, "l": 0.6, "h": 1.7, "uuid": "g0"}
    cs = []
    for off, (tx, ty) in [((0.25, 0.5), (81234.5, 63210.75)), ((1.0 / 1024, 0.0), (-1000000.25, 987654.5)), ((0.0, 0.875), (64.0, -524288.5))]:
        g3 = [dict(ped), dict(ped, id=1, x=ped["x"] + off[0], y=ped["y"] + off[1], uuid="g1"), dict(g[0], id=2, x=20.0, y=-4.0, uuid="g2")]
        e3 = [dict(ped, id=0, x=11.95, y=2.98, uuid="e0", score=0.9), dict(g3[2], id=1, x=20.1, uuid="e1", score=0.8)]
        cs.append({"kind": "scene", "task": "detection", "far": True, "cfg": cfg,
                   "frames": [{"t": 1000, "gts": g3, "ests": e3, "pose": {"t": "1/3", "tx": tx, "ty": ty},
                               "twins": [{"variant": "one-matched", "ids": [0, 1], "off": math.hypot(*off)}]}]})
    return [c1, c2] + cs


def generate(rng, tier):
    n_det, n_trk = (70, 25) if tier == "quick" else (900, 300)
    cases = [_scene(rng, "detection") for _ in range(n_det)] + [_scene(rng, "tracking") for _ in range(n_trk)]
    # the far/twin family is drawn after the base cases, which therefore stay what they were for a given seed
    n_fdet, n_ftrk = (60, 14) if tier == "quick" else (700, 160)
    cases += [_far_scene(rng, "detection") for _ in range(n_fdet)] + [_far_scene(rng, "tracking") for _ in range(n_ftrk)]
    return cases


# ----------------------------------------------------------------------------- real executions

def _manager(case, frame):
    c = case["cfg"]
    d = {"evaluation_task": case["task"], "center_distance_thresholds": [c["center_thr"]],
         "plane_distance_thresholds": [c["plane_thr"]], "iou_2d_thresholds": [c["iou2d_thr"]],
         "iou_3d_thresholds": [c["iou3d_thr"]], "matching_label_policy": c["policy"], "max_matchable_radii": c["radii"]}
    if c["filter"]["kind"] == "xy":
        d.update(max_x_position=c["filter"]["max_x"], max_y_position=c["filter"]["max_y"])
    else:
        d.update(max_x_position=None, max_y_position=None, max_distance=c["filter"]["max"], min_distance=c["filter"]["min"])
    if case["task"] == "tracking":
        d["min_point_numbers"] = None
    return B.mk_manager(d, frame)


def _render(case, frame):
    """run the whole case in one coordinate frame; canonical summary"""
    m = _manager(case, frame)
    cfg = m.evaluator_config
    c = case["cfg"]
    if c["crit"]["kind"] == "xy":
        crit = B.crit_cfg(cfg, LABELS, max_x_position_list=c["crit"]["max_x"], max_y_position_list=c["crit"]["max_y"])
    else:
        crit = B.crit_cfg(cfg, LABELS, max_distance_list=c["crit"]["max"], min_distance_list=c["crit"]["min"])
    pf = B.pf_cfg(cfg, LABELS, c["pf_thr"])
    out = {"frames": []}
    for fr in case["frames"]:
        cc, ss = B.rat_rot(Fraction(fr["pose"]["t"]))
        e2m = B.ego2map(fr["pose"]["tx"], fr["pose"]["ty"], B.yaw_of(cc, ss))
        eid, gid = {}, {}

        def mk(o, est):
            ob = B.mk_obj(o["x"], o["y"], o["yaw"], MEMBER[o["label"]], o.get("score", 1.0), "base_link", o["uuid"],
                          fr["t"], (o["w"], o["l"], o["h"]))
            if frame == "map":
                ob = B.to_map(ob, e2m)
            (eid if est else gid)[id(ob)] = o["id"]
            return ob

        gts = [mk(o, False) for o in fr["gts"]]
        ests = [mk(o, True) for o in fr["ests"]]
        gt_frame = B.mk_frame(fr["t"], len(out["frames"]), gts, e2m, history=bool(fr.get("history")))
        res = m.add_frame_result(fr["t"], gt_frame, ests, crit, pf)

        def rid(r):
            g = r.ground_truth_object
            return [eid[id(r.estimated_object)], None if g is None else gid[id(g)]]

        f = {"pairs": [rid(r) for r in res.object_results],
             "gt_kept": [gid[id(g)] for g in res.frame_ground_truth.objects],
             "tp": [rid(r) for r in res.pass_fail_result.tp_object_results],
             "fp": [[eid[id(r.estimated_object)]] for r in res.pass_fail_result.fp_object_results],
             "fn": [gid[id(g)] for g in res.pass_fail_result.fn_objects],
             "tn": [gid[id(g)] for g in res.pass_fail_result.tn_objects],
             "num_success": int(res.pass_fail_result.get_num_success()), "num_fail": int(res.pass_fail_result.get_num_fail()),
             "scores": {}, "maps": _maps(res.metrics_score), "trk": _trk(res.metrics_score)}
        for r in res.object_results:
            if r.ground_truth_object is not None:
                f["scores"][str(rid(r))] = [r.center_distance.value, r.plane_distance.value, r.iou_2d.value, r.iou_3d.value,
                                            _aph(r), list(r.heading_error or ())[2:]]
        out["frames"].append(f)
    sc = m.get_scene_result()
    out["scene_maps"] = _maps(sc)
    out["scene_trk"] = _trk(sc)
    return out


def _aph(r):
    from perception_eval.evaluation.metrics.detection.tp_metrics import TPMetricsAph

    return TPMetricsAph().get_value(r)


def _num(x):
    return None if x is None or (isinstance(x, float) and (math.isnan(x) or math.isinf(x))) else float(x)


def _maps(ms):
    out = []
    for mp in ms.maps:
        out.append({"mode": mp.matching_mode.value, "map": _num(mp.map), "maph": _num(mp.maph),
                    "aps": [[a.target_labels[0].value, _num(a.ap), a.num_ground_truth] for a in mp.aps],
                    "aphs": [[a.target_labels[0].value, _num(a.ap)] for a in mp.aphs]})
    return out


def _trk(ms):
    out = []
    for ts in ms.tracking_scores:
        out.append({"mode": ts.matching_mode.value,
                    "clears": [[c.target_labels[0].value, _num(c.results.get("MOTA")), _num(c.results.get("MOTP")),
                                c.results.get("id_switch"), _num(c.tp), _num(c.fp), int(c.num_ground_truth)] for c in ts.clears]})
    return out


def _margins_ok(case):
    """every decision of the ego rendering is at least MARGIN away from its boundary"""
    c = case["cfg"]
    for fr in case["frames"]:
        objs = fr["gts"] + fr["ests"]
        for o in objs:
            d = math.hypot(o["x"], o["y"])
            bounds = []
            for spec in (c["filter"], ):
                if spec["kind"] == "xy":
                    bounds += [(abs(o["x"]), spec["max_x"]), (abs(o["y"]), spec["max_y"])]
                else:
                    bounds += [(d, spec["max"]), (d, spec["min"])]
            sp = c["crit"]
            if sp["kind"] == "xy":
                bounds += [(abs(o["x"]), v) for v in sp["max_x"]] + [(abs(o["y"]), v) for v in sp["max_y"]]
            else:
                bounds += [(d, v) for v in sp["max"]] + [(d, v) for v in sp["min"]]
            if any(abs(a - b) < 1e-4 for a, b in bounds):
                return False
    return True


MAX_PAIRS = 12


def _pair_obs(case):
    """first frame, outside the manager: both renderings of every object and of up to MAX_PAIRS pairs"""
    import numpy as np
    from perception_eval.common.schema import FrameID
    from perception_eval.common.transform import TransformDict
    from perception_eval.evaluation.result.object_result import DynamicObjectWithPerceptionResult as R

    fr = case["frames"][0]
    cc, ss = B.rat_rot(Fraction(fr["pose"]["t"]))
    e2m = B.ego2map(fr["pose"]["tx"], fr["pose"]["ty"], B.yaw_of(cc, ss))
    td = B.mk_transforms(e2m, history=bool(fr.get("history")))

    def both(o):
        a = B.mk_obj(o["x"], o["y"], o["yaw"], MEMBER[o["label"]], o.get("score", 1.0), "base_link", o["uuid"], fr["t"],
                     (o["w"], o["l"], o["h"]))
        m = B.to_map(a, e2m)
        back = td.transform((FrameID.MAP, FrameID.BASE_LINK), m.state.position)
        return a, m, [float(v) for v in m.state.position], [float(back[0]), float(back[1])], float(m.state.orientation.yaw_pitch_roll[0])

    ests = [both(o) for o in fr["ests"]]
    gts = [both(o) for o in fr["gts"]]
    pairs = []
    for i, (ea, em, *_r) in enumerate(ests):
        for j, (ga, gm, *_r2) in enumerate(gts):
            if len(pairs) >= MAX_PAIRS:
                break
            re_, rm = R(ea, ga), R(em, gm, transforms=td)
            corners = np.array(ga.get_footprint().exterior.coords)[:4, :2]
            d = sorted(float(np.hypot(*c)) for c in corners)

            def row(r):
                return [r.center_distance.value, r.plane_distance.value, r.iou_2d.value, r.iou_3d.value, _aph(r),
                        r.heading_error[2]]

            pairs.append({"i": i, "j": j, "ego": row(re_), "map": row(rm), "rank_margin": d[2] - d[1]})
    # who is equal to whom under DynamicObject.__eq__, in both renderings (index 0: ego object, 1: map object)
    same = {f"{side}_{nm}": [[bool(a[k] == b[k]) for b in objs] for a in objs]
            for side, objs in (("gts", gts), ("ests", ests)) for k, nm in ((0, "ego"), (1, "map"))}
    return {"ests": [e[2:] for e in ests], "gts": [g[2:] for g in gts], "pairs": pairs, "same": same}


def run_impl(case):
    try:
        ego = _render(case, "base_link")
        mp = _render(case, "map")
        obs = _pair_obs(case)
    except Exception as e:
        B.cleanup()
        import traceback

        return {"err": type(e).__name__, "trace": traceback.format_exc()[-1500:]}
    B.cleanup()
    # score margins: thresholds and ties, judged on the ego rendering
    near = not _margins_ok(case)
    c = case["cfg"]
    for f in ego["frames"]:
        vals = list(f["scores"].values())
        cds = sorted(v[0] for v in vals)
        if any(b - a < MARGIN for a, b in zip(cds, cds[1:])):
            near = True  # two matches tied in the matcher's ranking: the order of the results is not determined
        for v in vals:
            if v[5] and math.pi - abs(v[5][0]) < MARGIN:
                near = True  # exactly opposite headings: the sign of the yaw error is decided by rounding (headingError_toMap)
            thr = [(v[0], c["center_thr"]), (v[1], c["plane_thr"]), (v[2], c["iou2d_thr"]), (v[3], c["iou3d_thr"])]
            thr += [(v[1], t) for t in c["pf_thr"]]
            if c["radii"]:
                thr += [(v[0], t) for t in c["radii"]]
            if any(abs(a - b) < MARGIN for a, b in thr):
                near = True
    return {"ego": ego, "map": mp, "near": near, "obs": obs}


# ----------------------------------------------------------------------------- correspondence with the Lean model

def _mobj(o):
    return {"x": core.q(o["x"]), "y": core.q(o["y"]), "z": "0", "c": core.q(math.cos(o["yaw"])), "s": core.q(math.sin(o["yaw"])),
            "tau": core.q(o["yaw"] / math.pi), "w": core.q(o["w"]), "l": core.q(o["l"]), "h": core.q(o["h"])}


def model_requests(case, out):
    if "err" in out:
        return []
    fr = case["frames"][0]
    cc, ss = B.rat_rot(Fraction(fr["pose"]["t"]))
    pose = {"c": core.q(cc), "s": core.q(ss), "tau": core.q(B.yaw_of(cc, ss) / math.pi), "tx": core.q(fr["pose"]["tx"]),
            "ty": core.q(fr["pose"]["ty"]), "tz": "0"}
    return [{"pose": pose, "ests": [_mobj(o) for o in fr["ests"]], "gts": [_mobj(o) for o in fr["gts"]]}]


def _near(a, b, rel, ab):
    return abs(float(a) - float(b)) <= ab + rel * max(abs(float(a)), abs(float(b)))


def compare(case, out, resps):
    if "err" in out:
        return None
    r = resps[0]
    obs = out["obs"]
    for side in ("ests", "gts"):
        for k, (real, mod) in enumerate(zip(obs[side], r[side])):
            pos, back, yaw = real
            if not (_near(pos[0], Fraction(mod["x"]), 1e-12, 1e-7) and _near(pos[1], Fraction(mod["y"]), 1e-12, 1e-7)):
                return f"{side}[{k}] map position {pos} != model ({float(Fraction(mod['x']))}, {float(Fraction(mod['y']))})"
            if not (_near(back[0], Fraction(mod["ego_x"]), 0, 1e-6) and _near(back[1], Fraction(mod["ego_y"]), 0, 1e-6)):
                return f"{side}[{k}] ego-relative position from the real transform {back} != model"
            dy = (yaw / math.pi - float(Fraction(mod["tau"]))) % 2.0
            if min(dy, 2.0 - dy) > 1e-9:
                return f"{side}[{k}] map yaw {yaw} != model tau {float(Fraction(mod['tau']))}"
    for p in obs["pairs"]:
        for rendering, tol in (("ego", 1e-9), ("map", 1e-6)):
            m = r[rendering][p["i"]][p["j"]]
            real = p[rendering]
            checks = [("center", real[0] ** 2, m["center2"]), ("iou2d", real[2], m["iou2d"]), ("iou3d", real[3], m["iou3d"]),
                      ("aph", real[4], m["aph"])]
            if p["rank_margin"] > 1e-6:
                checks.append(("plane", real[1] ** 2, m["plane2"]))
            for name, a, b in checks:
                if not _near(a, Fraction(b), tol, tol):
                    return f"pair {p['i']},{p['j']} [{rendering}] {name}: real {a} != model {float(Fraction(b))}"
            ye = real[5] / math.pi
            my = float(Fraction(m["yaw_err"]))
            if not (abs(ye - my) <= 1e-9 or (abs(abs(ye) - 1) < 1e-9 and abs(abs(my) - 1) < 1e-9)):
                return f"pair {p['i']},{p['j']} [{rendering}] yaw error: real {ye} != model {my}"
    # object identity: `==` of the real objects vs the model's equality table (same pose) and the frame-free label
    fr = case["frames"][0]
    for side in ("gts", "ests"):
        labs = [o["label"] for o in fr[side]]
        for rendering in ("ego", "map"):
            real, mod = obs["same"][f"{side}_{rendering}"], r[f"same_{side}_{rendering}"]
            for i, row in enumerate(real):
                for j, v in enumerate(row):
                    want = bool(mod[i][j]) and labs[i] == labs[j]
                    if v != want:
                        return (f"{side}[{i}] == {side}[{j}] is {v} in the {rendering} rendering, the model says {want} "
                                f"(ids {fr[side][i]['id']}, {fr[side][j]['id']})")
    return None


# ----------------------------------------------------------------------------- oracle: the two executions agree

def _cmp_num(a, b, tol, path):
    if a is None or b is None:
        return None if a is b else f"{path}: {a} vs {b}"
    return None if abs(a - b) <= tol * max(1.0, abs(a), abs(b)) else f"{path}: {a} vs {b}"


def _cmp(a, b, tol, path=""):
    if isinstance(a, dict):
        if set(a) != set(b):
            return f"{path}: keys {sorted(a)} vs {sorted(b)}"
        for k in a:
            d = _cmp(a[k], b[k], tol, f"{path}/{k}")
            if d:
                return d
        return None
    if isinstance(a, (list, tuple)):
        if len(a) != len(b):
            return f"{path}: {a} vs {b}"
        for i, (x, y) in enumerate(zip(a, b)):
            d = _cmp(x, y, tol, f"{path}[{i}]")
            if d:
                return d
        return None
    if isinstance(a, float) or isinstance(b, float):
        return _cmp_num(a, b, tol, path)
    return None if a == b else f"{path}: {a} vs {b}"


def oracle(case, out):
    if "err" in out:
        return f"evaluation raised {out['err']}: {out.get('trace', '')[-400:]}"
    if out["near"]:
        return None
    d = _cmp(out["ego"], out["map"], 1e-6)
    if d is None:
        for p in out["obs"]["pairs"]:  # per-object scores of every pair, also the unmatched ones
            d = _cmp(p["ego"][:5], p["map"][:5], 1e-6, f"pair {p['i']},{p['j']}") if p["rank_margin"] > 1e-6 else None
            if d:
                break
    return None if d is None else "ego-frame and map-frame executions differ at " + d


def branches(case, out):
    if "err" in out:
        return ["err:" + out["err"]]
    if out["near"]:
        return ["trivial", "near-boundary-skipped"]
    br = [f"task:{case['task']}", f"filter:{case['cfg']['filter']['kind']}", f"crit:{case['cfg']['crit']['kind']}",
          f"policy:{case['cfg']['policy']}", f"radii:{'yes' if case['cfg']['radii'] else 'no'}"]
    npairs = sum(1 for f in out["ego"]["frames"] for p in f["pairs"] if p[1] is not None)
    ntp = sum(len(f["tp"]) for f in out["ego"]["frames"])
    nfn = sum(len(f["fn"]) for f in out["ego"]["frames"])
    dropped = sum(len(fr["gts"]) - len(f["gt_kept"]) for fr, f in zip(case["frames"], out["ego"]["frames"]))
    br += [f"pairs:{min(npairs, 5)}", f"tp:{min(ntp, 3)}", f"fn:{min(nfn, 3)}", f"gt-filtered-out:{min(dropped, 2)}"]
    if npairs == 0:
        br.append("trivial")
    br += _twin_branches(case, out)
    return br


def _twin_branches(case, out):
    """histogram keys of the far/twin family, from what the real code reported on the ego rendering"""
    br = []
    for fr, f in zip(case["frames"], out["ego"]["frames"]):
        tmax = max(abs(fr["pose"]["tx"]), abs(fr["pose"]["ty"]))
        both = min(abs(fr["pose"]["tx"]), abs(fr["pose"]["ty"])) >= FAR
        where = "far-both-axes" if both else "far-one-axis" if tmax >= FAR else "near-origin"
        br.append("ego-translation:" + ("<5e4" if tmax < FAR else "5e4-1.3e5" if tmax < 1.3e5 else ">1.3e5"))
        matched = {p[1] for p in f["pairs"] if p[1] is not None}
        tp_g = {p[1] for p in f["tp"]}
        for tw in fr.get("twins", []):
            ids = [i for i in tw["ids"] if any(g["id"] == i for g in fr["gts"])]
            if len(ids) < len(tw["ids"]):
                continue  # shrunk away
            off = tw["off"]
            br.append("twin:offset:" + ("<0.01" if off < 0.01 else "<0.2" if off < 0.19 else "0.2-0.5" if off <= 0.5 else "0.5-1.0"))
            if len(ids) == 1:
                n_e = sum(1 for p in f["pairs"] if p[1] == ids[0]) + len(f["fp"])
                br.append(f"twin:estimates:{where}")
                continue
            if not all(i in f["gt_kept"] for i in ids):
                br.append("twin:not-both-kept")
                continue
            n = sum(i in matched for i in ids)
            br.append(f"twin:gt:{['both-unmatched', 'one-matched', 'both-matched'][n]}:{where}")
            br.append(f"twin:gt:tp{sum(i in tp_g for i in ids)}-fn{sum(i in f['fn'] for i in ids)}:{where}")
    return br


def shrink(case):
    """drop a frame, an estimate or a ground truth"""
    fr = case["frames"]
    if len(fr) > 1:
        for i in range(len(fr)):
            yield dict(case, frames=fr[:i] + fr[i + 1:])
    for fi, f in enumerate(fr):
        for key in ("ests", "gts"):
            for i in range(len(f[key])):
                nf = dict(f, **{key: f[key][:i] + f[key][i + 1:]})
                yield dict(case, frames=fr[:fi] + [nf] + fr[fi + 1:])
