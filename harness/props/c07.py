"""C07 — evaluation results do not depend on the coordinate frame of the objects.

Every generated scene (or frame sequence) is rendered twice with REAL objects: in the ego frame
(BASE_LINK) and in the map frame with the ego pose supplied as the frame's base_link->map transform.
Both renderings go through a fresh real PerceptionEvaluationManager (add_frame_result, get_scene_result).
Oracle = the property: the two executions agree (filtering, matching, per-object scores, TP/FP/FN/TN,
AP/APH, MOTA/MOTP/ID switches).  The Lean model (PEval.Model.FrameChange) renders the same scene
with exact rationals: its map coordinates, ego-relative positions and squared center distances are
compared with the real ones, and the theorems state the invariance for every scene and pose.
Scenes in which some decision lies within 1e-6 of its boundary are outside the property's
quantifier: they are detected from the scene (full estimate x ground-truth table, see `_near_reasons`), counted and skipped.

"Any ego pose" includes real map coordinates (MGRS/UTM: 1e4 .. 1e6 m from the map origin).  The 'far' family
renders scenes with such ego translations and puts *twins* into them: distinct objects with the same label,
yaw, height and time stamp standing 1/1024 .. 1 m apart (ground truths: one matched / both unmatched / both
matched / matched but failing; estimates: two detections of one ground truth).  Everything that is decided
through object identity (`==`, `in`, `remove`: which unmatched ground truths become FN or TN, num_success /
num_fail, ground-truth counts per label) must come out the same in both renderings; the Lean model states why
(`samePose_toMap`: a rigid motion is injective) and its equality tables are compared with the real `==`.

"All filter configurations" and "all scenes" include 3-D scenes and every filter criterion.  The 'criteria' family
enumerates both range kinds (x/y box, distance ring) at both filter levels (evaluation config, critical object filter)
together with minimum point counts, confidence thresholds, target uuids and ignored attributes, in scenes whose
objects and ego have heights of several (hundred) metres; each criterion has objects it alone removes, and the
elevated ones are placed so that a 3-D norm in place of the BEV distance would change the kept set.  The Lean model
(`kept_toMap`, `bevDist2_toMap`) states that the kept set and the BEV distance are the same in both renderings of
any 3-D scene; the model's kept ground truths, heights and BEV distances are compared with the real ones.

End to end.  `PEval.FrameChange.evalFrame` (Model/FrameEval.lean) composes the stage models exactly as `add_frame_result` /
`evaluate_frame` do (manager filter -> score table -> `Matching.getObjectResults` -> critical filter and `__eq__` classes ->
`Pipeline.detectFrame` = `AP.frameMap` per configured mode + `PassFail.evaluateFrame` -> CLEAR inputs), reading a frame through
the branch the objects' frame id selects.  `evalFrame_toMap` / `clear_toMap` / `tracking_toMap` state that the map rendering and
the ego rendering of any frame / history give the same result.  For frame 0 of every scene with at most 64 estimate x
ground-truth pairs and no target_uuids (the uuid post-filter on object results is not part of the composed model) the driver
evaluates the model's whole frame in BOTH renderings from the exact geometry and the configuration alone; object results after
the critical filter, kept ground truths, TP / FP / FN / TN lists and AP / APH / mAP / mAPH of the four `Map`s are compared with
the two real frame results (`_cmp_eval`; histogram key `whole-frame-model:*`).
"""
from __future__ import annotations

import math
from fractions import Fraction

from .. import builders as B
from .. import core

PROP = "C07"
RULE = (
    "random scenes (0..6 GT, 0..7 estimates around them, labels car/bicycle/pedestrian/motorbike/unknown, "
    "per-scene manager filter x/y or distance ring, critical filter, pass/fail thresholds, label policy, radii) x random rational "
    "ego pose (yaw from a rational point on the circle, dyadic translation up to 4096 m); tracking: 2..5 frame sequences with "
    "persistent uuids and moving ego; 'far' family: the same kind of scenes with ego translations of 5e4 .. 1e6 m (both axes, one axis, "
    "mixed signs) and 1-2 pairs of twins per frame (same label/yaw/height/time, 1/1024 .. 1 m apart; ground-truth twins with one / none / "
    "both matched or a failing match, estimate twins around one ground truth), detection and tracking. "
    "'criteria' family (ENUMERATED, the seed only jitters placements inside safe bands): 3-D scenes (object heights -5 .. +16 m relative "
    "to the ego, ego height in the map -88 .. +612 m, one in seven 0) x range kind of the evaluation config (x/y box | distance ring, per-label "
    "lists) x range kind of the critical filter x {all optional criteria on, all off, each of min_point_numbers / confidence / target_uuids / "
    "ignore_attributes alone at either level; thorough: all but one, 18 random subsets} as detection scenes + tracking sequences; every scene holds, "
    "per level and criterion, ground truths/estimates which that criterion alone removes and companions at / inside its bound (x only, y only, "
    "between the two axis bounds, pair straddling the bound, beyond max, inside the min ring, elevated objects whose 3-D distance is on the other "
    "side of the ring bound than their BEV distance, point count below/at/above, confidence below/above, uuid not listed, ignored / other attribute, "
    "non-target label, unknown-labelled estimate); the histogram lists what happened to every witness. "
    "non-trivial = at least one estimate-GT pair survives the filters; distinct = distinct JSON"
)
THEOREMS = ["PEval.C07." + t for t in [
    "egoPos_toMap", "position_decision_frame_free", "filter_toMap", "centerDist2_toMap", "planeDist2_toMap", "iou_toMap",
    "aphWeight_toMap", "headingError_toMap", "scoreRow_toMap", "scoreRow_toMap_decisions", "scoreTable_toMap",
    "samePose_toMap", "containsPose_toMap", "sameTable_toMap", "distinct_toMap",
    "egoPos3_toMap", "bevDist2_toMap", "bevDist2_height_free", "filter2_renderMap", "kept_toMap",
    # end to end (Model/FrameEval.lean, Lemmas/FrameEval.lean): whole frame = manager filter -> score table -> Matching.getObjectResults
    # -> critical filter / __eq__ classes -> Pipeline.detectFrame (AP.frameMap, PassFail.evaluateFrame) -> CLEAR; histories
    "scoreRow_unsigned_toMap", "scoreTable_unsigned_toMap", "evalFrame_toMap", "evalFrame_toMap_components", "evalFrame_matched",
    "evalHistory_toMap", "clear_toMap", "tracking_toMap", "evalFrame_toMap_fails_J", "evalFrame_toMap_fails_G", "evalFrame_toMap_fails_E"]]
TRUSTED = [
    "pyquaternion yaw_pitch_roll / rotation composition and numpy matrix products (external contracts, exercised by every case)",
    "shapely polygon intersection (IoU scores are compared between the two renderings within 1e-6)",
]
ASSUMPTIONS = [
    "ego poses are yaw + translation (planar up to 2^20 m, height up to some hundred metres; no roll/pitch: the property's quantifier is translation and yaw)",
    "filter configurations are those the configs accept: one range kind per level (x/y box or min/max distance), scalar or per-label lists",
    "no two objects of a frame are equal under DynamicObject.__eq__ (twins are distinct objects: they differ in position by >= 1/1024 m)",
    "no decision within 1e-6 of its boundary (1e-4 for the range bounds).  Margins are computed from the scene itself on the FULL "
    "estimate x ground-truth table of every frame: every candidate's center distance against every max_matchable_radius, every two "
    "candidates against each other (tie of the matcher's arg-min), the 2nd/3rd corner rank of every ground truth (plane distance), "
    "|yaw error| against pi, and the four scores of the matched pairs against every threshold applied to them; a scene with any "
    "margin below tolerance is not judged by the oracle, is returned as 'skip' by compare (counted in skipped_near_boundary) and "
    "tagged skipped:near-boundary:<decision> in the histogram",
    "results are mapped back to the scene by uuid (unique per frame), never by Python identity; the id lists (pairs, kept ground truths, "
    "TP / FP / FN / TN) are compared as sets: the statement orders none of them",
]

LABELS = ["car", "bicycle", "pedestrian", "motorbike"]
MEMBER = {"car": "CAR", "bicycle": "BICYCLE", "pedestrian": "PEDESTRIAN", "motorbike": "MOTORBIKE", "unknown": "UNKNOWN", "bus": "BUS"}
MARGIN = 1e-6


# ----------------------------------------------------------------------------- generation

def _obj(rng, i, around=None, est=False):
    if around is None:
        x = round(rng.uniform(-45, 45), 3)
        y = round(rng.uniform(-45, 45), 3)
        yaw = round(rng.uniform(-math.pi, math.pi), 4)
        lab = rng.choice(LABELS)
        w, l, h = round(rng.uniform(0.5, 2.5), 2), round(rng.uniform(0.5, 6.0), 2), round(rng.uniform(1.0, 2.5), 2)
    else:
        x = round(around["x"] + rng.uniform(-1.5, 1.5), 3)
        y = round(around["y"] + rng.uniform(-1.5, 1.5), 3)
        yaw = round(around["yaw"] + rng.choice([0, 0, 0.1, -0.2, 1.0, math.pi]) + rng.uniform(-0.05, 0.05), 4)
        yaw = math.remainder(yaw, 2 * math.pi)
        lab = around["label"] if rng.random() < 0.75 else rng.choice(LABELS + ["unknown"])
        w = round(around["w"] * rng.uniform(0.8, 1.2), 2)
        l = round(around["l"] * rng.uniform(0.8, 1.2), 2)
        h = round(around["h"] * rng.uniform(0.8, 1.2), 2)
    o = {"id": i, "x": x, "y": y, "yaw": yaw, "label": lab, "w": w, "l": l, "h": h, "uuid": f"{'e' if est else 'g'}{i}"}
    if est:
        o["score"] = round(rng.uniform(0.05, 0.99), 4)
    return o


def _pose(rng):
    t = Fraction(rng.randint(-40, 40), rng.randint(1, 40))
    return {"t": core.q(t), "tx": rng.randint(-4096 * 4, 4096 * 4) / 4, "ty": rng.randint(-4096 * 4, 4096 * 4) / 4}


def _cfg(rng):
    c = {}
    if rng.random() < 0.6:
        c["filter"] = {"kind": "xy", "max_x": round(rng.uniform(30, 90), 2), "max_y": round(rng.uniform(30, 90), 2)}
    else:
        c["filter"] = {"kind": "dist", "max": round(rng.uniform(40, 90), 2), "min": round(rng.uniform(0, 8), 2)}
    if rng.random() < 0.5:
        c["crit"] = {"kind": "xy", "max_x": [round(rng.uniform(25, 70), 2) for _ in LABELS],
                     "max_y": [round(rng.uniform(25, 70), 2) for _ in LABELS]}
    else:
        c["crit"] = {"kind": "dist", "max": [round(rng.uniform(20, 80), 2) for _ in LABELS],
                     "min": [round(rng.uniform(0.5, 6), 2) for _ in LABELS]}
    c["pf_thr"] = [round(rng.uniform(0.3, 3.0), 2) for _ in LABELS]
    c["policy"] = rng.choice(["DEFAULT", "ALLOW_UNKNOWN", "ALLOW_ANY"])
    c["radii"] = None if rng.random() < 0.5 else [round(rng.uniform(1.0, 4.0), 2) for _ in LABELS]
    c["center_thr"] = round(rng.uniform(0.3, 2.0), 2)
    c["plane_thr"] = round(rng.uniform(0.5, 3.0), 2)
    c["iou2d_thr"] = round(rng.uniform(0.1, 0.7), 2)
    c["iou3d_thr"] = round(rng.uniform(0.1, 0.6), 2)
    return c


def _scene(rng, task):
    nf = 1 if task == "detection" else rng.randint(2, 5)
    ng = rng.choice([0, 1, 2, 3, 3, 4, 5, 6])
    gts = [_obj(rng, i) for i in range(ng)]
    frames = []
    est_ids = {}
    for f in range(nf):
        if f > 0:  # move the ground truth a little, keep uuids
            gts = [dict(g, x=round(g["x"] + rng.uniform(-1, 1), 3), y=round(g["y"] + rng.uniform(-1, 1), 3)) for g in gts]
            if gts and rng.random() < 0.2:
                gts = gts[:-1]
        ests = []
        k = 0
        for g in gts:
            if rng.random() < 0.85:
                e = _obj(rng, 100 * f + k, around=g, est=True)
                # persistent track ids with occasional switches
                key = g["uuid"]
                if key not in est_ids or rng.random() < 0.15:
                    # track ids are unique within a frame (results are mapped back to the scene by uuid): a running number,
                    # not len(est_ids) - two switches in one frame would otherwise get the same id
                    est_ids[key] = f"t{len(est_ids)}_{f}_{k}"
                e["uuid"] = est_ids[key]
                ests.append(e)
                k += 1
        for _ in range(rng.randint(0, 2)):
            e = _obj(rng, 100 * f + k, est=True)
            e["uuid"] = f"x{f}_{k}"
            ests.append(e)
            k += 1
        rng.shuffle(ests)
        frames.append({"t": 1000 * (f + 1), "gts": [dict(g) for g in gts], "ests": ests, "pose": _pose(rng),
                       "history": rng.random() < 0.5})
    return {"kind": "scene", "task": task, "frames": frames, "cfg": _cfg(rng)}


# ---- the 'far' family: real map coordinates and twins ------------------------------------------------------
# The property quantifies over ALL ego poses; real maps put the ego 1e4 .. 1e6 m from the map origin.  At such
# magnitudes anything relative (tolerant comparisons, float32 storage, rounding to a fixed number of significant
# digits) behaves differently from the ego rendering of the same scene.  Twins make object identity matter: two
# distinct objects that agree in everything `__eq__` looks at except a small planar offset.

TWIN_OFFSETS = [1.0 / 1024, 1.0 / 256, 1.0 / 64, 1.0 / 16, 0.125, 0.2, 0.25, 0.3, 0.375, 0.4, 0.5, 0.5, 0.6, 0.625, 0.75, 0.875, 1.0]
TWIN_VARIANTS = ["one-matched", "one-matched", "one-matched", "both-unmatched", "both-matched", "matched-fails", "est-twins"]
FAR = 5e4  # |map coordinate| from which a relative tolerance of 1e-5 reaches 0.5 m


def _far_pose(rng):
    def big():
        lo, hi = rng.choice([(5e4, 1.3e5), (5e4, 1.3e5), (1.3e5, 1.05e6)])
        return rng.choice([1, -1]) * rng.randint(int(lo * 4), int(hi * 4)) / 4

    u = rng.random()
    if u < 0.75:
        tx, ty = big(), big()
    elif u < 0.9:
        tx, ty = (big(), rng.randint(-256, 256) / 4) if rng.random() < 0.5 else (rng.randint(-256, 256) / 4, big())
    else:
        tx, ty = rng.randint(-4096 * 4, 4096 * 4) / 4, rng.randint(-4096 * 4, 4096 * 4) / 4
    t = Fraction(rng.randint(-40, 40), rng.randint(1, 40)) if rng.random() < 0.85 else Fraction(0)
    return {"t": core.q(t), "tx": tx, "ty": ty}


def _slip(rng, k):
    """distance of a twin's estimate from its ground truth: pair `k` draws from its own band, so that the matches of
    two pairs of twins are never tied in the matcher's ranking"""
    return (rng.choice([0, 1, 2, 4]) + 8 * k) / 128 + (0.0 if rng.random() < 0.5 else round(rng.uniform(0.001, 0.006), 4))


def _add_twins(rng, fr, f, k, variant, track):
    """put one pair of twins (and the estimates of `variant`) into frame `fr`; `k` numbers the pair"""
    off = rng.choice(TWIN_OFFSETS)
    th = rng.choice([0.0, math.pi / 2]) if rng.random() < 0.4 else round(rng.uniform(-3, 3), 3)
    ux, uy = (1.0, 0.0) if th == 0.0 else (0.0, 1.0) if th == math.pi / 2 else (math.cos(th), math.sin(th))
    r, phi = rng.uniform(8.0, 17.0), rng.uniform(-math.pi, math.pi)  # inside every generated filter, away from the bounds
    lab = rng.choice(LABELS)
    small = lab in ("pedestrian", "bicycle") or rng.random() < 0.5
    a = {"id": 50 + 2 * k, "x": round(r * math.cos(phi), 3), "y": round(r * math.sin(phi), 3), "yaw": round(rng.uniform(-3.1, 3.1), 4),
         "label": lab, "w": round(rng.uniform(0.5, 0.9), 2) if small else round(rng.uniform(1.5, 2.2), 2),
         "l": round(rng.uniform(0.5, 0.9), 2) if small else round(rng.uniform(3.0, 5.0), 2), "h": round(rng.uniform(1.0, 2.0), 2),
         "uuid": f"gT{k}a"}
    b = dict(a, id=51 + 2 * k, x=a["x"] + off * ux, y=a["y"] + off * uy, uuid=f"gT{k}b")

    def est(g, i, slip, side, uuid):
        # beside `g`, on the side away from its twin (side = +1 for a, -1 for b): the nearest ground truth is `g`
        e = dict(g, id=i, x=g["x"] - side * slip * ux, y=g["y"] - side * slip * uy, uuid=uuid, score=rng.choice([0.5, 0.625, 0.75, 0.875]))
        if rng.random() < 0.3:
            e["yaw"] = round(math.remainder(g["yaw"] + rng.choice([0.05, -0.1, 3.0, math.pi]) + rng.uniform(-0.04, 0.04), 2 * math.pi), 4)
        return e

    first, s1 = (a, 1) if rng.random() < 0.5 else (b, -1)
    second, s2 = (b, -1) if first is a else (a, 1)
    base = 100 * f + 90 + 4 * k
    tid = (lambda n: f"tT{k}{n}") if track else (lambda n: f"xT{f}_{k}{n}")
    new_g, new_e = [a, b], []
    if variant in ("one-matched", "both-matched"):
        new_e.append(est(first, base, _slip(rng, k), s1, tid("p")))
    if variant == "both-matched":
        new_e.append(est(second, base + 1, _slip(rng, k) + 1 / 256, s2, tid("q")))
    if variant == "matched-fails":  # matched, but with another label or too far away to pass
        e = est(first, base, _slip(rng, k), s1, tid("p"))
        if rng.random() < 0.5:
            e["label"] = rng.choice([l for l in LABELS if l != lab])
        else:
            e["x"] -= s1 * 4.0 * ux
            e["y"] -= s1 * 4.0 * uy
        new_e.append(e)
    if variant == "est-twins":  # ONE ground truth, two detections of it that are twins of each other
        new_g = [a]
        e1 = est(a, base, _slip(rng, k), 1, tid("p"))
        e1["yaw"] = a["yaw"]
        e2 = dict(e1, id=base + 1, x=e1["x"] - off * ux, y=e1["y"] - off * uy, uuid=tid("q"))
        if rng.random() < 0.5:
            e2["score"] = e1["score"]
        new_e += [e1, e2] if rng.random() < 0.5 else [e2, e1]
    rng.shuffle(new_g)
    for g in new_g:  # adjacent or not, before or after the other ground truths
        at = rng.choice([0, len(fr["gts"])])
        fr["gts"][at:at] = [g]
    for e in new_e:
        at = rng.randint(0, len(fr["ests"]))
        fr["ests"][at:at] = [e]
    fr.setdefault("twins", []).append({"variant": variant, "ids": [g["id"] for g in new_g], "off": off})


def _far_scene(rng, task):
    """a light scene of the ordinary kind, far from the map origin, with twins in every frame"""
    c = _scene(rng, task)
    cfg = c["cfg"]
    if rng.random() < 0.6:  # the twins' matches mostly pass (one-matched = TP + FN), sometimes not
        cfg["pf_thr"] = [max(t, 1.0) for t in cfg["pf_thr"]]
    variants = [rng.choice(TWIN_VARIANTS) for _ in range(rng.choice([1, 1, 2]))]
    keep_g, keep_e = rng.choice([0, 1, 2, 3]), rng.choice([0, 1, 2])
    for f, fr in enumerate(c["frames"]):
        # the twins are the subject, the rest is context (kept away from them so that the variant is what it says)
        fr["gts"] = [g for g in fr["gts"] if math.hypot(g["x"], g["y"]) > 22.0][:keep_g]
        fr["ests"] = [e for e in fr["ests"] if math.hypot(e["x"], e["y"]) > 22.0][:keep_e]
        fr["pose"] = _far_pose(rng)
        for k, v in enumerate(variants):
            _add_twins(rng, fr, f, k, v, task == "tracking")
    c["far"] = True
    return c


# ---- the 'criteria' family: full 3-D content, every filter criterion, both filter levels ---------------------
# Real scenes are not flat and real configurations use more than a range: objects stand metres above or below the
# ego, the ego's height in the map is not zero, and both the evaluation config and the critical object filter may
# carry an x/y box OR a distance ring, minimum point counts, confidence thresholds, target uuids and ignored
# attributes.  Each scene of this family holds, for EVERY criterion of BOTH levels, objects that this criterion and
# only this criterion removes (plus companions at / just inside the bound that it must keep), placed so that the
# kept set changes if a height leaks into a planar decision (3-D norm instead of the BEV distance, map height not
# reduced by the ego's) or if a criterion is skipped or applied twice in one rendering only.  The structure is
# ENUMERATED (range kinds of the two levels x task x which optional criteria are switched on); `rng` only jitters
# thresholds and placements inside bands that keep every decision >= 0.5 m (or one point, 0.1 confidence) away
# from its bound.
CRITERIA = ["attr", "min_pts", "conf", "uuid"]  # optional criteria of a level (labels and the range are always on)
SWITCHES = [f"{lv}:{c}" for lv in ("mgr", "crit") for c in CRITERIA]
LOOSE, TIGHT = ("pedestrian", "motorbike"), ("car", "bicycle")  # critical filter wider / narrower than the config's
HEIGHTS = [0.0, 1.25, -2.5, 4.0, -0.75, 7.5, 2.0, -5.0, 0.5, 3.25, -1.5, 6.0]
EGO_Z = [37.5, -12.25, 151.5, 4.75, -88.0, 612.25, 0.0]
SIZES = {"car": (1.9, 4.5, 1.6), "bicycle": (0.7, 1.8, 1.5), "pedestrian": (0.6, 0.7, 1.7), "motorbike": (0.8, 2.1, 1.5),
         "bus": (2.6, 10.0, 3.2), "unknown": (1.0, 1.0, 1.0)}
MGR_PTS, CRIT_PTS = [3, 2, 4, 5], [6, 5, 0, 0]
MGR_CONF, CRIT_CONF = [0.3, 0.35, 0.4, 0.25], [0.55, 0.6, 0.1, 0.05]
INNER = [(13.5, 30.0 * k + 7.0) for k in range(12)] + [(18.5, 22.5 * k + 3.0) for k in range(16)]  # (radius, degrees)


def criteria_masks(tier, rng):
    """which optional criteria are on: all, none, each alone (thorough tier: + all but one, + random subsets)"""
    n = len(SWITCHES)
    masks = [[True] * n, [False] * n]
    masks += [[i == k for i in range(n)] for k in range(n)]
    if tier != "quick":
        masks += [[i != k for i in range(n)] for k in range(n)]
        masks += [[rng.random() < 0.5 for _ in range(n)] for _ in range(18)]
    return masks


def _criteria_scene(rng, fk, ck, task, mask, idx):
    on = {s: bool(m) for s, m in zip(SWITCHES, mask)}
    qj = lambda w: rng.randint(-int(w * 4), int(w * 4)) / 4.0  # noqa: E731  quarter-metre jitter
    li = {lab: i for i, lab in enumerate(LABELS)}
    if fk == "xy":
        flt = {"kind": "xy", "max_x": [60.0 + qj(1.5) for _ in LABELS], "max_y": [40.0 + qj(1.5) for _ in LABELS]}
    else:
        flt = {"kind": "dist", "max": [60.0 + qj(1.5) for _ in LABELS], "min": [6.0 + qj(0.5) for _ in LABELS]}
    if ck == "xy":
        crit = {"kind": "xy", "max_x": [v + qj(1.5) for v in (44.0, 38.0, 90.0, 85.0)], "max_y": [v + qj(1.5) for v in (30.0, 26.0, 90.0, 85.0)]}
    else:
        crit = {"kind": "dist", "max": [v + qj(1.5) for v in (45.0, 40.0, 85.0, 80.0)], "min": [v + qj(0.5) for v in (10.0, 11.0, 2.0, 3.0)]}
    gts, ests, placed = [], [], []
    hcyc = [HEIGHTS[(idx + k) % len(HEIGHTS)] for k in range(len(HEIGHTS))]

    def put(name, lab, x, y, z=None, pc=10, attrs=None, score=None, gt=True, est=True, est_lab=None, est_at=None):
        """one ground truth and/or the estimate on it; the k-th pair is a_k = 0.04 (k + 1) + odd/1024 apart"""
        k = len(placed)
        z = hcyc[k % len(hcyc)] if z is None else z
        w, l, h = SIZES[lab]
        yaw = round(rng.uniform(-math.pi, math.pi), 4)
        placed.append((x, y))
        g = {"id": k, "x": round(x, 3), "y": round(y, 3), "z": z, "yaw": yaw, "label": lab, "w": w, "l": l, "h": h,
             "uuid": f"g_{name}", "pc": pc, "role": name}
        if attrs:
            g["attrs"] = list(attrs)
        if gt:
            gts.append(g)
        if est:
            a = 0.04 * (k + 1) + rng.choice([1, 3, 5, 7]) / 1024.0
            th = rng.uniform(-math.pi, math.pi)
            ex, ey = (g["x"] + a * math.cos(th), g["y"] + a * math.sin(th)) if est_at is None else est_at
            e = dict(g, id=k, x=round(ex, 4), y=round(ey, 4), z=z + (0.25 if k % 3 == 2 else 0.0), uuid=f"t_{name}",
                     label=est_lab or lab, score=score if score is not None else rng.choice([0.7, 0.75, 0.8, 0.85, 0.9, 0.95]),
                     yaw=round(math.remainder(yaw + rng.choice([0.0, 0.05, -0.1, 0.3]), 2 * math.pi), 4))
            e.pop("attrs", None)
            e.pop("pc", None)
            ests.append(e)

    def polar(r, deg):
        return r * math.cos(math.radians(deg)), r * math.sin(math.radians(deg))

    s1, s2 = rng.choice([1, -1]), rng.choice([1, -1])
    for lv, spec, group, rot in (("mgr", flt, LOOSE, 0.0), ("crit", crit, TIGHT, -8.0)):
        lab = group[idx % 2]
        i = li[lab]
        zs = rng.choice([1, -1])
        if spec["kind"] == "xy":
            X, Y = spec["max_x"][i], spec["max_y"][i]
            put(f"{lv}-x-out", lab, s1 * (X + 3.0), s2 * 10.0)
            put(f"{lv}-y-out", lab, -s1 * 15.0, s2 * (Y + 3.0))
            if X - Y >= 4.0:
                put(f"{lv}-between-axes", lab, s1 * (X + Y) / 2.0, -s2 * 20.0)
            gx, gy = -s1 * (X - 0.75), s2 * Y / 2.0
            put(f"{lv}-straddle", lab, gx, gy, est_at=(-s1 * (X + 0.75), gy))
        else:
            R, r0 = spec["max"][i], spec["min"][i]
            far = [20.0, 200.0] if lv == "mgr" else [12.0, 192.0]
            near = [100.0, 220.0, 340.0] if lv == "mgr" else [40.0, 160.0, 280.0]
            if s1 < 0:
                far = [a + 180.0 for a in far]
            put(f"{lv}-beyond-max", lab, *polar(R + 3.0, far[0] + rot * 0), z=0.5)
            put(f"{lv}-high-inside-max", lab, *polar(R - 1.0, far[1]), z=zs * 16.0)
            put(f"{lv}-below-min-flat", lab, *polar(r0 - 2.0, near[0]), z=0.25)
            put(f"{lv}-high-below-min", lab, *polar(r0 - 1.5, near[1]), z=-zs * 7.5)
            put(f"{lv}-just-above-min", lab, *polar(r0 + 1.25, near[2]), z=-0.5)
    # everything else stands in the ring 13 .. 19 m, inside every range of both levels for every label
    slots = INNER[idx % len(INNER):] + INNER[:idx % len(INNER)]

    def inner(name, lab, **kw):
        while slots:
            r, deg = slots.pop(0)
            x, y = polar(r + qj(0.25), deg)
            if all(math.hypot(x - px, y - py) >= 5.0 for px, py in placed):
                return put(name, lab, x, y, **kw)
        raise RuntimeError("no free slot")

    # a criterion that is switched on gets its full set of witnesses (below / at / above its bound), one that is
    # switched off only the object it would remove (which now has to stay in both renderings)
    lm, lc = LOOSE[(idx // 2) % 2], TIGHT[(idx // 2) % 2]
    for lv, lab, pts in (("mgr", lm, MGR_PTS), ("crit", lc, CRIT_PTS)):
        t = pts[li[lab]]
        inner(f"{lv}-pts-below", lab, pc=t - 1)
        if on[f"{lv}:min_pts"]:
            inner(f"{lv}-pts-at", lab, pc=t)
            inner(f"{lv}-pts-above", lab, pc=t + rng.randint(1, 40))
    inner("mgr-conf-below", lm, score=round(MGR_CONF[li[lm]] - 0.15, 2))
    if on["mgr:conf"]:
        inner("mgr-conf-above", lm, score=round(MGR_CONF[li[lm]] + 0.15, 2))
    inner("crit-conf-below", lc, score=round(CRIT_CONF[li[lc]] - 0.1, 2))  # above the evaluation config's threshold
    if on["crit:conf"]:
        inner("crit-conf-above", lc, score=round(CRIT_CONF[li[lc]] + 0.1, 2))
    inner("mgr-uuid", lm)
    inner("crit-uuid", lc)
    inner("mgr-attr", lm, attrs=["parked"])
    inner("crit-attr", lc, attrs=["occluded", "moving"])
    if on["mgr:attr"] or on["crit:attr"]:
        inner("other-attr", lc, attrs=["moving"])
    inner("label-bus", "bus")
    inner("unknown-est", "car", est_lab="unknown")
    inner("plain", rng.choice(TIGHT))
    inner("lonely-gt", rng.choice(LABELS), est=False)
    inner("lonely-est", rng.choice(LABELS), gt=False)
    all_uuids = [g["uuid"] for g in gts]
    cfg = _cfg(rng)
    cfg["filter"], cfg["crit"] = flt, crit
    if rng.random() < 0.7:
        cfg["radii"] = [round(rng.uniform(2.5, 4.0), 2) for _ in LABELS]  # mostly: an estimate matches its own ground truth or nothing
    cfg["min_pts"] = list(MGR_PTS) if on["mgr:min_pts"] else ([0, 0, 0, 0] if task == "detection" else None)
    cfg["conf"] = list(MGR_CONF) if on["mgr:conf"] else None
    cfg["uuids"] = [u for u in all_uuids if u != "g_mgr-uuid"] if on["mgr:uuid"] else None
    cfg["ignore"] = ["parked"] if on["mgr:attr"] else None
    crit["min_pts"] = list(CRIT_PTS) if on["crit:min_pts"] else None
    crit["conf"] = list(CRIT_CONF) if on["crit:conf"] else None
    crit["uuids"] = [u for u in all_uuids if u != "g_crit-uuid"] if on["crit:uuid"] else None
    crit["ignore"] = ["occluded"] if on["crit:attr"] else None
    frames = []
    for f in range(1 if task == "detection" else 2):
        if f > 0:  # everything drifts by at most 0.25 m (all bounds are >= 0.5 m away), one track changes its id
            dx, dy = rng.choice([-0.25, -0.125, 0.125, 0.25]), rng.choice([-0.25, -0.125, 0.125, 0.25])
            gts = [dict(g, x=round(g["x"] + dx, 4), y=round(g["y"] + dy, 4)) for g in gts]
            ests = [dict(e, x=round(e["x"] + dx, 4), y=round(e["y"] + dy, 4)) for e in ests]
            ests = [dict(e, uuid=e["uuid"] + "'") if e["role"] == "plain" else e for e in ests]
        order = list(ests)
        rng.shuffle(order)
        pose = _pose(rng) if (idx + f) % 5 else _far_pose(rng)
        pose["tz"] = EGO_Z[(idx + 3 * f) % len(EGO_Z)]
        frames.append({"t": 1000 * (f + 1), "gts": [dict(g) for g in gts], "ests": order, "pose": pose, "history": (idx + f) % 3 == 0})
    return {"kind": "scene", "family": "criteria", "task": task, "frames": frames, "cfg": cfg,
            "on": [s for s in SWITCHES if on[s]]}


def _criteria_cases(rng, tier):
    """every mask x both range kinds at both levels as a detection scene, plus one tracking sequence per mask whose
    range kinds rotate (thorough tier: tracking for every combination)"""
    cases, idx = [], 0
    kinds = [(fk, ck) for fk in ("xy", "dist") for ck in ("xy", "dist")]
    for m, mask in enumerate(criteria_masks(tier, rng)):
        for k, (fk, ck) in enumerate(kinds):
            cases.append(_criteria_scene(rng, fk, ck, "detection", mask, idx))
            idx += 1
            if tier != "quick" or k == m % 4:
                cases.append(_criteria_scene(rng, fk, ck, "tracking", mask, idx))
                idx += 1
    return cases


def corpus():
    # F2 (fixed): map-frame results, critical filter narrower than the manager filter
    g = [{"id": 0, "x": 10.0, "y": 0.0, "yaw": 0.0, "label": "car", "w": 2.0, "l": 4.0, "h": 1.5, "uuid": "g0"},
         {"id": 1, "x": 50.0, "y": 0.0, "yaw": 0.0, "label": "car", "w": 2.0, "l": 4.0, "h": 1.5, "uuid": "g1"}]
    e = [dict(g[0], id=0, x=10.2, uuid="e0", score=0.9), dict(g[1], id=1, x=50.2, uuid="e1", score=0.8)]
    cfg = {"filter": {"kind": "xy", "max_x": 100.0, "max_y": 100.0},
           "crit": {"kind": "xy", "max_x": [30.0] * 4, "max_y": [30.0] * 4}, "pf_thr": [2.0] * 4,
           "policy": "ALLOW_UNKNOWN", "radii": None, "center_thr": 1.0, "plane_thr": 2.0, "iou2d_thr": 0.5, "iou3d_thr": 0.5}
    c1 = {"kind": "scene", "task": "detection",
          "frames": [{"t": 1000, "gts": g, "ests": e, "pose": {"t": "1/4", "tx": 1000.0, "ty": 2000.0}}], "cfg": cfg}
    # F3 (fixed): headings of opposite sign
    g2 = [dict(g[0], yaw=-0.3)]
    e2 = [dict(e[0], yaw=0.3)]
    c2 = {"kind": "scene", "task": "detection",
          "frames": [{"t": 1000, "gts": g2, "ests": e2, "pose": {"t": "-3/2", "tx": -512.0, "ty": 64.5}}], "cfg": cfg}
    # twins far from the map origin: two pedestrians side by side, one of them detected (TP + FN in every frame)
    ped = {"id": 0, "x": 12.0, "y": 3.0, "yaw": 0.3, "label": "pedestrian", "w": 0.6, "l": 0.6, "h": 1.7, "uuid": "g0"}
    cs = []
    for off, (tx, ty) in [((0.25, 0.5), (81234.5, 63210.75)), ((1.0 / 1024, 0.0), (-1000000.25, 987654.5)), ((0.0, 0.875), (64.0, -524288.5))]:
        g3 = [dict(ped), dict(ped, id=1, x=ped["x"] + off[0], y=ped["y"] + off[1], uuid="g1"), dict(g[0], id=2, x=20.0, y=-4.0, uuid="g2")]
        e3 = [dict(ped, id=0, x=11.95, y=2.98, uuid="e0", score=0.9), dict(g3[2], id=1, x=20.1, uuid="e1", score=0.8)]
        cs.append({"kind": "scene", "task": "detection", "far": True, "cfg": cfg,
                   "frames": [{"t": 1000, "gts": g3, "ests": e3, "pose": {"t": "1/3", "tx": tx, "ty": ty},
                               "twins": [{"variant": "one-matched", "ids": [0, 1], "off": math.hypot(*off)}]}]})
    # 3-D corner cases.  (a) distance ring at both levels, ego 37.5 m above the map origin: a car on an overpass (6.7 m
    # away in bird's-eye view, 7 m above the ego: inside the minimum distance, 3-D distance outside it), a car on a ramp
    # just inside the maximum distance (58 m, 16 m up: 3-D distance beyond it), a car on the road
    car = dict(g[0])
    g4 = [dict(car, id=0, x=6.0, y=3.0, z=7.0, uuid="g0"), dict(car, id=1, x=-58.0, y=0.5, z=16.0, uuid="g1"),
          dict(car, id=2, x=15.0, y=-4.0, z=-0.5, uuid="g2")]
    e4 = [dict(o, id=o["id"], x=o["x"] + 0.125 * (o["id"] + 1), uuid=f"e{o['id']}", score=0.9) for o in g4]
    ring = dict(cfg, filter={"kind": "dist", "max": 60.0, "min": 8.0},
                crit={"kind": "dist", "max": [59.0] * 4, "min": [8.5] * 4})
    c3 = {"kind": "scene", "task": "detection", "cfg": ring,
          "frames": [{"t": 1000, "gts": g4, "ests": e4, "pose": {"t": "1/4", "tx": 1000.0, "ty": 2000.0, "tz": 37.5}}]}
    # (b) x/y box at both levels with minimum point counts: sparse ground truths (below the evaluation config's count,
    # between the two counts, at the critical filter's count), none of them on the ego's level
    g5 = [dict(car, id=0, x=10.0, y=0.0, z=2.5, pc=2, uuid="g0"), dict(car, id=1, x=20.0, y=5.0, z=-1.5, pc=4, uuid="g1"),
          dict(car, id=2, x=-12.0, y=-6.0, z=4.0, pc=6, uuid="g2")]
    e5 = [dict(o, id=o["id"], x=o["x"] + 0.125 * (o["id"] + 1), uuid=f"e{o['id']}", score=0.9) for o in g5]
    box = dict(cfg, min_pts=[3, 3, 3, 3], crit=dict(cfg["crit"], min_pts=[6, 6, 6, 6]))
    c4 = {"kind": "scene", "task": "detection", "cfg": box,
          "frames": [{"t": 1000, "gts": g5, "ests": e5, "pose": {"t": "-2/3", "tx": -300.5, "ty": 42.0, "tz": -12.25}}]}
    return [c1, c2] + cs + [c3, c4]


def generate(rng, tier):
    n_det, n_trk = (70, 25) if tier == "quick" else (900, 300)
    cases = [_scene(rng, "detection") for _ in range(n_det)] + [_scene(rng, "tracking") for _ in range(n_trk)]
    # the far/twin family is drawn after the base cases, which therefore stay what they were for a given seed
    n_fdet, n_ftrk = (60, 14) if tier == "quick" else (700, 160)
    cases += [_far_scene(rng, "detection") for _ in range(n_fdet)] + [_far_scene(rng, "tracking") for _ in range(n_ftrk)]
    # the criteria family is enumerated (its structure does not depend on the seed) and drawn last
    cases += _criteria_cases(rng, tier)
    return cases


# ----------------------------------------------------------------------------- real executions

def _manager(case, frame):
    c = case["cfg"]
    d = {"evaluation_task": case["task"], "center_distance_thresholds": [c["center_thr"]],
         "plane_distance_thresholds": [c["plane_thr"]], "iou_2d_thresholds": [c["iou2d_thr"]],
         "iou_3d_thresholds": [c["iou3d_thr"]], "matching_label_policy": c["policy"], "max_matchable_radii": c["radii"]}
    if c["filter"]["kind"] == "xy":
        d.update(max_x_position=c["filter"]["max_x"], max_y_position=c["filter"]["max_y"])
    else:
        d.update(max_x_position=None, max_y_position=None, max_distance=c["filter"]["max"], min_distance=c["filter"]["min"])
    if case["task"] == "tracking":
        d["min_point_numbers"] = None
    # the other criteria of the evaluation config (scalars or per-label lists, as the config accepts them)
    if c.get("min_pts") is not None:
        d["min_point_numbers"] = c["min_pts"]
    if c.get("conf") is not None:
        d["confidence_threshold"] = c["conf"]
    if c.get("uuids") is not None:
        d["target_uuids"] = list(c["uuids"])
    if c.get("ignore") is not None:
        d["ignore_attributes"] = list(c["ignore"])
    return B.mk_manager(d, frame)


def _crit_kwargs(c):
    """keyword arguments of CriticalObjectFilterConfig: the range kind plus every other criterion that is configured"""
    k = c["crit"]
    kw = ({"max_x_position_list": k["max_x"], "max_y_position_list": k["max_y"]} if k["kind"] == "xy"
          else {"max_distance_list": k["max"], "min_distance_list": k["min"]})
    for key, name in (("min_pts", "min_point_numbers"), ("conf", "confidence_threshold_list"), ("uuids", "target_uuids"),
                      ("ignore", "ignore_attributes")):
        if k.get(key) is not None:
            kw[name] = list(k[key])
    return kw


def _e2m(fr):
    cc, ss = B.rat_rot(Fraction(fr["pose"]["t"]))
    return B.ego2map(fr["pose"]["tx"], fr["pose"]["ty"], B.yaw_of(cc, ss), fr["pose"].get("tz", 0.0))


def _real(o, fr):
    """the REAL object of a scene entry, in the ego frame (3-D position, point count, label attributes)"""
    return B.mk_obj(o["x"], o["y"], o["yaw"], MEMBER[o["label"]], o.get("score", 1.0), "base_link", o["uuid"], fr["t"],
                    (o["w"], o["l"], o["h"]), z=o.get("z", 0.0), pc=o.get("pc", 10), attributes=o.get("attrs"))


class HarnessSetupError(RuntimeError):
    """building the inputs of a case failed (configs, managers, sample data, real objects): an infrastructure error of the
    check, raised from harness code so that it is never mistaken for an exception of the calls the property is about"""


def _setup(what, fn, *a, **kw):
    try:
        return fn(*a, **kw)
    except Exception as e:  # noqa: BLE001
        raise HarnessSetupError(f"{what}: {type(e).__name__}: {e}") from e


def _key_tables(objs, entries, what):
    """scene ids of the real objects of one frame, by uuid.  Results are mapped back to the scene by VALUE (the uuid, unique
    per frame in every generator family), never by `id()`: the property says nothing about object identity, a library that
    hands back copies of the objects (defensive deepcopy in add_frame_result, filters returning copies) keeps it."""
    tab = {}
    for ob, o in zip(objs, entries):
        if ob.uuid in tab:
            raise HarnessSetupError(f"{what}: uuid {ob.uuid!r} occurs twice in one frame; results cannot be mapped back")
        tab[ob.uuid] = o["id"]
    return tab


def _mode_key(mm):
    """canonical name of a MatchingMode MEMBER (not its display string)"""
    from perception_eval.evaluation.matching import MatchingMode

    for name, key in (("CENTERDISTANCE", "center"), ("PLANEDISTANCE", "plane"), ("IOU2D", "iou2d"), ("IOU3D", "iou3d")):
        if mm == getattr(MatchingMode, name, None):
            return key
    return str(getattr(mm, "name", mm))


def _render(case, frame):
    """run the whole case in one coordinate frame; canonical summary"""
    m = _setup("manager", _manager, case, frame)
    cfg = m.evaluator_config
    c = case["cfg"]
    crit = _setup("critical object filter config", B.crit_cfg, cfg, LABELS, **_crit_kwargs(c))
    pf = _setup("pass/fail config", B.pf_cfg, cfg, LABELS, c["pf_thr"])
    out = {"frames": []}
    for fr in case["frames"]:
        e2m = _setup("ego pose", _e2m, fr)

        def mk(o):
            ob = _real(o, fr)
            return B.to_map(ob, e2m) if frame == "map" else ob

        gts = _setup("ground-truth objects", lambda: [mk(o) for o in fr["gts"]])
        ests = _setup("estimated objects", lambda: [mk(o) for o in fr["ests"]])
        gid, eid = _key_tables(gts, fr["gts"], "ground truths"), _key_tables(ests, fr["ests"], "estimates")
        gt_frame = _setup("ground-truth frame", B.mk_frame, fr["t"], len(out["frames"]), gts, e2m, history=bool(fr.get("history")))
        # ---- the call the property is about (its exceptions are NOT caught here)
        res = m.add_frame_result(fr["t"], gt_frame, ests, crit, pf)

        def rid(r):
            g = r.ground_truth_object
            return [eid[r.estimated_object.uuid], None if g is None else gid[g.uuid]]

        # lists are compared as SETS of scene ids (sorted): the statement orders none of them ("matching ... TP/FP/FN
        # decisions ... agree"); anything that depends on an order (AP with tied confidences) shows in the metric values
        srt = lambda xs: sorted(xs, key=lambda v: [(-1 if u is None else u) for u in (v if isinstance(v, list) else [v])])  # noqa: E731
        f = {"pairs": srt([rid(r) for r in res.object_results]),
             "gt_kept": srt([gid[g.uuid] for g in res.frame_ground_truth.objects]),
             "tp": srt([rid(r) for r in res.pass_fail_result.tp_object_results]),
             "fp": srt([[eid[r.estimated_object.uuid]] for r in res.pass_fail_result.fp_object_results]),
             "fn": srt([gid[g.uuid] for g in res.pass_fail_result.fn_objects]),
             "tn": srt([gid[g.uuid] for g in res.pass_fail_result.tn_objects]),
             "num_success": int(res.pass_fail_result.get_num_success()), "num_fail": int(res.pass_fail_result.get_num_fail()),
             "scores": {}, "maps": _maps(res.metrics_score), "trk": _trk(res.metrics_score)}
        for r in res.object_results:
            if r.ground_truth_object is not None:
                f["scores"][str(rid(r))] = [r.center_distance.value, r.plane_distance.value, r.iou_2d.value, r.iou_3d.value,
                                            _aph(r), list(r.heading_error or ())[2:]]
        out["frames"].append(f)
    sc = m.get_scene_result()
    out["scene_maps"] = _maps(sc)
    out["scene_trk"] = _trk(sc)
    return out


def _bev(o, td):
    """`DynamicObject.get_distance_bev` (the distance of the ring filter); None when the method is not there in this form"""
    try:
        return float(o.get_distance_bev() if td is None else o.get_distance_bev(td))
    except (AttributeError, TypeError):
        return None


def _aph(r):
    from perception_eval.evaluation.metrics.detection.tp_metrics import TPMetricsAph

    return TPMetricsAph().get_value(r)


def _num(x):
    return None if x is None or (isinstance(x, float) and (math.isnan(x) or math.isinf(x))) else float(x)


def _maps(ms):
    out = []
    for mp in ms.maps:
        out.append({"mode": _mode_key(mp.matching_mode), "map": _num(mp.map), "maph": _num(mp.maph),
                    "aps": [[a.target_labels[0].value, _num(a.ap), a.num_ground_truth] for a in mp.aps],
                    "aphs": [[a.target_labels[0].value, _num(a.ap)] for a in mp.aphs]})
    return sorted(out, key=lambda d: d["mode"])  # one Map per configured mode; their order is not a statement of C07


def _clear_field(c, attr, key):
    """MOTA / MOTP / ID switches of one CLEAR: the public attribute, else the `results` entry; when neither is there the
    observation is dropped for the run (histogram key `unobservable:CLEAR.<attr>`) - never `None == None` silently"""
    if hasattr(c, attr):
        return getattr(c, attr)
    res = getattr(c, "results", None)
    if isinstance(res, dict) and key in res:
        return res[key]
    return "unobservable"


def _trk(ms):
    out = []
    for ts in ms.tracking_scores:
        rows = []
        for c in ts.clears:
            mota, motp, sw = _clear_field(c, "mota", "MOTA"), _clear_field(c, "motp", "MOTP"), _clear_field(c, "id_switch", "id_switch")
            rows.append([c.target_labels[0].value, mota if isinstance(mota, str) else _num(mota), motp if isinstance(motp, str) else _num(motp),
                         sw if isinstance(sw, str) else int(sw), _num(c.tp), _num(c.fp), int(c.num_ground_truth)])
        out.append({"mode": _mode_key(ts.matching_mode), "clears": rows})
    return sorted(out, key=lambda d: d["mode"])


def _margins_ok(case):
    """every range decision of the ego rendering is at least 1e-4 away from its boundary (planar quantities: the
    property's filter decisions are taken on x, y and the BEV distance)"""
    c = case["cfg"]
    own = case.get("family") == "criteria"  # per-label lists: only the bound of the object's own label is consulted

    def vals(v, o):
        if not isinstance(v, list):
            return [v]
        if not own:
            return v
        if o["label"] in LABELS:
            return [v[LABELS.index(o["label"])]]
        return [sum(v) / len(v)] if o["label"] == "unknown" else []  # relaxed unknown estimate: np.mean; non-target: none

    for fr in case["frames"]:
        for o in fr["gts"] + fr["ests"]:
            d = math.hypot(o["x"], o["y"])
            bounds = []
            for spec in (c["filter"], c["crit"]):
                if spec["kind"] == "xy":
                    bounds += [(abs(o["x"]), v) for v in vals(spec["max_x"], o)] + [(abs(o["y"]), v) for v in vals(spec["max_y"], o)]
                else:
                    bounds += [(d, v) for v in vals(spec["max"], o)] + [(d, v) for v in vals(spec["min"], o)]
            if any(abs(a - b) < 1e-4 for a, b in bounds):
                return False
    return True


MAX_PAIRS = 12


def _pair_obs(case):
    """first frame, outside the manager: both renderings of every object and of up to MAX_PAIRS pairs"""
    import numpy as np
    from perception_eval.common.schema import FrameID
    from perception_eval.common.transform import TransformDict
    from perception_eval.evaluation.result.object_result import DynamicObjectWithPerceptionResult as R

    fr = case["frames"][0]
    e2m = _e2m(fr)
    td = B.mk_transforms(e2m, history=bool(fr.get("history")))

    def both(o):
        a = _real(o, fr)
        m = B.to_map(a, e2m)
        back = td.transform((FrameID.MAP, FrameID.BASE_LINK), m.state.position)
        return (a, m, [float(v) for v in m.state.position], [float(v) for v in back[:3]], float(m.state.orientation.yaw_pitch_roll[0]),
                _bev(a, None), _bev(m, td))

    ests = [both(o) for o in fr["ests"]]
    gts = [both(o) for o in fr["gts"]]
    pairs = []
    order = [(i, j) for i in range(len(ests)) for j in range(len(gts))]
    if case.get("family") == "criteria":  # large scenes: every other estimate with its nearest ground truth first
        near = [(i, min(range(len(gts)), key=lambda j: math.hypot(fr["ests"][i]["x"] - fr["gts"][j]["x"], fr["ests"][i]["y"] - fr["gts"][j]["y"])))
                for i in range(0, len(ests), 2)] if gts else []
        order = near[:MAX_PAIRS - 2] + [p for p in order if p not in near]
    def row(r):
        return [r.center_distance.value, r.plane_distance.value, r.iou_2d.value, r.iou_3d.value, _aph(r), r.heading_error[2]]

    for i, j in order[:MAX_PAIRS]:
        (ea, em, *_r), (ga, gm, *_r2) = ests[i], gts[j]
        re_, rm = R(ea, ga), R(em, gm, transforms=td)
        corners = np.array(ga.get_footprint().exterior.coords)[:4, :2]
        d = sorted(float(np.hypot(*c)) for c in corners)
        pairs.append({"i": i, "j": j, "ego": row(re_), "map": row(rm), "rank_margin": d[2] - d[1]})
    # who is equal to whom under DynamicObject.__eq__, in both renderings (index 0: ego object, 1: map object)
    same = {f"{side}_{nm}": [[bool(a[k] == b[k]) for b in objs] for a in objs]
            for side, objs in (("gts", gts), ("ests", ests)) for k, nm in ((0, "ego"), (1, "map"))}
    return {"ests": [e[2:] for e in ests], "gts": [g[2:] for g in gts], "pairs": pairs, "same": same}


def _corner_rank_margin(o):
    """gap between the 2nd and the 3rd smallest ego distance of the footprint corners of a scene object (ego rendering, exact
    scene geometry): below it the two 'nearest' corners of the plane distance are not determined"""
    c, s_ = math.cos(o["yaw"]), math.sin(o["yaw"])
    d = sorted(math.hypot(o["x"] + c * u - s_ * v, o["y"] + s_ * u + c * v)
               for u, v in ((o["l"] / 2, o["w"] / 2), (-o["l"] / 2, o["w"] / 2), (-o["l"] / 2, -o["w"] / 2), (o["l"] / 2, -o["w"] / 2)))
    return d[2] - d[1]


def _near_reasons(case, ego):
    """The quantifier of C07: "all filter/threshold configurations for which no decision is within tolerance of its boundary".
    Every decision the pipeline takes on a COORDINATE-DEPENDENT quantity is listed here with its margin, computed from the scene
    itself (exact ego-frame geometry of the case) on the FULL estimate x ground-truth table of every frame - not only on the
    pairs that ended up matched - and, for the scores of matched pairs (polygon clipping), from the ego rendering.  A case with
    any margin below tolerance is outside the quantifier: not judged by the oracle, "skip" for the correspondence, counted."""
    c = case["cfg"]
    why = set()
    if not _margins_ok(case):
        why.add("range-bound")  # |x|, |y| or the BEV distance of an object within 1e-4 of a filter bound (either level)
    radii = [float(r) for r in (c["radii"] or [])]
    for fr, f in zip(case["frames"], ego["frames"]):
        ests, gts = fr["ests"], fr["gts"]
        # the matcher's table (CENTERDISTANCE, 3-D): candidates are cut at max_matchable_radii, the greedy choice is an arg-min
        # over ALL remaining entries -> every entry against every radius, and every two entries against each other
        table = sorted((math.dist((e["x"], e["y"], e.get("z", 0.0)), (g["x"], g["y"], g.get("z", 0.0))), i, j)
                       for i, e in enumerate(ests) for j, g in enumerate(gts))
        if any(abs(d - r) < MARGIN for d, _i, _j in table for r in radii):
            why.add("candidate-on-matchable-radius")
        lim = max(radii) + MARGIN if radii else float("inf")  # entries beyond every radius never compete
        live = [t for t in table if t[0] <= lim]
        for n, (d, i, j) in enumerate(live):
            for d2, i2, j2 in live[n + 1:]:
                if d2 - d >= MARGIN:
                    break
                # the greedy matcher = scan of the entries in ascending order, an entry is taken when its row and column are
                # free.  Two tied entries that share a row or a column: the WINNER is not determined.  Two tied entries that
                # share neither: the same pairs come out, only the order of the result list is open - which matters where an
                # order is consumed: the stable sort by confidence of AP (equal confidences).
                if i == i2 or j == j2:
                    why.add("candidate-tie")
                elif ests[i].get("score", 1.0) == ests[i2].get("score", 1.0):
                    why.add("candidate-tie:result-order-with-equal-confidence")
        # plane distance: the ground truth's two nearest corners (every ground truth: any of them may get matched)
        if any(_corner_rank_margin(g) < MARGIN for g in gts):
            why.add("corner-rank-tie")
        # scores of the matched pairs against every threshold that is applied to them
        for v in f["scores"].values():
            if v[5] and math.pi - abs(v[5][0]) < MARGIN:
                why.add("yaw-error-at-pi")  # exactly opposite headings: the sign of the yaw error is decided by rounding (headingError_toMap)
            thr = [(v[0], c["center_thr"]), (v[1], c["plane_thr"]), (v[2], c["iou2d_thr"]), (v[3], c["iou3d_thr"])]
            thr += [(v[1], t) for t in c["pf_thr"]]
            if any(abs(a - b) < MARGIN for a, b in thr):
                why.add("score-on-threshold")
    return sorted(why)


def run_impl(case):
    # set-up failures are raised as HarnessSetupError from harness code (infrastructure, never a statement about C07); the
    # exceptions of add_frame_result / get_scene_result / the score objects propagate as what they are
    try:
        ego = _render(case, "base_link")
        mp = _render(case, "map")
        obs = _pair_obs(case)
    finally:
        B.cleanup()
    why = _near_reasons(case, ego)
    return {"ego": ego, "map": mp, "near": bool(why), "near_why": why, "obs": obs}


# ----------------------------------------------------------------------------- correspondence with the Lean model

def _mobj(o):
    return {"x": core.q(o["x"]), "y": core.q(o["y"]), "z": core.q(o.get("z", 0.0)), "c": core.q(math.cos(o["yaw"])), "s": core.q(math.sin(o["yaw"])),
            "tau": core.q(o["yaw"] / math.pi), "w": core.q(o["w"]), "l": core.q(o["l"]), "h": core.q(o["h"])}


def model_requests(case, out):
    if not isinstance(out, dict) or "err" in out or "obs" not in out:
        return []
    fr = case["frames"][0]
    cc, ss = B.rat_rot(Fraction(fr["pose"]["t"]))
    pose = {"c": core.q(cc), "s": core.q(ss), "tau": core.q(B.yaw_of(cc, ss) / math.pi), "tx": core.q(fr["pose"]["tx"]),
            "ty": core.q(fr["pose"]["ty"]), "tz": core.q(fr["pose"].get("tz", 0.0))}
    req = {"pose": pose, "ests": [_mobj(o) for o in fr["ests"]], "gts": [_mobj(o) for o in fr["gts"]],
           "filter": _filter_request(case, fr)}
    if len(fr["ests"]) * len(fr["gts"]) > 64:  # large scenes: exact score rows only for the pairs that are compared
        req["pairs"] = [[p["i"], p["j"]] for p in out["obs"]["pairs"]]
    elif _eval_applicable(case):
        req["eval"] = _eval_request(case, fr, req["filter"])
    if _history_applicable(case):
        req["history"] = _history_request(case)
    return [req]


TRACK_MODES = ["center", "iou2d", "iou3d", "plane"]


def _history_applicable(case):
    """sequences (tracking task): every frame through the composed model, and the CLEAR fold over the history (`trackingOf`)
    against the real scene result.  Small frames only (the model computes every exact score table incl. polygon clipping)."""
    return (case["task"] == "tracking" and _eval_applicable(case)
            and all(len(f["ests"]) * len(f["gts"]) <= 64 for f in case["frames"]))


def _pose_request(fr):
    cc, ss = B.rat_rot(Fraction(fr["pose"]["t"]))
    return {"c": core.q(cc), "s": core.q(ss), "tau": core.q(B.yaw_of(cc, ss) / math.pi), "tx": core.q(fr["pose"]["tx"]),
            "ty": core.q(fr["pose"]["ty"]), "tz": core.q(fr["pose"].get("tz", 0.0))}


def _history_request(case):
    c = case["cfg"]
    uid = {}  # persistent numbers of the uuids over the sequence (track ids of the estimates, object ids of the ground truths)
    frames = []
    cfg = None
    for fr in case["frames"]:
        ev = _eval_request(case, fr, _filter_request(case, fr))
        for side in ("est_attrs", "gt_attrs"):
            for a in ev[side]:
                a["uid"] = uid.setdefault((side, a["uuid"]), len(uid))
        frames.append({"pose": _pose_request(fr), "ests": [_mobj(o) for o in fr["ests"]], "gts": [_mobj(o) for o in fr["gts"]],
                       "est_attrs": ev.pop("est_attrs"), "gt_attrs": ev.pop("gt_attrs")})
        cfg = ev
    thr = {"center": _sq(c["center_thr"]), "plane": _sq(c["plane_thr"]), "iou2d": core.q(c["iou2d_thr"]), "iou3d": core.q(c["iou3d_thr"])}
    return {"cfg": cfg, "frames": frames,
            "track": [{"mode": m, "targets": [[LID[l], thr[m]] for l in LABELS]} for m in TRACK_MODES]}


# the model's WHOLE frame (`FrameChange.evalFrame`: manager filter -> score table -> matcher -> critical filter -> pass/fail,
# AP/APH) in both renderings, compared with the two real frame results of frame 0 (`_cmp_eval`)
LID = {"unknown": 0, "FP": 1, "car": 2, "bicycle": 3, "pedestrian": 4, "motorbike": 5, "bus": 6}


def _canon_ids(xs):
    """id lists of the model in the canonical (sorted) form of `_render`: the statement orders none of these lists"""
    return sorted(xs, key=lambda v: [(-1 if u is None else u) for u in (v if isinstance(v, list) else [v])])


def _eval_applicable(case):
    """the composed model leaves out the manager's / critical filter's target_uuids post-filter on object results (frame-free:
    it reads uuids only); small scenes only (the model computes the whole exact score table incl. polygon clipping)"""
    c = case["cfg"]
    return c.get("uuids") is None and c["crit"].get("uuids") is None


def _sq(v):
    return core.q(Fraction(core.q(v)) ** 2)


def _eval_request(case, fr, flt):
    c = case["cfg"]

    def attr(o, k, est):
        return {"id": o["id"], "label": f"AutowareLabel.{MEMBER[o['label']]}", "name": o["label"], "attrs": list(o.get("attrs") or []),
                "score": core.q(o.get("score", 1.0)) if est else "1", "pc": o.get("pc", 10), "uuid": o["uuid"],
                "mlabel": o["label"], "alabel": LID[o["label"]], "uid": k, "stamp": 0}

    n = len(LABELS)
    if True:  # detection and tracking tasks alike: `evaluate_detection` runs whenever a detection config exists
        maps = [{"mode": "center", "thrs": [_sq(c["center_thr"])] * n}, {"mode": "iou2d", "thrs": [core.q(c["iou2d_thr"])] * n},
                {"mode": "iou3d", "thrs": [core.q(c["iou3d_thr"])] * n}, {"mode": "plane", "thrs": [_sq(c["plane_thr"])] * n}]
    tl = [LID[l] for l in LABELS]
    return {"mgr": flt["mgr"], "crit": flt["crit"],
            "est_attrs": [attr(o, k, True) for k, o in enumerate(fr["ests"])],
            "gt_attrs": [attr(o, k, False) for k, o in enumerate(fr["gts"])],
            "policy": c["policy"], "targets": list(LABELS), "radii2": None if c["radii"] is None else [_sq(v) for v in c["radii"]],
            "pf_targets": tl, "pf_thr2": [_sq(v) for v in c["pf_thr"]], "crit_targets": tl, "map_targets": tl, "maps": maps}


def _cmp_eval(case, out, r):
    for rendering in ("ego", "map"):
        m = r.get(f"eval_{rendering}")
        if m is None:
            continue
        bad = _cmp_frame(f"whole frame [{rendering} rendering]", out[rendering]["frames"][0], m)
        if bad:
            return bad
    return None


def _cmp_history(case, out, r):
    """every frame of a sequence against the model's `evalFrame`, and the scene's tracking scores against `trackingOf`
    (the CLEAR fold over the model's object results of all frames), in both renderings"""
    for rendering in ("ego", "map"):
        h = r.get(f"hist_{rendering}")
        if h is None:
            continue
        real = out[rendering]
        if len(h["frames"]) != len(real["frames"]):
            return f"history [{rendering} rendering]: {len(real['frames'])} real frame results, {len(h['frames'])} model frames"
        for k, (mf, rf) in enumerate(zip(h["frames"], real["frames"])):
            bad = _cmp_frame(f"history frame {k} [{rendering} rendering]", rf, mf)
            if bad:
                return bad
        by_mode = {t["mode"]: t for t in real["scene_trk"]}
        for mode, mt in zip(TRACK_MODES, h["tracking"]):
            rt = by_mode.get(mode)
            if rt is None:
                continue  # the real scene result has no tracking score for this mode
            tag = f"tracking [{rendering} rendering] {mode}"
            if "err" in mt:
                return f"{tag}: the model raises {mt['err']}, the real scene result exists"
            rows = {row[0]: row for row in rt["clears"]}
            for lab, mc in zip(LABELS, mt["ok"]["clears"]):
                row = rows.get(lab)
                if row is None:
                    continue
                _l, mota, motp, sw, tp, fp, g = row
                checks = [("num_ground_truth", g, mc["g"]), ("tp", tp, mc["tp"]), ("fp", fp, mc["fp"])]
                if sw != "unobservable":
                    checks.append(("id_switch", sw, mc["sw"]))
                if mota != "unobservable":
                    checks.append(("MOTA", mota, mc["mota"]))
                if motp != "unobservable" and mode in ("iou2d", "iou3d"):  # distances travel squared: MOTP of the distance modes is not comparable
                    checks.append(("MOTP", motp, mc["motp"]))
                for name, a, b in checks:
                    if (a is None) != (b is None) or (a is not None and not _near(a, Fraction(b), 1e-6, 1e-6)):
                        return f"{tag} [{lab}] {name}: real {a} != model trackingOf {b}"
    return None


def _cmp_frame(tag, real, m):
    sent = ["center", "iou2d", "iou3d", "plane"]
    if True:
        if "err" in m:
            return f"{tag}: the model raises {m['err']}, the real frame result exists"
        m = m["ok"]
        for key, rv in (("pairs", real["pairs"]), ("gt_kept", real["gt_kept"]), ("tp", real["tp"]), ("fp", [x[0] for x in real["fp"]]),
                        ("fn", real["fn"]), ("tn", real["tn"])):
            if _canon_ids(m[key]) != _canon_ids(rv):
                return f"{tag} {key}: real {rv} != model evalFrame {_canon_ids(m[key])} (as sets)"
        by_mode = {mp["mode"]: mp for mp in real["maps"]}
        if sorted(by_mode) != sorted(sent) or len(m["maps"]) != len(sent):
            return f"{tag}: maps of the real frame {sorted(by_mode)} vs model {sent}"
        for mode, mm in zip(sent, m["maps"]):
            rm = by_mode[mode]
            rows = [("map", rm["map"], mm["map"]), ("maph", rm["maph"], mm["maph"])]
            rows += [(f"ap[{a[0]}]", a[1], b) for a, b in zip(rm["aps"], mm["aps"])]
            rows += [(f"aph[{a[0]}]", a[1], b) for a, b in zip(rm["aphs"], mm["aphs"])]
            if len(rm["aps"]) != len(mm["aps"]) or len(rm["aphs"]) != len(mm["aphs"]):
                return f"{tag} {mode}: number of APs differs"
            for name, a, b in rows:
                if (a is None) != (b is None) or (a is not None and not _near(a, Fraction(b), 1e-6, 1e-6)):
                    return f"{tag} {mode} {name}: real {a} != model evalFrame {b}"
    return None


def _per_label(v):
    """a scalar threshold of the evaluation config stands for one entry per target label"""
    if v is None:
        return None
    return [core.q(x) for x in (v if isinstance(v, list) else [v] * len(LABELS))]


def _filter_request(case, fr):
    """the two filters the ground truths of a frame go through (evaluation config, then critical object filter) and the
    frame-free attributes of the ground truths, in the protocol of the filter model (C10)"""
    c = case["cfg"]
    targets = [f"AutowareLabel.{MEMBER[l]}" for l in LABELS]

    def params(spec, extra, default_pts):
        xy = spec["kind"] == "xy"
        pts = extra.get("min_pts", default_pts)
        return {"is_gt": True, "targets": targets, "ignore": extra.get("ignore"),
                "max_x": _per_label(spec["max_x"]) if xy else None, "max_y": _per_label(spec["max_y"]) if xy else None,
                "max_dist": None if xy else _per_label(spec["max"]), "min_dist": None if xy else _per_label(spec["min"]),
                "conf": _per_label(extra.get("conf")), "uuids": extra.get("uuids"),
                "min_pts": None if pts is None else (list(pts) if isinstance(pts, list) else [pts] * len(LABELS))}

    mgr_default = None if case["task"] == "tracking" else [0, 0, 0, 0]
    tags = [{"id": g["id"], "label": f"AutowareLabel.{MEMBER[g['label']]}", "name": g["label"], "attrs": list(g.get("attrs") or []),
             "score": "1", "pc": g.get("pc", 10), "uuid": g["uuid"]} for g in fr["gts"]]
    return {"mgr": params(c["filter"], c, mgr_default), "crit": params(c["crit"], c["crit"], None), "tags": tags}


def _near(a, b, rel, ab):
    return abs(float(a) - float(b)) <= ab + rel * max(abs(float(a)), abs(float(b)))


def compare(case, out, resps):
    if not isinstance(out, dict) or "err" in out or "obs" not in out:
        return None  # no output of the real code to compare
    r = resps[0]
    obs = out["obs"]
    for side in ("ests", "gts"):
        for k, (real, mod) in enumerate(zip(obs[side], r[side])):
            pos, back, yaw, bev_ego, bev_map = real
            if not (_near(pos[0], Fraction(mod["x"]), 1e-12, 1e-7) and _near(pos[1], Fraction(mod["y"]), 1e-12, 1e-7)):
                return f"{side}[{k}] map position {pos} != model ({float(Fraction(mod['x']))}, {float(Fraction(mod['y']))})"
            if not (_near(back[0], Fraction(mod["ego_x"]), 0, 1e-6) and _near(back[1], Fraction(mod["ego_y"]), 0, 1e-6)):
                return f"{side}[{k}] ego-relative position from the real transform {back} != model"
            if not (_near(pos[2], Fraction(mod["z"]), 1e-12, 1e-7) and _near(back[2], Fraction(mod["ego_z"]), 0, 1e-6)):
                return (f"{side}[{k}] height: map {pos[2]} / relative to the ego {back[2]} != model "
                        f"{float(Fraction(mod['z']))} / {float(Fraction(mod['ego_z']))}")
            for nm, real_d, key in (("ego", bev_ego, "bev2_ego"), ("map", bev_map, "bev2_map")):
                if real_d is not None and not _near(real_d ** 2, Fraction(mod[key]), 1e-9, 1e-6):
                    return (f"{side}[{k}] BEV distance of the {nm} rendering {real_d} != model "
                            f"{math.sqrt(float(Fraction(mod[key])))} (planar norm of the ego-relative position)")
            dy = (yaw / math.pi - float(Fraction(mod["tau"]))) % 2.0
            if min(dy, 2.0 - dy) > 1e-9:
                return f"{side}[{k}] map yaw {yaw} != model tau {float(Fraction(mod['tau']))}"
    for n, p in enumerate(obs["pairs"]):
        for rendering, tol in (("ego", 1e-9), ("map", 1e-6)):
            m = r[rendering + "_rows"][n] if rendering + "_rows" in r else r[rendering][p["i"]][p["j"]]
            real = p[rendering]
            checks = [("center", real[0] ** 2, m["center2"]), ("iou2d", real[2], m["iou2d"]), ("iou3d", real[3], m["iou3d"]),
                      ("aph", real[4], m["aph"])]
            if p["rank_margin"] > 1e-6:
                checks.append(("plane", real[1] ** 2, m["plane2"]))
            for name, a, b in checks:
                if not _near(a, Fraction(b), tol, tol):
                    return f"pair {p['i']},{p['j']} [{rendering}] {name}: real {a} != model {float(Fraction(b))}"
            ye = real[5] / math.pi
            my = float(Fraction(m["yaw_err"]))
            if not (abs(ye - my) <= 1e-9 or (abs(abs(ye) - 1) < 1e-9 and abs(abs(my) - 1) < 1e-9)):
                return f"pair {p['i']},{p['j']} [{rendering}] yaw error: real {ye} != model {my}"
    # the ground truths that survive both filters (all criteria), frame 0, against the filter model on the 3-D scene
    if not out["near"] and "gt_kept_ego" in r:
        for rendering in ("ego", "map"):
            mod, real = r[f"gt_kept_{rendering}"], out[rendering]["frames"][0]["gt_kept"]
            if "ok" not in mod or _canon_ids(mod["ok"]) != _canon_ids(real):
                return f"ground truths kept by the two filters [{rendering} rendering]: real {real} != model {mod} (as sets)"
    # the whole frame of the composed model against the two real frame results
    if not out["near"] and "eval_ego" in r:
        bad = _cmp_eval(case, out, r)
        if bad:
            return bad
    # sequences: every frame and the CLEAR fold over the history (MOTA, MOTP, ID switches of the scene result)
    if not out["near"] and "hist_ego" in r:
        bad = _cmp_history(case, out, r)
        if bad:
            return bad
    # object identity: `==` of the real objects vs the model's equality table (same pose) and the frame-free label
    fr = case["frames"][0]
    for side in ("gts", "ests"):
        labs = [o["label"] for o in fr[side]]
        for rendering in ("ego", "map"):
            real, mod = obs["same"][f"{side}_{rendering}"], r[f"same_{side}_{rendering}"]
            for i, row in enumerate(real):
                for j, v in enumerate(row):
                    want = bool(mod[i][j]) and labs[i] == labs[j]
                    if v != want:
                        return (f"{side}[{i}] == {side}[{j}] is {v} in the {rendering} rendering, the model says {want} "
                                f"(ids {fr[side][i]['id']}, {fr[side][j]['id']})")
    # a scene with a decision within tolerance of its boundary is outside the quantifier: the decision-free intermediates above
    # were compared, the decisions (kept sets, whole frame) were not -> counted as skipped
    return "skip" if out["near"] else None


# ----------------------------------------------------------------------------- oracle: the two executions agree

def _cmp_num(a, b, tol, path):
    if a is None or b is None:
        return None if a is b else f"{path}: {a} vs {b}"
    return None if abs(a - b) <= tol * max(1.0, abs(a), abs(b)) else f"{path}: {a} vs {b}"


def _cmp(a, b, tol, path=""):
    if isinstance(a, dict):
        if set(a) != set(b):
            return f"{path}: keys {sorted(a)} vs {sorted(b)}"
        for k in a:
            d = _cmp(a[k], b[k], tol, f"{path}/{k}")
            if d:
                return d
        return None
    if isinstance(a, (list, tuple)):
        if len(a) != len(b):
            return f"{path}: {a} vs {b}"
        for i, (x, y) in enumerate(zip(a, b)):
            d = _cmp(x, y, tol, f"{path}[{i}]")
            if d:
                return d
        return None
    if isinstance(a, float) or isinstance(b, float):
        return _cmp_num(a, b, tol, path)
    return None if a == b else f"{path}: {a} vs {b}"


def oracle(case, out):
    if not isinstance(out, dict) or "err" in out or "ego" not in out:
        # an exception that escaped run_impl from inside the library (reported by run_check itself under the current convention)
        return f"evaluation raised {out.get('err')}: {str(out.get('trace', ''))[-400:]}" if isinstance(out, dict) else None
    if out["near"]:
        # "all filter/threshold configurations for which no decision is within tolerance of its boundary": not judged
        # (compare returns "skip" for the same case, so it is counted; histogram key skipped:near-boundary:<which decision>)
        return None
    d = _cmp(out["ego"], out["map"], 1e-6)
    if d is None:
        for p in out["obs"]["pairs"]:  # per-object scores of every pair, also the unmatched ones
            d = _cmp(p["ego"][:5], p["map"][:5], 1e-6, f"pair {p['i']},{p['j']}") if p["rank_margin"] > 1e-6 else None
            if d is None and math.pi - abs(p["ego"][5]) > MARGIN:  # the yaw error too (at exactly opposite headings its sign is open)
                d = _cmp_num(float(p["ego"][5]), float(p["map"][5]), 1e-6, f"pair {p['i']},{p['j']} yaw error")
            if d:
                break
    return None if d is None else "ego-frame and map-frame executions differ at " + d


def _unobservable(out):
    names = set()
    for rendering in ("ego", "map"):
        rows = [row for f in out[rendering]["frames"] for t in f["trk"] for row in t["clears"]]
        rows += [row for t in out[rendering]["scene_trk"] for row in t["clears"]]
        for row in rows:
            for name, v in zip(("mota", "motp", "id_switch"), row[1:4]):
                if v == "unobservable":
                    names.add(f"unobservable:CLEAR.{name}")
    return sorted(names)


def branches(case, out):
    if not isinstance(out, dict) or "err" in out or "ego" not in out:
        return ["err:" + str(out.get("err") if isinstance(out, dict) else out)]
    if out["near"]:
        return ["trivial", "skipped:near-boundary"] + ["skipped:near-boundary:" + w for w in out.get("near_why", [])]
    br = [f"task:{case['task']}", f"filter:{case['cfg']['filter']['kind']}", f"crit:{case['cfg']['crit']['kind']}",
          f"policy:{case['cfg']['policy']}", f"radii:{'yes' if case['cfg']['radii'] else 'no'}"]
    npairs = sum(1 for f in out["ego"]["frames"] for p in f["pairs"] if p[1] is not None)
    ntp = sum(len(f["tp"]) for f in out["ego"]["frames"])
    nfn = sum(len(f["fn"]) for f in out["ego"]["frames"])
    dropped = sum(len(fr["gts"]) - len(f["gt_kept"]) for fr, f in zip(case["frames"], out["ego"]["frames"]))
    br += [f"pairs:{min(npairs, 5)}", f"tp:{min(ntp, 3)}", f"fn:{min(nfn, 3)}", f"gt-filtered-out:{min(dropped, 2)}"]
    if npairs == 0:
        br.append("trivial")
    br += _twin_branches(case, out)
    br += _criteria_branches(case, out)
    fr0 = case["frames"][0]
    whole = len(fr0["ests"]) * len(fr0["gts"]) <= 64 and _eval_applicable(case)
    br.append("whole-frame-model:" + ("compared" if whole and not out["near"] else "near-boundary" if whole else "not-applicable"))
    if case["task"] == "tracking":
        br.append("history-model(all frames + CLEAR fold):" + ("compared" if _history_applicable(case) else "not-applicable"))
    return br + _unobservable(out)


def _criteria_branches(case, out):
    """histogram keys of the criteria family: what happened to every witness in the ego rendering (frame 0)"""
    if case.get("family") != "criteria":
        return []
    fr, f = case["frames"][0], out["ego"]["frames"][0]
    br = ["criteria:" + ("all-on" if len(case["on"]) == len(SWITCHES) else "all-off" if not case["on"] else
                         "solo:" + case["on"][0] if len(case["on"]) == 1 else "mixed")]
    br += [f"3d:ego-z:{'zero' if fr['pose'].get('tz', 0.0) == 0.0 else 'nonzero'}"]
    est_kept = {p[0] for p in f["pairs"]}
    for g in fr["gts"]:
        state = "kept" if g["id"] in f["gt_kept"] else "removed"
        role = g["role"]
        lv, _, crit = role.partition("-")
        sw = {"pts": "min_pts", "conf": "conf", "uuid": "uuid", "attr": "attr"}.get(crit.split("-")[0])
        if lv in ("mgr", "crit") and sw:
            role += ":on" if f"{lv}:{sw}" in case["on"] else ":off"
        br.append(f"witness:gt:{role}:{state}")
    for e in fr["ests"]:
        if "conf" in e["role"] or e["role"] in ("lonely-est", "unknown-est") or "straddle" in e["role"]:
            lv = e["role"].split("-")[0]
            tag = (":on" if f"{lv}:conf" in case["on"] else ":off") if "conf" in e["role"] else ""
            br.append(f"witness:est:{e['role']}{tag}:{'kept' if e['id'] in est_kept else 'removed'}")
    return br


def _twin_branches(case, out):
    """histogram keys of the far/twin family, from what the real code reported on the ego rendering"""
    br = []
    for fr, f in zip(case["frames"], out["ego"]["frames"]):
        tmax = max(abs(fr["pose"]["tx"]), abs(fr["pose"]["ty"]))
        both = min(abs(fr["pose"]["tx"]), abs(fr["pose"]["ty"])) >= FAR
        where = "far-both-axes" if both else "far-one-axis" if tmax >= FAR else "near-origin"
        br.append("ego-translation:" + ("<5e4" if tmax < FAR else "5e4-1.3e5" if tmax < 1.3e5 else ">1.3e5"))
        matched = {p[1] for p in f["pairs"] if p[1] is not None}
        tp_g = {p[1] for p in f["tp"]}
        for tw in fr.get("twins", []):
            ids = [i for i in tw["ids"] if any(g["id"] == i for g in fr["gts"])]
            if len(ids) < len(tw["ids"]):
                continue  # shrunk away
            off = tw["off"]
            br.append("twin:offset:" + ("<0.01" if off < 0.01 else "<0.2" if off < 0.19 else "0.2-0.5" if off <= 0.5 else "0.5-1.0"))
            if len(ids) == 1:
                n_e = sum(1 for p in f["pairs"] if p[1] == ids[0]) + len(f["fp"])
                br.append(f"twin:estimates:{where}")
                continue
            if not all(i in f["gt_kept"] for i in ids):
                br.append("twin:not-both-kept")
                continue
            n = sum(i in matched for i in ids)
            br.append(f"twin:gt:{['both-unmatched', 'one-matched', 'both-matched'][n]}:{where}")
            br.append(f"twin:gt:tp{sum(i in tp_g for i in ids)}-fn{sum(i in f['fn'] for i in ids)}:{where}")
    return br


def shrink(case):
    """drop a frame, an estimate or a ground truth"""
    fr = case["frames"]
    if len(fr) > 1:
        for i in range(len(fr)):
            yield dict(case, frames=fr[:i] + fr[i + 1:])
    for fi, f in enumerate(fr):
        for key in ("ests", "gts"):
            for i in range(len(f[key])):
                nf = dict(f, **{key: f[key][:i] + f[key][i + 1:]})
                yield dict(case, frames=fr[:fi] + [nf] + fr[fi + 1:])
