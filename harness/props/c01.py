"""C01 — matching is one-to-one and accounts for every estimate (shared machinery for C02).

Tie to the code: REAL `DynamicObject` (3-D boxes) / `DynamicObject2D` (ROIs) lists are built from the case,
`get_object_results` (or, for a slice, `PerceptionEvaluationManager.add_frame_result`) is run in-process
and its result `[(estimate id, gt id | null)]` is compared with the Lean model `PEval.Matching.getObjectResults`
AS THE PROPERTY OBSERVES IT: the set of pairs and the set of unpaired estimates (neither C01 nor C02 orders the list).
Where the real code pairs differently from the model, the outcome is accepted exactly when the Lean checker
`Matching.checkTwoStage` accepts the real pairs as a run of the proved any-best relation `TwoStageRun`
(`C02.certificate_sound`): the winner of an exact score tie is left open by C02 ("a partner scoring at least as well"),
without ties the relation has one run (`C02.certificate_unique_of_no_ties`).
The model receives the labels, frame ids, policy, mode, target labels,
thresholds and the matrix of matching scores `MatchingMethod(est, gt).value` computed by the real matching
classes and converted exactly (Fraction of the float), so all four modes and exact ties are covered without
tolerance.  For small cases the model's score table is additionally compared cell by cell with the real
`frame_id ==`, `get_label_threshold`, `is_better_than`, `MatchingLabelPolicy.is_matchable`.

The oracle is the property statement evaluated on the real output with independent references (geometry
recomputed in exact rationals / by an own convex clipper, no use of the model).

What is NOT judged (the statements have no error clause; `out_of_domain`): calls whose radius list has no entry for some
target label, IoU thresholds outside [0, 1], ROI-less objects without uuid - whether, when and with which exception class
the library rejects them is left to the library; such cases are counted as skipped.  Inside the quantifier an exception of
the call is a failure ("the matcher pairs each estimate ..."), whatever its class.

Only public names of /repo are used (`dataset_paths=[]` builds a manager without a dataset); set-up of a case runs outside the
`try` of `run_impl`, so a harness failure is never reported as a verdict on the property.
"""
from __future__ import annotations

import math
from fractions import Fraction
from typing import Any, Dict, List, Optional, Tuple

from .. import core

PROP = "C01"
THEOREMS = [
    "PEval.C01." + t
    for t in [
        "results_est_perm", "results_est_nodup", "results_gt_nodup", "pair_has_score", "pair_same_frame",
        "pair_within_radius", "pair_closer_than_radius", "table_score_iff", "unpaired_are_leftover",
        "fpval_all_paired", "fpval_drops_unpaired", "fpval_empty_gt", "empty_gt_all_unpaired", "empty_est",
        "results_length",
        # the dispatch of get_object_results over object kind x label family x uuids x uuid_matching_first
        # (lean/PEval/Model/MatchDispatch.lean): objects with geometry are served by the geometric matcher, so the
        # statements above hold for every label family and uuid setting
        "dispatch_geometric_iff", "dispatch_roiless", "withGeometry_eq_geometric", "geometric_independent_of_family_uuid",
        "x_results_est_perm", "x_results_gt_nodup", "x_pair_within_radius", "x_fpval_all_paired",
        # totality / error characterisation (lean/PEval/Lemmas/MatchingTotal.lean): when the matcher returns, when it raises,
        # which exception (IndexError of get_label_threshold, AssertionError of the IoU is_better_than), first failing cell
        "total_of_wellformed", "wellformed_of_no_thresholds", "raises_iff", "returns_iff", "raises_first_failing_cell",
        "cell_raises_iff", "error_kinds", "table_is_code_table_of_ok", "x_total_of_wellformed",
        "x_tlr_total", "x_tlr_null_uuid_raises",
        # "the caller's lists are left untouched": heap model of the list handling of get_object_results
        # (lean/PEval/Model/MatchHeap.lean: the two .copy() calls, pops on the copies); the real-code observation is
        # `untouched` / `frame_gt_untouched` of run_impl below; the variant without .copy() refutes caller_lists_untouched
        "existing_lists_untouched", "caller_lists_untouched", "heap_results_are_input_objects",
        "heap_result_objects_in_lists", "heap_results_est_perm",
        # lists the dispatch does not look at (a later ROI-less object, 2-D objects with a 3-D-only mode): the constructor exits
        # of the matching classes (MatchDispatch.getObjectResultsXE, the function the driver op matchx runs)
        "xe_eq_x_of_readable", "xe_readable_of_geometry", "xe_constructor_raises_iff", "xe_cell_raises_iff",
        "xe_geometric_raises_iff",
        # labels as enum members: the one-family assumption of the value-level model made explicit
        "family_isMatchable_eq", "family_cell_eq",
    ]
] + (
    # decision tables of the kernels C01 rests on, regenerated from the source on every run (harness/dt_match.py)
    ["PEval.KernelCell.cell_table_check", "PEval.KernelCell.cell_code_table_eq_model", "PEval.KernelCell.cell_eq_skeleton", "PEval.KernelCell.cell_code_table_eq_cell", "PEval.KernelCell.table_cell_nan_on_radius", "PEval.KernelCell.table_cell_other_frame", "PEval.KernelCell.table_cell_nan_on_radius_iou", "PEval.MatchKernels.valCell_consistent"]
    + ["PEval.KernelBetter.better_table_check", "PEval.KernelBetter.better_code_table_eq_model", "PEval.KernelBetter.better_eq_skeleton", "PEval.KernelBetter.better_code_table_eq_isBetterThan", "PEval.KernelBetter.better_code_table_eq_isBetterThan_matcher", "PEval.KernelBetter.table_distance_direction", "PEval.KernelBetter.table_iou_direction", "PEval.KernelBetter.table_equal_not_better", "PEval.KernelBetter.table_none_not_better", "PEval.KernelBetter.table_better_mono", "PEval.MatchKernels.valBetter_consistent", "PEval.MatchKernels.forbIoU_consistent"]
    + ["PEval.KernelMatchable.matchable_table_check", "PEval.KernelMatchable.matchable_code_table_eq_model", "PEval.KernelMatchable.matchable_eq_skeleton", "PEval.KernelMatchable.matchable_valuation_consistent", "PEval.KernelMatchable.matchable_code_table_eq_isMatchable", "PEval.KernelMatchable.matchable_code_table_eq_isMatchable_AP", "PEval.KernelMatchable.table_fp_gt_compatible", "PEval.KernelMatchable.table_allow_any", "PEval.KernelMatchable.table_strict_iff"]
)
RULE = (
    "seeded scenes of 0..8 (thorough: up to 30) estimates x ground truths, 3-D boxes (base_link/map) and 2-D ROIs "
    "(two cameras), labels car/bicycle/pedestrian/motorbike/truck/bus/unknown + FP-labelled ground truth, clusters of "
    "estimates around one ground truth, exact duplicates and symmetric offsets (exact score ties), 3 label policies, "
    "4 matching modes (2-D: center distance, IoU2D), thresholds none / per-label list (2 % out-of-range or short "
    "lists: outside the quantifier, run but counted as skipped:out-of-domain), detection vs FP validation, a slice through PerceptionEvaluationManager.add_frame_result; in 35 % of the "
    "cases numeric type variants: the same radii / positions / sizes / velocities / confidences / ROI pixels / time "
    "stamps / point counts / ego pose / manager configuration numbers handed to the real code as int, np.float64, "
    "np.float32 (only values exact in single precision), np.int64, np.int32, in tuples, lists or ndarrays, a uniform "
    "radius as a scalar or one-element list in the manager configuration (model request and oracle unchanged); "
    "PATH-SELECTING FIELDS: a deterministic grid (grid_cases) of EVERY combination object kind {3-D box, 2-D with ROI, 2-D "
    "without ROI} x label set {AutowareLabel, TrafficLightLabel colours, TrafficLightLabel.TRAFFIC_LIGHT} x uuids {distinct, "
    "shared between the sides so that identity suggests another pairing than geometry, None} x every EvaluationTask admitting "
    "the kind (detection/tracking/prediction/fp_validation, detection2d/tracking2d/classification2d/fp_validation2d) x "
    "uuid_matching_first {absent, False, True} x matching mode x radii {none, tight} on three fixed scenes (labels, uuids and "
    "geometry each suggest a different pairing, one estimate unpaired, one equal-label pair beyond the radius, two cameras), "
    "the same through the manager (autoware and traffic_light label prefix); and in 45 % of the seeded cases the same fields "
    "varied at random (re-labelling into TrafficLightLabel members on the traffic-light cameras, uuid schemes incl. partly "
    "None, task, uuid_first, 8 % of the 2-D ones ROI-less); the Lean model (op matchx) gets kind / family / uuids / ROI "
    "presence and dispatches itself; a case is "
    "non-trivial when both lists are non-empty (the two early returns are counted separately); distinct = distinct case JSON"
)
TRUSTED = [
    "decision-table translator (harness/dtable.py, harness/dt_match.py): the symbolic stubs stand for the objects, labels, "
    "matching methods and thresholds of the tabulated kernels and answer every query of the REAL function from the recorded "
    "valuation only; anything else the code touches is a leak (table marked untranslatable, no alarm); `a is b` of the "
    "modules under test is routed through __dt_is__ (recompiled from the current source)",
    "matching scores are taken from the real MatchingMethod classes (shapely/numpy inside) and handed to the model exactly; "
    "their geometric meaning is C06's subject, here only the radius gate is recomputed independently",
    "manager slice: the lists handed to the matcher are obtained by calling the real filter_objects with the manager's "
    "own filtering parameters (the filter itself is C10's subject)",
    "result objects are mapped to positions of the input lists by Python identity, else (a result type holding a copy) by equal "
    "value: label, frame, geometry, uuid (`_locate`); the caller's own lists are compared by identity, order and content",
    "certificate of another tie winner: the order of picks is proposed by the harness (compatible pairs by the label NAMES, each "
    "group best score first); it is the Lean checker that decides (soundness proved, no completeness needed)",
]
ASSUMPTIONS = [
    "domain of the radius setting ('every per-label radius list or none'): one entry per target label, IoU thresholds inside "
    "[0, 1]; other lists (and ROI-less objects without uuid) get no verdict from oracle or correspondence, whatever the library "
    "does with them (raise any exception, eagerly or lazily, or return)",
    "the result list is compared as a set of pairs plus a set of unpaired estimates; an outcome other than the model's is "
    "accepted iff Lean's checkTwoStage accepts it as a run of the any-best relation (C02.certificate_sound)",
    "decision tables: Boolean and order atoms are treated as independent (over-approximation of the input space, sound for "
    "'table = model'); enum arguments (policy, matching mode) are enumerated over the members of the current source; "
    "an untranslatable source (histogram key table:untranslatable) leaves the correspondence as the only tie",
    "C01's statement is asserted for objects that carry geometry (3-D box or 2-D ROI), for BOTH label families and any uuids; "
    "ROI-less 2-D objects (no geometry; _get_object_results_with_id/_for_tlr are C11's subject) are run through the same entry "
    "point with unique non-null uuids, compared with the model's identity-based matchers, and the oracle asserts only what "
    "holds for every matcher (nothing foreign, one-to-one, same frame, lists untouched, the two early returns), NOT 'every "
    "estimate in a result' (the traffic-light matcher documents that it drops them); lists mixing objects with and without "
    "ROI are not generated",
    "all labels of one call (objects, target labels) belong to one label family; 3-D objects with TrafficLightLabel only in the "
    "direct call; manager slice with label_prefix traffic_light uses the labels its converter produces for a non-classification "
    "task (traffic_light / unknown / false_positive)",
    "estimates and ground truths are of the same Python type (the isinstance assertion is not exercised)",
    "3-D frames are base_link/map with a base_link->map transform supplied",
    "the oracle's independent IoU / plane-distance recomputation uses floats: a pair closer than 1e-7 to its threshold is not judged",
    "numeric type variants keep the mathematical value (bool is not a numeric type; np.float32 only for values exact in single "
    "precision); with float32-held geometry or radii a pair closer than 1e-4 (relative) to its threshold is not judged, and a case "
    "with a float32 radius and a score within 1e-6 (relative) of it is skipped; ndarray-held positions only in the direct call "
    "(DynamicObject.__eq__, used by later stages of the manager, is defined for tuple positions)",
]
EXHAUSTIVE = False

EST_LABELS = ["car", "bicycle", "pedestrian", "motorbike", "truck", "bus", "unknown"]
FP = "false_positive"
SIZES = [(2.0, 4.0, 1.5), (1.0, 1.0, 2.0), (0.5, 2.0, 1.5), (2.5, 8.0, 3.0), (2.0, 4.0, 1.5)]
MODES3D = ["center", "plane", "iou2d", "iou3d"]
MODES2D = ["center", "iou2d"]
POLICIES = ["DEFAULT", "ALLOW_UNKNOWN", "ALLOW_ANY"]
TARGET_SETS = [
    ["car", "bicycle", "pedestrian", "motorbike"],
    ["car", "truck", "bus", "bicycle", "motorbike", "pedestrian"],
    ["pedestrian", "car"],
    ["car", "bicycle", "pedestrian", "motorbike", "truck", "bus", "unknown"],
    ["car", "pedestrian", FP],
    ["unknown", "car", "bicycle", "pedestrian", "motorbike"],
]

_MOD: Dict[str, Any] = {}
STATS: Dict[str, int] = __import__("collections").Counter()


TABLE_KEYS = ["cell", "better", "matchable"]


def _table_note():
    """(histogram key, info) about the decision tables of this run (harness/dt_match.py)"""
    try:
        from .. import dt_match

        return dt_match.table_note(TABLE_KEYS)
    except Exception as e:  # noqa: BLE001 - the table machinery must never fail a check
        return "table:untranslatable", {"error": f"{type(e).__name__}: {e}"}


def table_witnesses() -> list:
    """cases realising the valuations on which a regenerated decision table and its model skeleton differ (empty on an
    unchanged tree): they go FIRST, so a broken table theorem leads straight to its input"""
    try:
        from .. import dt_match

        return (dt_match.witness_cases(["cell", "better"], dt_match.realise_c01)
                + dt_match.witness_cases(["matchable"], dt_match.realise_c02))
    except Exception:  # noqa: BLE001
        return []


def extra_evidence() -> dict:
    key, info = _table_note()
    return {"oracle_counters": dict(STATS), "decision_tables": info, "decision_tables_status": key}


def _m():
    """lazy import of the real code"""
    if _MOD:
        return _MOD
    import numpy as np
    from pyquaternion import Quaternion
    from perception_eval.common.dataset import FrameGroundTruth
    from perception_eval.common.evaluation_task import EvaluationTask
    from perception_eval.common.label import AutowareLabel, Label
    from perception_eval.common.object import DynamicObject
    from perception_eval.common.object2d import DynamicObject2D
    from perception_eval.common.schema import FrameID
    from perception_eval.common.shape import Shape, ShapeType
    from perception_eval.common.threshold import get_label_threshold
    from perception_eval.common.transform import HomogeneousMatrix, TransformDict
    from perception_eval.evaluation.matching import objects_filter
    from perception_eval.evaluation.matching.object_matching import (
        CenterDistanceMatching, IOU2dMatching, IOU3dMatching, MatchingLabelPolicy, MatchingMode, PlaneDistanceMatching,
    )
    from perception_eval.evaluation.result.object_result import get_object_results

    _MOD.update(locals())
    _MOD["METHOD"] = {
        "center": (MatchingMode.CENTERDISTANCE, CenterDistanceMatching),
        "plane": (MatchingMode.PLANEDISTANCE, PlaneDistanceMatching),
        "iou2d": (MatchingMode.IOU2D, IOU2dMatching),
        "iou3d": (MatchingMode.IOU3D, IOU3dMatching),
    }
    return _MOD


# ----------------------------------------------------------------------------- numeric type variants
#
# The library's API takes numbers (radii, thresholds, positions, sizes, confidences, ROI pixels, time stamps, point
# counts).  The case JSON always holds the canonical value (a Python float, or int for pixels/counts); the optional
# field case["num"] names, per numeric parameter, the numeric TYPE in which the SAME mathematical value is handed to
# the real code.  The model request and the oracle work on the canonical values only, so they do not change.
# bool is not a numeric type here.  A tag is only used for a value that it represents exactly.

FLOAT_TAGS = ["float", "int", "np.float64", "np.float32", "np.int64", "np.int32"]
INT_TAGS = ["int", "np.int64", "np.int32"]
ARRAY_TAGS = ["np.float64", "np.float32", "np.int64", "np.int32"]


def num_ok(v, tag: str) -> bool:
    """can the value be given in this numeric type without changing it?"""
    if isinstance(v, bool) or not isinstance(v, (int, float)) or v != v or v in (math.inf, -math.inf):
        return False
    if tag == "float":
        return float(v) == v
    if tag == "np.float64":
        return float(v) == v
    if tag in ("int", "np.int64"):
        return float(v).is_integer() and abs(v) < 2 ** 53
    if tag == "np.int32":
        return float(v).is_integer() and abs(v) < 2 ** 31
    if tag == "np.float32":
        import numpy as np

        with np.errstate(all="ignore"):
            return bool(np.isfinite(np.float32(v))) and Fraction(float(np.float32(v))) == Fraction(v)
    return False


def num_cast(v, tag: Optional[str]):
    """the value in the numeric type named by the tag (the canonical value itself when there is no tag or it does not fit)"""
    if tag is None or not num_ok(v, tag):
        return v
    if tag == "float":
        return float(v)
    if tag == "int":
        return int(v)
    import numpy as np

    t = {"np.float64": np.float64, "np.float32": np.float32, "np.int64": np.int64, "np.int32": np.int32}[tag]
    return t(int(v)) if tag in ("np.int64", "np.int32") else t(v)


def num_pick(rng, v, tags=FLOAT_TAGS) -> str:
    """a type tag for the value, drawn from the types that represent it exactly"""
    ok = [t for t in tags if num_ok(v, t)]
    return rng.choice(ok) if ok else tags[0]


def vec_pick(rng, vals, tags=FLOAT_TAGS, containers=("tuple", "tuple", "list", "array")) -> dict:
    """a container + element types for a vector of numbers: tuple/list of (independently typed) scalars, or an ndarray"""
    c = rng.choice(list(containers))
    if c == "array":
        ok = [t for t in ARRAY_TAGS if t in tags and all(num_ok(v, t) for v in vals)]
        if ok:
            return {"c": "array", "t": rng.choice(ok)}
        c = "tuple"
    if rng.random() < 0.5:  # one type for all elements
        ok = [t for t in tags if all(num_ok(v, t) for v in vals)]
        t = rng.choice(ok) if ok else tags[0]
        return {"c": c, "t": [t] * len(vals)}
    return {"c": c, "t": [num_pick(rng, v, tags) for v in vals]}


def vec_cast(vals, spec: Optional[dict], default=tuple):
    if not spec:
        return default(vals)
    if spec["c"] == "array":
        import numpy as np

        if all(num_ok(v, spec["t"]) for v in vals):
            return np.array([num_cast(v, spec["t"]) for v in vals], dtype=getattr(np, spec["t"][3:]))
        return default(vals)
    typed = [num_cast(v, t) for v, t in zip(vals, list(spec["t"]) + [None] * len(vals))]
    return list(typed) if spec["c"] == "list" else tuple(typed)


def _num(case: dict) -> dict:
    return case.get("num") or {}


def typed_radii(case: dict):
    """the radius list as it is handed to the real code"""
    if case["radii"] is None:
        return None
    tags = _num(case).get("radii")
    if not tags:
        return case["radii"]
    return [num_cast(r, t) for r, t in zip(case["radii"], list(tags) + [None] * len(case["radii"]))]


def uses_low_precision(case: dict) -> bool:
    """some geometry is held in float32: the library may then compute in that precision"""
    nv = _num(case)
    for which in ("ests", "gts"):
        for t in nv.get(which) or []:
            for key in ("pos", "size"):
                sp = (t or {}).get(key)
                if sp and any(x == "np.float32" for x in ([sp["t"]] if isinstance(sp["t"], str) else sp["t"])):
                    return True
    sp = nv.get("ego")
    return bool(sp and any(x == "np.float32" for x in ([sp["t"]] if isinstance(sp["t"], str) else sp["t"])))


def gen_num(rng, case: dict, p: float = 0.6) -> dict:
    """numeric type variants for the numeric parameters of a case; every parameter is varied with probability p"""
    nv: Dict[str, Any] = {}
    if case["radii"] is not None:
        r = rng.random()
        if r < 0.5:  # the whole list in one type (a list read from YAML as ints, a numpy row converted with list())
            ok = [t for t in FLOAT_TAGS if all(num_ok(v, t) for v in case["radii"])]
            nv["radii"] = [rng.choice(ok)] * len(case["radii"])
        else:
            nv["radii"] = [num_pick(rng, v) if rng.random() < 0.8 else "float" for v in case["radii"]]
        if case["kind"] == "manager" and case["targets"] and len(case["radii"]) == len(case["targets"]) and len(set(case["radii"])) == 1:
            nv["radii_form"] = rng.choice(["list", "scalar", "single"])
            if nv["radii_form"] != "list":
                nv["radii"] = [nv["radii"][0]] * len(case["radii"])
    # ndarray-held positions only for the direct call: DynamicObject.__eq__ (used by the manager's later stages, not by
    # the matcher) is defined for the documented tuple positions only
    cont = ("tuple", "tuple", "list") if case["kind"] == "manager" else ("tuple", "tuple", "list", "array")
    for which in ("ests", "gts"):
        specs = []
        for o in case[which]:
            t: Dict[str, Any] = {}
            if case["dim"] == "3d":
                if rng.random() < p:
                    t["pos"] = vec_pick(rng, o["pos"], containers=cont)
                if rng.random() < p:
                    t["size"] = vec_pick(rng, o["size"], containers=cont)
                if rng.random() < p / 2:
                    t["vel"] = vec_pick(rng, [0.0, 0.0, 0.0], containers=cont)
                if rng.random() < p / 2:
                    t["pcn"] = rng.choice(INT_TAGS)
            else:
                if o.get("roi") is not None and rng.random() < p:
                    t["roi"] = vec_pick(rng, o["roi"], INT_TAGS, ("tuple", "tuple", "list"))
            if "conf" in o and rng.random() < p:
                t["conf"] = num_pick(rng, o["conf"])
            if rng.random() < p / 2:
                t["t"] = rng.choice(INT_TAGS)
            specs.append(t)
        nv[which] = specs
    if case["dim"] == "3d" and rng.random() < p:
        nv["ego"] = vec_pick(rng, [case["ego"][0], case["ego"][1], 0.0], containers=cont)
    if case["kind"] == "manager" and rng.random() < p:
        nv["cfg"] = rng.choice(["int", "int", "np.float64", "np.float32", "np.int64"])
    return nv


# ----------------------------------------------------------------------------- building real objects

# ----------------------------------------------------------------------------- object kind x label family x optional fields
#
# `get_object_results` is ONE entry point for 3-D boxes, 2-D objects with a ROI and ROI-less 2-D objects, for both label
# families (AutowareLabel / TrafficLightLabel), with uuids set or None and for every evaluation task that admits the
# kind; which matcher serves a call is decided from these fields.  Optional case fields (absent = the former default):
#   "family": "autoware" | "traffic_light"      label family of ALL labels of the case (objects and target labels)
#   object["uuid"]: str | None                  (absent: harness default, distinct on both sides)
#   object["roi"]: None                         ROI-less 2-D object (no geometry: outside C01's statement, see oracle)
#   "task": value of an EvaluationTask member   (absent: detection(2d) / fp_validation(2d) from "task_fp")
#   "uuid_first": bool                          the `uuid_matching_first` argument / configuration entry

TL_OF = {"car": "green", "bicycle": "red", "pedestrian": "yellow", "motorbike": "red_left", "truck": "green_straight",
         "bus": "traffic_light", "unknown": "unknown", "false_positive": "false_positive"}
TL_FRAMES = {"cam_front": "cam_traffic_light_near", "cam_back": "cam_traffic_light_far"}
TASKS = {("3d", False): ["detection", "tracking", "prediction"], ("3d", True): ["fp_validation"],
         ("2d", False): ["detection2d", "tracking2d", "classification2d"], ("2d", True): ["fp_validation2d"]}


def _family(case: dict) -> str:
    return case.get("family", "autoware")


def is_roiless(case: dict) -> bool:
    return case["dim"] == "2d" and any(o.get("roi") is None for o in case["ests"] + case["gts"])


def _label_enum(case_or_family):
    M = _m()
    fam = case_or_family if isinstance(case_or_family, str) else _family(case_or_family)
    if fam == "traffic_light":
        from perception_eval.common.label import TrafficLightLabel

        return TrafficLightLabel
    return M["AutowareLabel"]


def _label(name: str, family: str = "autoware"):
    M = _m()
    lab = _label_enum(family)(name)
    return M["Label"](lab, name, [])


def build_objects(case: dict, which: str) -> list:
    M = _m()
    out = []
    specs = _num(case).get(which) or []
    for k, o in enumerate(case[which]):
        uuid = o["uuid"] if "uuid" in o else f"{which[0]}{k}"
        t = (specs[k] if k < len(specs) else None) or {}
        conf = num_cast(o.get("conf", 0.9), t.get("conf"))
        stamp = num_cast(100, t.get("t"))
        if case["dim"] == "3d":
            q = M["Quaternion"](axis=[0, 0, 1], angle=o["yaw"])
            out.append(
                M["DynamicObject"](
                    stamp, M["FrameID"](o["frame"]), vec_cast(o["pos"], t.get("pos")), q,
                    M["Shape"](M["ShapeType"].BOUNDING_BOX, vec_cast(o["size"], t.get("size"))),
                    vec_cast([0.0, 0.0, 0.0], t.get("vel")),
                    conf, _label(o["label"], _family(case)), pointcloud_num=num_cast(10, t.get("pcn")), uuid=uuid,
                )
            )
        else:
            out.append(
                M["DynamicObject2D"](stamp, M["FrameID"](o["frame"]), conf, _label(o["label"], _family(case)),
                                     roi=None if o.get("roi") is None else vec_cast(o["roi"], t.get("roi")), uuid=uuid)
            )
    return out


def build_matrices(case: dict):
    M = _m()
    if case["dim"] != "3d":
        return None
    x, y, yaw = case["ego"]
    return [M["HomogeneousMatrix"](vec_cast([x, y, 0.0], _num(case).get("ego")), M["Quaternion"](axis=[0, 0, 1], angle=yaw),
                                   M["FrameID"].BASE_LINK, M["FrameID"].MAP)]


def build_transforms(case: dict):
    mats = build_matrices(case)
    return None if mats is None else _m()["TransformDict"](mats)


def _task(case: dict):
    M = _m()
    T = M["EvaluationTask"]
    if case.get("task"):
        return T(case["task"])
    if case["dim"] == "3d":
        return T.FP_VALIDATION if case["task_fp"] else T.DETECTION
    return T.FP_VALIDATION2D if case["task_fp"] else T.DETECTION2D


def _targets(case: dict):
    M = _m()
    return None if case["targets"] is None else [_label_enum(case)(t) for t in case["targets"]]


def _snapshot(objs: list) -> list:
    snap = []
    for o in objs:
        geo = tuple(o.state.position) + tuple(o.state.size) + tuple(o.state.orientation.q) if hasattr(o.state, "size") and o.state.size is not None else (
            () if o.roi is None else tuple(o.roi.offset) + tuple(o.roi.size)
        )
        snap.append((id(o), o.semantic_label.label.value, str(o.frame_id.value), tuple(float(v) for v in geo), o.uuid))
    return snap


_TMP: Dict[str, str] = {}


def _tmp_root() -> str:
    """ONE scratch directory per process for the `result_root_directory` of every configuration (removed at exit)"""
    if "dir" not in _TMP:
        import atexit
        import shutil
        import tempfile

        _TMP["dir"] = tempfile.mkdtemp(prefix="peval_c01_")
        atexit.register(shutil.rmtree, _TMP["dir"], True)
    return _TMP["dir"]


def _manager(case: dict):
    """a NEW real PerceptionEvaluationManager for the case's configuration (no cache: a replayed case takes exactly the
    path of the original run).  Public construction only: `dataset_paths=[]` makes the constructor load nothing (the
    matcher needs no dataset); set-up errors propagate to the runner (infrastructure, not a verdict on the property)."""
    nv = _num(case)
    ctag = nv.get("cfg")
    from perception_eval.config import PerceptionEvaluationConfig
    from perception_eval.manager import PerceptionEvaluationManager

    n = len(case["targets"])
    if case["dim"] == "3d":
        d = {
            "evaluation_task": "fp_validation" if case["task_fp"] else "detection",
            "target_labels": list(case["targets"]),
            "max_x_position": num_cast(1000.0, ctag), "max_y_position": num_cast(1000.0, ctag), "min_point_numbers": [0] * n,
            "label_prefix": "autoware", "merge_similar_labels": False,
            "matching_label_policy": case["policy"],
            "center_distance_thresholds": [[num_cast(1.0, ctag)] * n], "plane_distance_thresholds": [num_cast(2.0, ctag)],
            "iou_2d_thresholds": [num_cast(0.5, ctag)], "iou_3d_thresholds": [num_cast(0.5, ctag)],
        }
        frame = case.get("mframe", "base_link")
    else:
        d = {
            "evaluation_task": case.get("task") or ("fp_validation2d" if case["task_fp"] else "detection2d"),
            "target_labels": list(case["targets"]),
            "label_prefix": _family(case), "merge_similar_labels": False,
            "matching_label_policy": case["policy"],
            "center_distance_thresholds": [[num_cast(100.0, ctag)] * n], "iou_2d_thresholds": [num_cast(0.5, ctag)],
        }
        frame = ["cam_front", "cam_back"] if _family(case) == "autoware" else ["cam_traffic_light_near", "cam_traffic_light_far"]
    if "uuid_first" in case:
        d["uuid_matching_first"] = bool(case["uuid_first"])
    if case["radii"] is not None:
        tr = list(typed_radii(case))
        form = nv.get("radii_form", "list")
        uniform = len(tr) == n and len(set(case["radii"])) == 1
        # a scalar / one-element list is expanded by the library to one radius per target label
        d["max_matchable_radii"] = tr[0] if form == "scalar" and uniform else [tr[0]] if form == "single" and uniform else tr
    cfg = PerceptionEvaluationConfig(
        dataset_paths=[], frame_id=frame, result_root_directory=_tmp_root(), evaluation_config_dict=d,
    )
    m = PerceptionEvaluationManager(cfg)
    try:  # the manager's visualizer opens a matplotlib figure that is never drawn here: release it
        import matplotlib.pyplot as plt

        plt.close("all")
    except Exception:  # noqa: BLE001 - housekeeping only
        pass
    return m


def _table_facts(case: dict, ests: list, gts: list, transforms) -> Tuple[list, list]:
    """per cell: the exact matching score and the real code's verdicts (frame equality, threshold gate, label policy)"""
    M = _m()
    _, cls = M["METHOD"][case["mode"]]
    policy = M["MatchingLabelPolicy"](case["policy"])
    targets = _targets(case)
    radii = typed_radii(case)
    vals, facts = [], []
    for e in ests:
        rv, rf = [], []
        for g in gts:
            same = bool(e.frame_id == g.frame_id)
            if not same:
                rv.append("0")
                rf.append([False, None, None])
                continue
            method = cls(estimated_object=e, ground_truth_object=g, transforms=transforms)
            v = method.value
            rv.append(core.q(float(v)))
            try:
                thr = M["get_label_threshold"](g.semantic_label, targets, radii)
                within = None if thr is None else bool(method.is_better_than(thr))
            except Exception as ex:  # IndexError (short list) / AssertionError (IoU threshold outside [0,1])
                within = "err:" + type(ex).__name__
            rf.append([True, within, bool(policy.is_matchable(e, g))])
        vals.append(rv)
        facts.append(rf)
    return vals, facts


def _value_key(snap_entry: tuple) -> tuple:
    """what an object IS for "nothing appears that was not in the input": label, frame, geometry, uuid (not its address)"""
    return tuple(snap_entry[1:])


def _locate(obj, objs: list, ids: Dict[int, int], snaps: list, used: set) -> int:
    """position of a result's object in the input list.  The very input object (Python identity) when the result holds it;
    otherwise - a result type that keeps a (defensive) copy is as good under "nothing appears that was not in the input" -
    the first not yet used input object of equal value (label, frame, geometry, uuid); -1 = not an input object."""
    k = ids.get(id(obj))
    if k is not None:
        used.add(k)
        return k
    try:
        key = _value_key(_snapshot([obj])[0])
    except Exception:  # noqa: BLE001 - not even an object of the input's kind
        return -1
    for k, sn in enumerate(snaps):
        if k not in used and _value_key(sn) == key:
            used.add(k)
            STATS["results_mapped_by_value(not identity)"] += 1
            return k
    return -1


def run_impl(case: dict) -> dict:
    """Set-up (objects, configuration, manager, the harness' own helper calls) runs OUTSIDE the `try`: a failure there is an
    infrastructure error of the harness and propagates to the runner.  Only the call the property is about
    (`get_object_results` / `add_frame_result`) may produce `out["err"]`."""
    import traceback

    M = _m()
    ests = build_objects(case, "ests")
    gts = build_objects(case, "gts")
    transforms = build_transforms(case)
    snap_e, snap_g = _snapshot(ests), _snapshot(gts)
    ids_e = {id(o): k for k, o in enumerate(ests)}
    ids_g = {id(o): k for k, o in enumerate(gts)}
    out: Dict[str, Any] = {}
    in_e, in_g = list(ests), list(gts)  # the objects the matcher receives (copied: the call must not change the lists)
    res = None
    if case["kind"] == "manager":
        from perception_eval.evaluation.result.perception_frame_config import (
            CriticalObjectFilterConfig, PerceptionPassFailConfig,
        )

        m = _manager(case)
        cfg = m.evaluator_config
        tl = list(case["targets"])
        n = len(tl)
        ctag = _num(case).get("cfg")
        if case["dim"] == "3d":
            crit = CriticalObjectFilterConfig(cfg, tl, max_x_position_list=[num_cast(1000.0, ctag)] * n,
                                              max_y_position_list=[num_cast(1000.0, ctag)] * n)
            pf = PerceptionPassFailConfig(cfg, tl, matching_threshold_list=[num_cast(2.0, ctag)] * n)
        else:
            crit = CriticalObjectFilterConfig(cfg, tl)
            pf = PerceptionPassFailConfig(cfg, tl, matching_threshold_list=[num_cast(0.5, ctag)] * n)
        frame = M["FrameGroundTruth"](100, "0", gts, transforms=build_matrices(case))
        # what the manager hands to the matcher: its own (public) filter on both lists
        in_e = M["objects_filter"].filter_objects(objects=list(ests), is_gt=False, transforms=frame.transforms, **m.filtering_params)
        in_g = M["objects_filter"].filter_objects(objects=list(gts), is_gt=True, transforms=frame.transforms, **m.filtering_params)
        try:
            fr = m.add_frame_result(100, frame, ests, crit, pf)
            res = list(fr.object_results)
        except Exception as ex:  # the call under test raised
            out["err"] = core.err_kind(ex)
            out["trace"] = traceback.format_exc()[-700:]
        # "the caller's lists are left untouched": the caller's FrameGroundTruth.objects is one of them (element identity + order)
        out["frame_gt_untouched"] = [id(o) for o in frame.objects] == [s[0] for s in snap_g]
    else:
        _mode, _cls = M["METHOD"][case["mode"]]
        kw = dict(
            evaluation_task=_task(case), estimated_objects=ests, ground_truth_objects=gts,
            target_labels=_targets(case), matching_label_policy=M["MatchingLabelPolicy"](case["policy"]),
            matching_mode=_mode, matchable_thresholds=typed_radii(case), transforms=transforms,
            **({"uuid_matching_first": bool(case["uuid_first"])} if "uuid_first" in case else {}),
        )
        try:
            res = list(M["get_object_results"](**kw))
        except Exception as ex:  # the call under test raised
            out["err"] = core.err_kind(ex)
            out["trace"] = traceback.format_exc()[-700:]
    if res is not None:
        rl = []
        used_e, used_g = set(), set()
        for r in res:
            e = _locate(r.estimated_object, ests, ids_e, snap_e, used_e)
            g = None if r.ground_truth_object is None else _locate(r.ground_truth_object, gts, ids_g, snap_g, used_g)
            rl.append([e, g])
        out["results"] = rl
    # the caller's two lists: same objects (identity), same order, same content
    out["untouched"] = _snapshot(ests) == snap_e and _snapshot(gts) == snap_g
    # content of the caller's two lists after the call, as positions in the lists before the call (compared with the heap
    # model MatchHeap.getObjectResultsH: lean/PEval/Model/MatchHeap.lean)
    out["after_e"] = [ids_e.get(id(o), -1) for o in ests]
    out["after_g"] = [ids_g.get(id(o), -1) for o in gts]
    ue, ug = set(), set()
    out["in_e"] = [_locate(o, ests, ids_e, snap_e, ue) for o in in_e]
    out["in_g"] = [_locate(o, gts, ids_g, snap_g, ug) for o in in_g]
    if -1 in out["in_e"] or -1 in out["in_g"]:
        raise RuntimeError("harness: the manager's filter returned an object that is not an input object")
    if is_roiless(case):
        # no geometry, no matching score: the model's identity-based matchers (C11's) do not read `vals`
        out["vals"] = [["0"] * len(in_g) for _ in in_e]
        return out
    try:
        out["vals"], out["facts"] = _table_facts(case, in_e, in_g, transforms)
    except Exception as ex:  # the real matching classes failed on this geometry in the harness' own second call: no model
        out["facts_err"] = core.err_kind(ex)  # request and no C02 scan are possible (histogram key unobservable:table-facts)
    return out


# ----------------------------------------------------------------------------- model side

def model_requests(case: dict, out: dict) -> list:
    if "vals" not in out:
        return []
    E = [case["ests"][k] for k in out["in_e"]]
    G = [case["gts"][k] for k in out["in_g"]]
    def uuid_of(o, which, k):
        return o["uuid"] if "uuid" in o else f"{which}{k}"

    tl = _family(case) == "traffic_light"
    cert = _certificate(case, out)
    return [{
        **({"cert": cert} if cert is not None else {}),
        "op": "matchx",
        "is2d": case["dim"] == "2d", "uuid_first": bool(case.get("uuid_first", False)),
        "est_tl": [tl] * len(E), "gt_tl": [tl] * len(G),
        "est_uuid": [uuid_of(case["ests"][k], "e", k) for k in out["in_e"]],
        "gt_uuid": [uuid_of(case["gts"][k], "g", k) for k in out["in_g"]],
        "est_roi_none": [case["dim"] == "2d" and o.get("roi") is None for o in E],
        "gt_roi_none": [case["dim"] == "2d" and o.get("roi") is None for o in G],
        "want_table": len(E) * len(G) <= 100 and "facts" in out,
        "policy": case["policy"],
        "mode": case["mode"],
        "targets": case["targets"],
        "thresholds": None if case["radii"] is None else [core.q(float(r)) for r in case["radii"]],
        "fp_validation": bool(case["task_fp"]),
        "est_labels": [o["label"] for o in E], "est_frames": [o["frame"] for o in E],
        "gt_labels": [o["label"] for o in G], "gt_frames": [o["frame"] for o in G],
        "vals": out["vals"],
    }]


def _names_compatible(policy: str, e_label: str, g_label: str) -> bool:
    """the documented label rule on label names (the same rule the model applies)"""
    if g_label == FP or policy == "ALLOW_ANY":
        return True
    if policy == "ALLOW_UNKNOWN":
        return e_label == g_label or e_label == "unknown"
    return e_label == g_label


def _certificate(case: dict, out: dict) -> Optional[dict]:
    """C02: "... a partner scoring AT LEAST as well" - the winner of an exact score tie is left open by the property, the
    model fixes it (first best cell in row-major order).  The real pairs are therefore handed to the model as a certificate:
    an ORDER in which they could have been picked (compatible pairs first, each group from the best score to the worst; picks
    of one run never improve, and equal-score picks are disjoint, so any valid order is of this shape).  The Lean checker
    `Matching.checkTwoStage` accepts it iff it is a run of the proved any-best relation `TwoStageRun`
    (`C02.certificate_sound`); `compare` accepts an outcome that differs from the model's only if the checker does."""
    if "results" not in out or "vals" not in out or is_roiless(case) or out_of_domain(case) is not None:
        return None
    pos_e = {k: i for i, k in enumerate(out["in_e"])}
    pos_g = {k: i for i, k in enumerate(out["in_g"])}
    maximize = case["mode"] in ("iou2d", "iou3d")
    s1, s2 = [], []
    for e, g in out["results"]:
        if g is None:
            continue
        if e not in pos_e or g not in pos_g:
            return None  # a foreign object: no certificate, the plain comparison reports it
        i, j = pos_e[e], pos_g[g]
        key = Fraction(out["vals"][i][j])
        ok = _names_compatible(case["policy"], case["ests"][e]["label"], case["gts"][g]["label"])
        (s1 if ok else s2).append((-key if maximize else key, i, j))
    return {"s1": [[i, j] for _k, i, j in sorted(s1)], "s2": [[i, j] for _k, i, j in sorted(s2)]}


def _near_low_precision_threshold(case: dict, out: dict) -> bool:
    """a radius handed over as float32 and a score within float32 resolution of it (not equal): numpy's promotion rules
    decide in which precision the comparison is done, so the decision is not judged"""
    tags = _num(case).get("radii") or []
    if "np.float32" not in tags or case["radii"] is None:
        return False
    for r, t in zip(case["radii"], tags):
        if t != "np.float32":
            continue
        for row in out.get("vals") or []:
            for v in row:
                d = abs(float(Fraction(v)) - r)
                if 0 < d <= 1e-6 * max(1.0, abs(r)):
                    return True
    return False


def _to_ids(out: dict, results: list) -> list:
    """model results are positions in the matcher's input lists; map back to the case's object ids"""
    return [[out["in_e"][i], None if j is None else out["in_g"][j]] for i, j in results]


def _heap_mismatch(case: dict, out: dict, r: dict) -> Optional[str]:
    """the heap model of the list handling (the two .copy() calls, pops on the copies) against the real lists after the call;
    direct calls only (through the manager the matcher's inputs are the filter's new lists).  "the caller's lists are left
    untouched" is about the caller's list objects: positions of the very input objects, in order."""
    hp = r.get("heap")
    if hp is None or case["kind"] == "manager" or "after_e" not in out:
        return None
    nE = len(out["in_e"])
    m_e, m_g = hp["ests_after"], [g - nE for g in hp["gts_after"]]
    if m_e != out["after_e"] or m_g != out["after_g"]:
        return (f"caller's lists after the call differ: impl estimates {out['after_e']} ground truths {out['after_g']}, "
                f"heap model estimates {m_e} ground truths {m_g}")
    return None


def _canon(results: list) -> Tuple[list, list]:
    """a result list as the property observes it: the SET of pairs and the SET of unpaired estimates (C01/C02 state nothing
    about the order of the returned list)"""
    return (sorted((e, g) for e, g in results if g is not None), sorted(e for e, g in results if g is None))


def compare(case: dict, out: dict, resps: list) -> Optional[str]:
    r = resps[0]
    if out_of_domain(case) is not None:
        # radius lists outside the quantifier ("every per-label radius list or none"): whether, when and with which exception
        # the call rejects them is not part of C01/C02; counted as skipped
        return "skip"
    hm = _heap_mismatch(case, out, r)
    if hm is not None:
        return hm
    # raised vs returned (no exception class is named by the property or its observation points)
    if "err" in out or "err" in r:
        if "err" in out and "err" in r:
            return None
        if "err" in out:
            return f"the call raised {out['err']} on an input inside the quantifier, the model returns {r.get('results')}"
        return f"the call returned {out.get('results')}, the model raises {r['err']} (harness: input should be inside the quantifier)"
    if _near_low_precision_threshold(case, out):
        return "skip"
    mres = _to_ids(out, r["results"])
    hp = r.get("heap")
    if hp is not None and hp.get("results") is not None and case["kind"] != "manager":
        nE = len(out["in_e"])
        m_r = _to_ids(out, [[e, None if g is None else g - nE] for e, g in hp["results"]])
        if _canon(m_r) != _canon(mres):
            return f"heap model and index model differ: {m_r} vs {mres}"
    if _canon(mres) != _canon(out["results"]):
        # another outcome than the model's: admissible iff it is a run of the any-best relation (other winner of an exact
        # tie; without ties the relation has one run, C02.certificate_unique_of_no_ties) leaving the same kind of leftovers
        ok = False
        if r.get("admits") is True:
            left = sorted(out["in_e"][i] for i in r.get("admit_left", []))
            got_pairs, got_left = _canon(out["results"])
            ok = (got_left == ([] if case["task_fp"] else left)) and len({e for e, _ in got_pairs}) == len(got_pairs)
        if not ok:
            return (f"results differ (model path: {r.get('path')}; not a run of the documented any-best relation either: "
                    f"admits={r.get('admits')}): impl {out['results']} model {mres}")
        STATS["compare:other-tie-winner-admitted-by-certificate"] += 1
    want_path = expected_path(case, out)
    if r.get("path") != want_path:
        return f"dispatch differs: the model takes the {r.get('path')} path, the documented matcher for this kind of object is {want_path}"
    tbl = r.get("table")
    if tbl is not None and "facts" in out:
        for i, row in enumerate(out["facts"]):
            for j, (same, within, label_ok) in enumerate(row):
                present = bool(same) and (within is None or within is True)
                ms, mv = tbl[i][j]
                if (ms is not None) != present:
                    return f"score table differs at ({i},{j}): real code same_frame={same} within={within}, model score {ms}"
                if present and (ms != out["vals"][i][j] or bool(mv) != bool(label_ok)):
                    return f"score table differs at ({i},{j}): real label_ok={label_ok} value={out['vals'][i][j]}, model {ms},{mv}"
    return None


# ----------------------------------------------------------------------------- independent geometry (oracle only)

def _corners(o: dict) -> List[Tuple[float, float]]:
    """BEV corners of a box in the sign-pattern order (+l,+w), (-l,+w), (-l,-w), (+l,-w)"""
    w, l, _ = o["size"]
    c, s = math.cos(o["yaw"]), math.sin(o["yaw"])
    x, y = o["pos"][0], o["pos"][1]
    return [(x + c * dx - s * dy, y + s * dx + c * dy) for dx, dy in ((l / 2, w / 2), (-l / 2, w / 2), (-l / 2, -w / 2), (l / 2, -w / 2))]


def _area(poly) -> float:
    a = 0.0
    for k in range(len(poly)):
        x1, y1 = poly[k]
        x2, y2 = poly[(k + 1) % len(poly)]
        a += x1 * y2 - x2 * y1
    return a / 2.0


def _clip(subject, clipper) -> float:
    """area of the intersection of two convex polygons (Sutherland-Hodgman); both counter-clockwise"""
    if _area(subject) < 0:
        subject = subject[::-1]
    if _area(clipper) < 0:
        clipper = clipper[::-1]
    outp = list(subject)
    for k in range(len(clipper)):
        ax, ay = clipper[k]
        bx, by = clipper[(k + 1) % len(clipper)]
        inp, outp = outp, []
        if not inp:
            break

        def side(p):
            return (bx - ax) * (p[1] - ay) - (by - ay) * (p[0] - ax)

        for i in range(len(inp)):
            p, qn = inp[i], inp[(i + 1) % len(inp)]
            sp, sq = side(p), side(qn)
            if sp >= 0:
                outp.append(p)
            if (sp > 0 and sq < 0) or (sp < 0 and sq > 0):
                t = sp / (sp - sq)
                outp.append((p[0] + t * (qn[0] - p[0]), p[1] + t * (qn[1] - p[1])))
    return abs(_area(outp)) if len(outp) >= 3 else 0.0


def independent_score(case: dict, e: dict, g: dict):
    """matching score of a pair recomputed from the case's numbers; Fraction when exact, else float"""
    mode = case["mode"]
    if case["dim"] == "2d":
        ex, ey, ew, eh = e["roi"]
        gx, gy, gw, gh = g["roi"]
        if mode == "center":
            dx = (ex + ew // 2) - (gx + gw // 2)
            dy = (ey + eh // 2) - (gy + gh // 2)
            return ("sq", Fraction(dx * dx + dy * dy))
        iw = max(0, min(ex + ew, gx + gw) - max(ex, gx))
        ih = max(0, min(ey + eh, gy + gh) - max(ey, gy))
        inter = iw * ih
        return ("val", Fraction(inter, ew * eh + gw * gh - inter))
    if mode == "center":
        d2 = sum((Fraction(a) - Fraction(b)) ** 2 for a, b in zip(e["pos"], g["pos"]))
        return ("sq", d2)
    ce, cg = _corners(e), _corners(g)
    if mode in ("iou2d", "iou3d"):
        inter = _clip(ce, cg)
        ae, ag = e["size"][0] * e["size"][1], g["size"][0] * g["size"][1]
        if mode == "iou2d":
            return ("val", inter / (ae + ag - inter))
        zlo = max(e["pos"][2] - e["size"][2] / 2, g["pos"][2] - g["size"][2] / 2)
        zhi = min(e["pos"][2] + e["size"][2] / 2, g["pos"][2] + g["size"][2] / 2)
        vol = inter * max(0.0, zhi - zlo)
        return ("val", vol / (ae * e["size"][2] + ag * g["size"][2] - vol))
    # plane distance: the ground truth's two corners nearest to the ego vehicle, paired with the estimate's
    # corners of the same index; root of the mean of the two squared corner distances
    ox, oy = (0.0, 0.0) if g["frame"] == "base_link" else (case["ego"][0], case["ego"][1])
    dist = sorted((math.hypot(p[0] - ox, p[1] - oy), k) for k, p in enumerate(cg))
    if abs(dist[1][0] - dist[2][0]) < 1e-9:
        return ("ambiguous", None)
    a, b = dist[0][1], dist[1][1]
    d2 = sum((ce[k][0] - cg[k][0]) ** 2 + (ce[k][1] - cg[k][1]) ** 2 for k in (a, b))
    return ("val", math.sqrt(0.5 * d2))


def radius_verdict(case: dict, e: dict, g: dict, thr: float) -> Optional[bool]:
    """is the pair strictly better than the threshold? None = too close to call / ambiguous"""
    kind, v = independent_score(case, e, g)
    margin = 1e-7
    if uses_low_precision(case) or "np.float32" in (_num(case).get("radii") or []):
        margin = 1e-4 * max(1.0, abs(thr))  # float32 geometry: the library may compute the score in single precision
    if kind == "ambiguous":
        return None
    maximize = case["mode"] in ("iou2d", "iou3d")
    t = Fraction(thr)
    if kind == "sq":
        if t <= 0:
            return False
        return v < t * t
    if isinstance(v, Fraction):
        if v != t and abs(v - t) < Fraction(1, 10 ** 12):
            return None
        return v > t if maximize else v < t
    if abs(v - float(t)) < margin:
        return None
    return v > float(t) if maximize else v < float(t)


def label_threshold(case: dict, g: dict):
    """threshold configured for the ground truth's label (None = none); 'short' when the list is too short"""
    if case["targets"] is None or case["radii"] is None or g["label"] not in case["targets"]:
        return None
    k = case["targets"].index(g["label"])
    if k >= len(case["radii"]):
        return "short"
    return case["radii"][k]


def expected_path(case: dict, out: dict) -> str:
    """which matcher the documentation assigns to the call ("For classification, matching objects their uuid. Otherwise,
    matching them depending on their center distance by default"): objects with geometry -> geometric, whatever the label
    family, the uuids and uuid_matching_first are; ROI-less 2-D objects -> the identity-based matchers (C11)"""
    E = [case["ests"][k] for k in out["in_e"]]
    G = [case["gts"][k] for k in out["in_g"]]
    if not E or not G:
        return "early"
    if case["dim"] == "2d" and (E[0].get("roi") is None or G[0].get("roi") is None):
        return "tlr" if _family(case) == "traffic_light" else "id"
    return "geometric"


def out_of_domain(case: dict) -> Optional[str]:
    """C01/C02 quantify over "every per-label radius list or none" and objects that carry geometry; their statements have no
    error clause.  A call is OUTSIDE that domain - whatever the frames, labels and cells of the scene are - when
      * the radius list has no entry for some target label (shorter than the target labels),
      * an IoU mode is given a threshold outside [0, 1],
      * ROI-less objects (C11's identity-based matchers) come without a uuid.
    Whether the library rejects such a call, with which exception class, eagerly or only when a cell reaches the bad entry,
    or tolerates it, is not the properties' business: oracle and correspondence make no claim (counted as skipped)."""
    if is_roiless(case):
        if any(("uuid" in o and o["uuid"] is None) for o in case["ests"] + case["gts"]):
            return "roi-less-without-uuid"
        return None
    radii = case.get("radii")
    if radii is None:
        return None
    if case["targets"] is not None and len(radii) < len(case["targets"]):
        return "radius-list-shorter-than-target-labels"
    if case["mode"] in ("iou2d", "iou3d") and any(not (0.0 <= float(t) <= 1.0) for t in radii):
        return "iou-threshold-outside-unit-interval"
    return None


# ----------------------------------------------------------------------------- oracle: the property itself

def oracle(case: dict, out: dict) -> Optional[str]:
    ood = out_of_domain(case)
    if ood is not None:
        STATS["oracle_no_claim:out-of-domain:" + ood] += 1
        return None
    if "err" in out:
        # inside the quantifier the matcher "pairs each estimate ...": it has to return
        call = "PerceptionEvaluationManager.add_frame_result" if case.get("kind") == "manager" else "get_object_results"
        return (f"{call} raised {out['err']} on an input inside the property's quantifier (no result returned); "
                f"trace: {str(out.get('trace', ''))[-200:]}")
    if "results" not in out or "in_e" not in out:
        return None  # nothing observed (cannot happen with this module's run_impl)
    if not out.get("untouched", True):
        return "the caller's lists were modified (object identity, order or content changed)"
    if out.get("frame_gt_untouched") is False:
        return "the caller's FrameGroundTruth.objects list was modified by add_frame_result"
    res = out["results"]
    E, G = out["in_e"], out["in_g"]
    ests, gts = case["ests"], case["gts"]
    # ROI-less 2-D objects carry no geometry: C01 speaks about objects WITH geometry, the identity-based matchers are C11's
    # subject (they do drop unpaired traffic-light estimates). Only what holds for every matcher is looked at: nothing
    # foreign, one-to-one, same frame, lists untouched.
    roiless = is_roiless(case)
    STATS["oracle_cases:" + ("roi-less(matcher-independent part only)" if roiless else "geometry")] += 1
    es = [r[0] for r in res]
    gs = [r[1] for r in res if r[1] is not None]
    # nothing foreign
    if any(e not in E for e in es) or any(g not in G for g in gs):
        return f"a result holds an object that was not in the input: {res} (estimates {E}, ground truths {G})"
    # one-to-one
    if len(set(es)) != len(es):
        return f"an estimate appears in two results: {res}"
    if len(set(gs)) != len(gs):
        return f"a ground truth is paired with two estimates: {res}"
    for e, g in res:
        if g is None:
            continue
        eo, go = ests[e], gts[g]
        if eo["frame"] != go["frame"]:
            return f"estimate {e} ({eo['frame']}) paired with ground truth {g} ({go['frame']}): different frames"
        if roiless:
            continue
        t = label_threshold(case, go)
        STATS["oracle_pairs_checked"] += 1
        if t is not None:
            v = radius_verdict(case, eo, go, t)
            STATS["oracle_radius_recomputed:" + case["mode"] + (":undecided" if v is None else "")] += 1
            if v is False:
                return (f"estimate {e} paired with ground truth {g} although not better than the threshold {t} "
                        f"configured for the ground truth's label {go['label']} (mode {case['mode']}, "
                        f"independent score {independent_score(case, eo, go)[1]})")
    if roiless and G:
        return None
    if case["task_fp"]:
        if any(g is None for _, g in res):
            return f"FP validation kept an unpaired estimate: {res}"
    else:
        if sorted(es) != sorted(E):
            return f"estimates {sorted(set(E) - set(es))} appear in no result (results {res})"
    if not G and res and case["task_fp"]:
        return f"FP validation without ground truth returned {res}"
    return None


# ----------------------------------------------------------------------------- histogram

def _bucket(n: int) -> str:
    return "0" if n == 0 else "1" if n == 1 else "2-4" if n <= 4 else "5-8" if n <= 8 else "9-30"


def scene_stats(case: dict, out: dict) -> dict:
    """facts about the scene, from the real code's per-cell verdicts"""
    facts = out.get("facts") or []
    vals = out.get("vals") or []
    st = {"diff_frame": 0, "gated": 0, "matchable": 0, "compatible": 0, "ties": False, "contested": False}
    seen = {}
    per_gt: Dict[int, int] = {}
    for i, row in enumerate(facts):
        for j, (same, within, ok) in enumerate(row):
            if not same:
                st["diff_frame"] += 1
            elif within is False:
                st["gated"] += 1
            elif within is None or within is True:
                st["matchable"] += 1
                st["compatible"] += 1 if ok else 0
                if vals[i][j] in seen:
                    st["ties"] = True
                seen[vals[i][j]] = True
                per_gt[j] = per_gt.get(j, 0) + 1
    st["contested"] = any(v >= 2 for v in per_gt.values())
    return st


def num_branches(case: dict) -> List[str]:
    """which numeric parameters are handed over in which numeric types"""
    nv = _num(case)
    if not nv:
        return ["num:canonical"]
    b = set()
    for t in nv.get("radii") or []:
        b.add("num:radius:" + t)
    if nv.get("radii_form"):
        b.add("num:radii-form:" + nv["radii_form"])
    for which in ("ests", "gts"):
        for spec in nv.get(which) or []:
            for key, sp in (spec or {}).items():
                if isinstance(sp, dict):
                    b.add(f"num:{key}:{sp['c']}")
                    for t in ([sp["t"]] if isinstance(sp["t"], str) else sp["t"]):
                        b.add(f"num:{key}:{t}")
                else:
                    b.add(f"num:{key}:{sp}")
    if nv.get("ego"):
        b.add("num:ego:" + nv["ego"]["c"])
    if nv.get("cfg"):
        b.add("num:cfg:" + nv["cfg"])
    return sorted(b) or ["num:canonical"]


def uuid_scheme(case: dict) -> str:
    us = [o["uuid"] for o in case["ests"] + case["gts"] if "uuid" in o]
    if not us:
        return "default-distinct"
    if all(u is None for u in us):
        return "all-none"
    if any(u is None for u in us):
        return "some-none"
    ue = {o.get("uuid") for o in case["ests"] if o.get("uuid") is not None}
    ug = {o.get("uuid") for o in case["gts"] if o.get("uuid") is not None}
    return "shared-between-sides" if ue & ug else "set-distinct"


def kind_branches(case: dict) -> List[str]:
    """object kind x label family x uuids x task x uuid_matching_first: the fields that select a code path"""
    kind = "3d" if case["dim"] == "3d" else ("2d-roi-less" if is_roiless(case) else "2d-roi")
    fam = _family(case)
    task = case.get("task") or (("fp_validation" if case["task_fp"] else "detection") + ("2d" if case["dim"] == "2d" else ""))
    b = [f"family:{fam}", f"kind-family:{kind}:{fam}", f"uuids:{uuid_scheme(case)}", f"kind-family-uuids:{kind}:{fam}:{uuid_scheme(case)}",
         f"evaluation-task:{task}", f"kind-family-task:{kind}:{fam}:{task}", "uuid_first:" + str(case.get("uuid_first", "default"))]
    if case.get("grid"):
        b.append("grid:" + case["kind"])
    return b


def branches(case: dict, out: dict) -> List[str]:
    b = [f"dim:{case['dim']}", f"mode:{case['dim']}:{case['mode']}", f"policy:{case['policy']}",
         f"task:{'fp_validation' if case['task_fp'] else 'detection'}", f"kind:{case['kind']}",
         f"nE:{_bucket(len(case['ests']))}", f"nG:{_bucket(len(case['gts']))}",
         "thresholds:" + ("none" if case["radii"] is None else "per-label"),
         "targets:" + ("none" if case["targets"] is None else "list")]
    b += num_branches(case)
    b += kind_branches(case)
    if case.get("table_witness"):
        b.append("table:witness-case")
    if not STATS.get("_table_noted"):
        STATS["_table_noted"] = 1
        b.append(_table_note()[0])
    nE, nG = len(out.get("in_e", [])), len(out.get("in_g", []))
    ood = out_of_domain(case)
    if ood is not None:
        b.append("skipped:out-of-domain:" + ood + (":raised" if "err" in out else ":returned"))
    if "err" in out:
        b.append("err:" + str(out["err"]))
        return b
    if "results" not in out:
        return b + ["unobservable:results"]
    if "facts_err" in out:
        b.append("unobservable:table-facts")
    if nE == 0:
        return b + ["early:no-estimate", "trivial"]
    if nG == 0:
        return b + ["early:no-ground-truth:" + ("fp" if case["task_fp"] else "all-unpaired"), "trivial"]
    b.append("path:" + expected_path(case, out))
    if is_roiless(case):
        unp = sum(1 for _, g in out["results"] if g is None)
        b.append("roi-less:leftover:" + ("none" if nE == len(out["results"]) - unp else "kept" if unp else "dropped"))
        return b
    if "facts" not in out:
        return b
    st = scene_stats(case, out)
    res = out["results"]
    pos_e = {k: i for i, k in enumerate(out["in_e"])}
    pos_g = {k: i for i, k in enumerate(out["in_g"])}
    s1 = s2 = 0
    for e, g in res:
        if g is not None and e in pos_e and g in pos_g:
            if out["facts"][pos_e[e]][pos_g[g]][2]:
                s1 += 1
            else:
                s2 += 1
    b.append("stage1-picks:" + ("0" if s1 == 0 else "1" if s1 == 1 else "2+"))
    b.append("stage2-picks:" + ("0" if s2 == 0 else "1" if s2 == 1 else "2+"))
    unp = sum(1 for _, g in res if g is None)
    dropped = nE - len(res)
    b.append("leftover:" + ("none" if unp + dropped == 0 else "kept" if unp else "dropped"))
    if st["diff_frame"]:
        b.append("nan:different-frame")
    if st["gated"]:
        b.append("nan:outside-threshold")
    if st["matchable"] == 0:
        b.append("table:all-nan")
    if st["ties"]:
        b.append("exact-score-tie")
    if st["contested"]:
        b.append("contested-gt")
    if any(o["label"] == FP for o in case["gts"]):
        b.append("gt:fp-label")
    if any(o["label"] == "unknown" for o in case["ests"]):
        b.append("est:unknown-label")
    if s1 + s2 == min(nE, nG) and nE != nG:
        b.append("exhausted:" + ("estimates" if nE < nG else "ground-truths"))
    if len(out["in_e"]) != len(case["ests"]) or len(out["in_g"]) != len(case["gts"]):
        b.append("manager:filter-dropped-objects")
    return b


# ----------------------------------------------------------------------------- generator

def _gen_objects3d(rng, nE: int, nG: int, flavor: str, mixed: bool, fp_bias: float):
    def frame():
        return rng.choice(["base_link", "map"]) if mixed else "base_link"

    def yaw():
        r = rng.random()
        if r < 0.5:
            return 0.0
        if r < 0.7:
            return rng.choice([math.pi / 2, math.pi, -math.pi / 2])
        return core.dyadic(rng, -3, 3, 8)

    gts = []
    for _ in range(nG):
        lab = FP if rng.random() < fp_bias else rng.choice(EST_LABELS[:6] + ["car", "pedestrian", "unknown"])
        rad = 4 if flavor == "cluster" else 16
        gts.append({"label": lab, "frame": frame(), "pos": [core.dyadic(rng, -rad, rad, 2), core.dyadic(rng, -rad, rad, 2),
                                                          rng.choice([0.0, 0.0, 0.0, 0.5, -0.5])],
                    "yaw": yaw(), "size": list(rng.choice(SIZES))})
    ests = []
    offs = [(0.0, 0.0), (1.0, 0.0), (-1.0, 0.0), (0.0, 1.0), (0.0, -1.0), (0.5, 0.5), (-0.5, 0.5), (2.0, 0.0), (0.0, -2.0), (0.25, 0.0)]
    for _ in range(nE):
        lab = rng.choice(EST_LABELS + ["car", "pedestrian", "unknown"])
        r = rng.random()
        if gts and flavor in ("cluster", "dupe") and r < 0.8:
            g = rng.choice(gts)
            dx, dy = rng.choice(offs)
            o = {"label": lab if rng.random() < 0.4 or g["label"] == FP else g["label"], "frame": g["frame"] if rng.random() < 0.9 else frame(),
                 "pos": [g["pos"][0] + dx, g["pos"][1] + dy, g["pos"][2] if rng.random() < 0.8 else 0.25],
                 "yaw": g["yaw"] if rng.random() < 0.8 else yaw(), "size": list(g["size"] if rng.random() < 0.7 else rng.choice(SIZES))}
        elif ests and flavor == "dupe" and r < 0.95:
            o = dict(rng.choice(ests))
            o["label"] = lab if rng.random() < 0.5 else o["label"]
        else:
            o = {"label": lab, "frame": frame(), "pos": [core.dyadic(rng, -16, 16, 2), core.dyadic(rng, -16, 16, 2), 0.0],
                 "yaw": yaw(), "size": list(rng.choice(SIZES))}
        o["conf"] = core.dyadic(rng, 0.125, 1, 8)
        ests.append(o)
    return ests, gts


def _gen_objects2d(rng, nE: int, nG: int, flavor: str, mixed: bool, fp_bias: float):
    def frame():
        return rng.choice(["cam_front", "cam_back"]) if mixed else "cam_front"

    gts = []
    for _ in range(nG):
        lab = FP if rng.random() < fp_bias else rng.choice(EST_LABELS[:6] + ["car", "pedestrian", "unknown"])
        span = 60 if flavor == "cluster" else 400
        gts.append({"label": lab, "frame": frame(), "roi": [rng.randint(0, span), rng.randint(0, span), rng.choice([10, 20, 21, 40]), rng.choice([10, 20, 31, 40])]})
    ests = []
    for _ in range(nE):
        lab = rng.choice(EST_LABELS + ["car", "pedestrian", "unknown"])
        r = rng.random()
        if gts and flavor in ("cluster", "dupe") and r < 0.8:
            g = rng.choice(gts)
            dx, dy = rng.choice([(0, 0), (4, 0), (-4, 0), (0, 4), (0, -4), (3, 4), (-3, 4), (10, 0), (1, 0)])
            roi = [max(0, g["roi"][0] + dx), max(0, g["roi"][1] + dy), g["roi"][2] if rng.random() < 0.7 else rng.choice([10, 20, 40]), g["roi"][3]]
            o = {"label": lab if rng.random() < 0.4 or g["label"] == FP else g["label"], "frame": g["frame"] if rng.random() < 0.9 else frame(), "roi": roi}
        elif ests and flavor == "dupe" and r < 0.95:
            o = dict(rng.choice(ests))
            o["label"] = lab if rng.random() < 0.5 else o["label"]
        else:
            o = {"label": lab, "frame": frame(), "roi": [rng.randint(0, 400), rng.randint(0, 400), rng.choice([10, 20, 40]), rng.choice([10, 20, 40])]}
        o["conf"] = core.dyadic(rng, 0.125, 1, 8)
        ests.append(o)
    return ests, gts


def _gen_radii(rng, mode: str, dim: str, n: int, special: float):
    r = rng.random()
    if r < 0.35:
        return None
    iou = mode in ("iou2d", "iou3d")
    if iou:
        pool = [0.0, 0.0, 0.125, 0.25, 0.5, 0.75, 1.0]
    elif dim == "2d":
        pool = [0.0, 4.0, 5.0, 10.0, 25.0, 100.0, 600.0]
    else:
        pool = [0.0, 0.5, 1.0, 1.5, 2.0, 3.0, 5.0, 8.0, 40.0]
    radii = [rng.choice(pool) for _ in range(n)]
    s = rng.random()
    if s < special:  # out-of-range (IoU: AssertionError) or negative
        radii[rng.randrange(n)] = rng.choice([1.5, -0.5]) if iou else -1.0
    elif s < 2 * special and n > 1:  # list shorter than the target labels (IndexError when reached)
        radii = radii[: rng.randint(1, n - 1)]
    return radii


NUM_FRACTION = 0.35  # share of the generated cases whose numeric parameters are handed over in other numeric types


KIND_FRACTION = 0.45  # share of the generated cases whose path-selecting fields (family, uuids, task, uuid_first, ROI) vary


def to_traffic_light(case: dict, collapse: bool) -> None:
    """re-label a case with TrafficLightLabel members (injective on the member values, `unknown` and `false_positive`
    keep their roles) and move 2-D objects to the traffic-light cameras; `collapse`: every colour becomes `traffic_light`
    (what the label converter of a non-classification task produces)"""
    def lab(name):
        t = TL_OF[name]
        return "traffic_light" if collapse and t not in ("unknown", "false_positive") else t

    case["family"] = "traffic_light"
    for o in case["ests"] + case["gts"]:
        o["label"] = lab(o["label"])
        o["frame"] = TL_FRAMES.get(o["frame"], o["frame"])
    if case["targets"] is not None:
        seen, ts, keep = set(), [], []
        for k, t in enumerate(case["targets"]):
            if lab(t) not in seen:
                seen.add(lab(t))
                ts.append(lab(t))
                keep.append(k)
        if case["radii"] is not None and len(ts) != len(case["targets"]):
            case["radii"] = [case["radii"][k] for k in keep if k < len(case["radii"])]
        case["targets"] = ts


def set_uuids(rng, case: dict, scheme: str) -> None:
    """uuids of the objects: 'shared' = both sides draw from one pool (unique per side), so an identity-based matcher would
    pair other objects than the geometry does; 'none' = all None (detection results carry no uuid); 'some-none' = a mix"""
    nE, nG = len(case["ests"]), len(case["gts"])
    pool = [f"u{k}" for k in range(max(nE, nG) + 2)]
    if scheme == "shared":
        for side in ("ests", "gts"):
            us = rng.sample(pool, len(case[side]))
            for o, u in zip(case[side], us):
                o["uuid"] = u
    elif scheme == "none":
        for o in case["ests"] + case["gts"]:
            o["uuid"] = None
    elif scheme == "some-none":
        for side in ("ests", "gts"):
            us = rng.sample(pool, len(case[side]))
            for o, u in zip(case[side], us):
                o["uuid"] = None if rng.random() < 0.5 else u


def vary_kind_fields(rng, case: dict) -> None:
    """vary the fields from which `get_object_results` selects its matcher and that a geometric match must not depend on"""
    dim, kind = case["dim"], case["kind"]
    if rng.random() < (0.5 if dim == "2d" else 0.15) and not (kind == "manager" and dim == "3d"):
        to_traffic_light(case, collapse=(kind == "manager") or rng.random() < 0.3)
        if kind == "manager" and case["targets"] == []:
            case["targets"] = ["traffic_light"]
            if case["radii"] is not None:
                case["radii"] = case["radii"][:1] or None
    r = rng.random()
    set_uuids(rng, case, "default" if r < 0.3 else "shared" if r < 0.65 else "none" if r < 0.85 else "some-none")
    if rng.random() < 0.5:
        case["uuid_first"] = rng.random() < 0.6
    if kind == "direct" and rng.random() < 0.6:
        case["task"] = rng.choice(TASKS[(dim, bool(case["task_fp"]))])
    if dim == "2d" and kind == "direct" and rng.random() < 0.08:
        # ROI-less variant (C11's matchers; only the matcher-independent part of C01 is asserted): unique non-null uuids
        set_uuids(rng, case, "shared")
        for o in case["ests"] + case["gts"]:
            o["roi"] = None


def gen_case(rng, size_max: int, contested: float = 0.5, manager: float = 0.1, numeric: float = NUM_FRACTION,
             variants: float = KIND_FRACTION) -> dict:
    dim = "3d" if rng.random() < 0.7 else "2d"
    kind = "manager" if rng.random() < manager else "direct"
    mode = "center" if kind == "manager" else rng.choice(MODES3D if dim == "3d" else MODES2D)

    def size():
        r = rng.random()
        if r < 0.07:
            return 0
        if r < 0.2:
            return 1
        return rng.randint(2, size_max)

    nE, nG = size(), size()
    r = rng.random()
    flavor = "cluster" if r < contested else "dupe" if r < contested + 0.2 else "random"
    mixed = rng.random() < 0.3
    task_fp = rng.random() < 0.35
    fp_bias = (0.5 if task_fp else 0.1) if rng.random() < 0.6 else 0.0
    ests, gts = (_gen_objects3d if dim == "3d" else _gen_objects2d)(rng, nE, nG, flavor, mixed, fp_bias)
    targets = None if (kind == "direct" and rng.random() < 0.1) else list(rng.choice(TARGET_SETS))
    if kind == "manager":
        targets = [t for t in targets if t != FP]
    radii = None if targets is None and rng.random() < 0.5 else _gen_radii(rng, mode, dim, len(targets) if targets else 4, 0.0 if kind == "manager" else 0.02)
    case = {"kind": kind, "dim": dim, "mode": mode, "policy": rng.choice(POLICIES), "task_fp": task_fp,
            "targets": targets, "radii": radii, "ests": ests, "gts": gts}
    if rng.random() < variants:
        vary_kind_fields(rng, case)
    if dim == "3d":
        case["ego"] = [core.dyadic(rng, -8, 8, 2), core.dyadic(rng, -8, 8, 2), rng.choice([0.0, 0.5, -1.25, math.pi / 2])]
        if kind == "manager":
            case["mframe"] = "map" if mixed else "base_link"
    if rng.random() < numeric:
        if kind == "manager" and case["radii"] is not None and rng.random() < 0.4:
            case["radii"] = [case["radii"][0]] * len(case["radii"])  # one radius for all labels: may be configured as a scalar
        case["num"] = gen_num(rng, case, rng.choice([0.2, 0.6, 1.0]))
    return case


def _corpus() -> list:
    car = {"label": "car", "frame": "base_link", "pos": [4.0, 0.0, 0.0], "yaw": 0.0, "size": [2.0, 4.0, 1.5]}

    def mk(**kw):
        c = {"kind": "direct", "dim": "3d", "mode": "center", "policy": "DEFAULT", "task_fp": False,
             "targets": ["car", "bicycle", "pedestrian", "motorbike"], "radii": None, "ests": [], "gts": [], "ego": [0.0, 0.0, 0.0]}
        c.update(kw)
        return c

    def at(x, y=0.0, **kw):
        o = dict(car, pos=[x, y, 0.0])
        o.update(kw)
        return o

    cs = [
        # F1 (fixed in /repo): FP validation with estimates and no ground truth at all
        mk(task_fp=True, ests=[at(1.0)]),
        mk(task_fp=True, ests=[at(1.0), at(2.0, label="unknown")], mode="iou3d"),
        mk(task_fp=True), mk(), mk(ests=[at(1.0)]), mk(gts=[at(1.0)]), mk(task_fp=True, gts=[at(1.0)]),
        # one ground truth contested by two estimates at exactly the same distance (first wins), third estimate left over
        mk(ests=[at(5.0), at(3.0), at(9.0)], gts=[at(4.0)]),
        mk(ests=[at(5.0), at(3.0), at(9.0)], gts=[at(4.0)], task_fp=True),
        # on the radius: distance exactly equal to the radius is NOT matchable (strict)
        mk(ests=[at(6.0)], gts=[at(4.0)], radii=[2.0, 2.0, 2.0, 2.0]),
        mk(ests=[at(5.5)], gts=[at(4.0)], radii=[2.0, 2.0, 2.0, 2.0]),
        # radius taken from the ground truth's label, not the estimate's
        mk(ests=[at(5.0, label="pedestrian")], gts=[at(4.0)], radii=[2.0, 9.0, 0.5, 9.0], policy="ALLOW_ANY"),
        mk(ests=[at(5.0)], gts=[at(4.0, label="pedestrian")], radii=[2.0, 9.0, 0.5, 9.0], policy="ALLOW_ANY"),
        # different frames never pair
        mk(ests=[at(4.0, frame="map")], gts=[at(4.0)]),
        # a nearer incompatible estimate must not take the ground truth from a compatible one
        mk(ests=[at(4.25, label="pedestrian"), at(6.0)], gts=[at(4.0)]),
        # IoU threshold outside [0, 1], short threshold list
        mk(mode="iou2d", ests=[at(4.0)], gts=[at(4.0)], radii=[1.5, 0.5, 0.5, 0.5]),
        mk(ests=[at(4.0, label="pedestrian")], gts=[at(4.0, label="pedestrian")], radii=[1.0]),
        # FP-labelled ground truth is compatible with every estimate
        mk(task_fp=True, ests=[at(4.5, label="bus")], gts=[at(4.0, label=FP)]),
    ]
    # numeric type variants: the same radii / positions / sizes handed over as int, numpy scalars, arrays. One pair
    # inside its radius (must stay matchable), one at / beyond it (must not be paired), for every radius type
    for tag in FLOAT_TAGS:
        cs.append(mk(ests=[at(7.0), at(20.5, label="pedestrian")], gts=[at(4.0), at(20.0, label="pedestrian")],
                     radii=[2.0, 9.0, 3.0, 9.0], num={"radii": [tag] * 4}))
        cs.append(mk(ests=[at(6.0)], gts=[at(4.0)], radii=[2.0, 2.0, 2.0, 2.0], policy="ALLOW_ANY",
                     num={"radii": [tag, "float", "float", "float"],
                          "ests": [{"pos": {"c": "tuple", "t": ["int", "int", "int"]}, "size": {"c": "array", "t": "np.float32"}}],
                          "gts": [{"pos": {"c": "array", "t": "np.int64"}, "size": {"c": "list", "t": ["int", "int", "np.float64"]}, "conf": "np.float32"}]}))
    cs.append(mk(mode="iou2d", ests=[at(4.0), at(12.0)], gts=[at(4.0), at(13.0)], radii=[1.0, 0.0, 0.0, 0.0], num={"radii": ["int"] * 4}))
    cs.append(mk(mode="iou3d", ests=[at(4.0), at(12.0)], gts=[at(4.0), at(13.0)], radii=[0.5, 0.0, 0.0, 0.0], num={"radii": ["np.float32", "np.int64", "int", "int"]}))
    roi = lambda x, y, **kw: dict({"label": "car", "frame": "cam_front", "roi": [x, y, 20, 20]}, **kw)
    cs += [
        {"kind": "direct", "dim": "2d", "mode": "iou2d", "policy": "ALLOW_UNKNOWN", "task_fp": False,
         "targets": ["car", "bicycle", "pedestrian", "motorbike"], "radii": [0.25, 0.25, 0.25, 0.25],
         "ests": [roi(0, 0), roi(4, 0, label="unknown"), roi(100, 100), roi(0, 0, frame="cam_back")], "gts": [roi(2, 0), roi(100, 104, label="pedestrian")]},
        {"kind": "manager", "dim": "3d", "mode": "center", "policy": "DEFAULT", "task_fp": False, "mframe": "base_link",
         "targets": ["car", "bicycle", "pedestrian", "motorbike"], "radii": [2.0, 2.0, 2.0, 2.0], "ego": [0.0, 0.0, 0.0],
         "ests": [at(5.0), at(3.0), at(9.0), at(4.0, label="bus"), at(4.5, label="unknown")], "gts": [at(4.0), at(9.5, label="truck"), at(20.0, label="pedestrian")]},
        {"kind": "manager", "dim": "3d", "mode": "center", "policy": "ALLOW_UNKNOWN", "task_fp": True, "mframe": "base_link",
         "targets": ["car", "pedestrian"], "radii": None, "ego": [0.0, 0.0, 0.0],
         "ests": [at(5.0), at(30.0)], "gts": []},
        # one integer radius for all labels, configured as a scalar / a one-element list (expanded by the library)
        {"kind": "manager", "dim": "3d", "mode": "center", "policy": "DEFAULT", "task_fp": False, "mframe": "base_link",
         "targets": ["car", "bicycle", "pedestrian", "motorbike"], "radii": [2.0, 2.0, 2.0, 2.0], "ego": [0.0, 0.0, 0.0],
         "ests": [at(6.5), at(3.0), at(9.0)], "gts": [at(4.0), at(9.5, label="pedestrian")],
         "num": {"radii": ["int"] * 4, "radii_form": "scalar", "cfg": "int"}},
        {"kind": "manager", "dim": "3d", "mode": "center", "policy": "DEFAULT", "task_fp": False, "mframe": "base_link",
         "targets": ["car", "bicycle", "pedestrian", "motorbike"], "radii": [2.0, 2.0, 2.0, 2.0], "ego": [0.0, 0.0, 0.0],
         "ests": [at(6.5), at(3.0), at(9.0)], "gts": [at(4.0), at(9.5, label="pedestrian")],
         "num": {"radii": ["np.int64"] * 4, "radii_form": "single"}},
        {"kind": "direct", "dim": "2d", "mode": "center", "policy": "DEFAULT", "task_fp": False,
         "targets": ["car", "bicycle", "pedestrian", "motorbike"], "radii": [10.0, 10.0, 10.0, 10.0],
         "ests": [roi(0, 0), roi(100, 100)], "gts": [roi(10, 0), roi(100, 104)],
         "num": {"radii": ["int", "int", "np.int32", "np.float32"],
                 "ests": [{"roi": {"c": "tuple", "t": ["np.int64"] * 4}}, {"roi": {"c": "list", "t": ["np.int32", "int", "int", "np.int64"]}}],
                 "gts": [{"roi": {"c": "list", "t": ["int"] * 4}, "t": "np.int64"}, {}]}},
    ]
    return cs


N_QUICK = 1100
N_THOROUGH = 20000


# ----------------------------------------------------------------------------- the deterministic grid of path-selecting fields

LABEL_SETS = {  # (family, main label A, other label B, unknown)
    "autoware": ("autoware", "car", "pedestrian", "unknown"),
    "tl-colours": ("traffic_light", "green", "red", "unknown"),
    "tl-detection": ("traffic_light", "traffic_light", "traffic_light", "unknown"),
}
GRID_UUIDS = ["distinct", "shared", "none"]


def _grid_scenes(dim: str, A: str, B: str, cams) -> list:
    """fixed scenes in which geometry, labels and uuids each suggest ANOTHER pairing, one estimate stays unpaired and one
    same-label pair lies beyond the tight radius. Objects are (label, frame, place, uuid-if-shared)."""
    c0, c1 = cams
    return [
        # e0 (A) sits on g1 (B), e1 (B) sits on g0 (A), e2 (A) next to g0, e3 (A) far from everything;
        # shared uuids: g0 has the uuid of the FAR estimate e3, g1 that of e1
        ([(A, c0, "P1+", "u0"), (B, c0, "P0+", "u1"), (A, c0, "P0~", "u2"), (A, c0, "FAR", "u3")],
         [(A, c0, "P0", "u3"), (B, c0, "P1", "u1")]),
        # two detections, one annotation that shares label AND uuid with the far one
        ([(A, c0, "FAR", "a"), (A, c0, "P0+", "b")], [(A, c0, "P0", "a")]),
        # two cameras: same label and uuid across cameras must never pair; one honest pair per camera, one leftover
        ([(A, c1, "P0", "a"), (A, c0, "P1+", "b"), (B, c1, "P1~", "c"), (B, c0, "FAR", "d")],
         [(A, c0, "P0", "a"), (A, c0, "P1", "c"), (B, c1, "P1", "b")]),
    ]


PLACES_2D = {"P0": [100, 100, 20, 20], "P0+": [104, 100, 20, 20], "P0~": [100, 103, 20, 20], "P1": [300, 100, 20, 20],
             "P1+": [304, 100, 20, 20], "P1~": [300, 103, 20, 20], "FAR": [600, 400, 20, 20]}
PLACES_3D = {"P0": [10.0, 0.0], "P0+": [10.5, 0.0], "P0~": [10.0, 0.25], "P1": [30.0, 0.0], "P1+": [30.5, 0.0],
             "P1~": [30.0, 0.25], "FAR": [60.0, 40.0]}


def _grid_objects(dim: str, spec: list, uuids: str, roiless: bool, conf: bool) -> list:
    out = []
    for (lab, frame, place, u) in spec:
        if dim == "3d":
            x, y = PLACES_3D[place]
            o = {"label": lab, "frame": frame, "pos": [x, y, 0.0], "yaw": 0.0, "size": [2.0, 4.0, 1.5]}
        else:
            o = {"label": lab, "frame": frame, "roi": None if roiless else list(PLACES_2D[place])}
        if conf:
            o["conf"] = 0.5
        if uuids == "shared":
            o["uuid"] = u
        elif uuids == "none":
            o["uuid"] = None
        out.append(o)
    return out


def grid_cases(tier: str = "quick") -> list:
    """EVERY combination of object kind {3-D, 2-D with ROI, 2-D without ROI} x label set {Autoware, traffic-light colours,
    traffic-light detection label} x uuids {distinct, shared between the sides, None} x evaluation task admitting the kind x
    uuid_matching_first x matching mode x radii {none, tight} on fixed scenes, plus the same through the manager."""
    cases = []
    n = 0
    for kind in ("3d", "2d-roi", "2d-roi-less"):
        dim = "3d" if kind == "3d" else "2d"
        modes = MODES3D if dim == "3d" else MODES2D
        for ls_name, (fam, A, B, U) in LABEL_SETS.items():
            cams = ("base_link", "map") if dim == "3d" else (
                ("cam_front", "cam_back") if fam == "autoware" else ("cam_traffic_light_near", "cam_traffic_light"))
            scenes = _grid_scenes(dim, A, B, cams)
            targets = [A, U] if A == B else [A, B, U]
            for uuids in GRID_UUIDS:
                if kind == "2d-roi-less" and uuids == "none":
                    continue  # documented RuntimeError of the identity-based matchers (C11)
                for task_fp in (False, True):
                    for task in TASKS[(dim, task_fp)]:
                        for uf in (None, False, True):
                            for mode in (modes if kind != "2d-roi-less" else modes[:1]):
                                for tight in (False, True):
                                    if kind == "2d-roi-less" and tight:
                                        continue
                                    n += 1
                                    # quick: every (kind, label set, uuids, task, uuid_first) keeps >= 1 scene per mode/radius
                                    picks = range(len(scenes)) if tier != "quick" or kind != "3d" else [n % len(scenes)]
                                    for si in picks:
                                        es, gs = scenes[si]
                                        iou = mode in ("iou2d", "iou3d")
                                        radius = 0.25 if iou else (2.0 if dim == "3d" else 50.0)
                                        c = {"kind": "direct", "dim": dim, "mode": mode, "policy": POLICIES[n % 3], "task_fp": task_fp,
                                             "targets": list(targets), "radii": [radius] * len(targets) if tight else None,
                                             "ests": _grid_objects(dim, es, uuids, kind == "2d-roi-less", True),
                                             "gts": _grid_objects(dim, gs, uuids, kind == "2d-roi-less", False),
                                             "family": fam, "task": task, "grid": ls_name}
                                        if dim == "3d":
                                            c["ego"] = [0.0, 0.0, 0.0]
                                        if uf is not None:
                                            c["uuid_first"] = uf
                                        cases.append(c)
    # the same through PerceptionEvaluationManager.add_frame_result (its configuration fixes mode = center distance)
    for dim in ("3d", "2d"):
        for ls_name in ("autoware", "tl-detection"):
            fam, A, B, U = LABEL_SETS[ls_name]
            if dim == "3d" and fam != "autoware":
                continue
            cams = ("base_link", "base_link") if dim == "3d" else (
                ("cam_front", "cam_back") if fam == "autoware" else ("cam_traffic_light_near", "cam_traffic_light_far"))
            A2, B2 = (A, B) if A != B else (A, U)
            scenes = _grid_scenes(dim, A2, B2, cams)
            targets = [A, U] if A == B else [A, B, U]
            for uuids in GRID_UUIDS:
                for task_fp in (False, True):
                    for uf in (None, True):
                        for tight in (False, True):
                            for si, (es, gs) in enumerate(scenes):
                                n += 1
                                c = {"kind": "manager", "dim": dim, "mode": "center", "policy": POLICIES[n % 3], "task_fp": task_fp,
                                     "targets": list(targets), "radii": [2.0 if dim == "3d" else 50.0] * len(targets) if tight else None,
                                     "ests": _grid_objects(dim, es, uuids, False, True), "gts": _grid_objects(dim, gs, uuids, False, False),
                                     "family": fam, "grid": ls_name}
                                if dim == "3d":
                                    c["ego"] = [0.0, 0.0, 0.0]
                                    c["mframe"] = "base_link"
                                if uf is not None:
                                    c["uuid_first"] = uf
                                cases.append(c)
    return cases


def generate(rng, tier: str, contested: float = 0.45, manager: float = 0.1) -> list:
    cases = table_witnesses() + grid_cases(tier)
    if tier == "quick":
        for _ in range(N_QUICK):
            cases.append(gen_case(rng, 8, contested, manager))
        for _ in range(6):
            cases.append(gen_case(rng, 30, contested, manager=0.0))
    else:
        for _ in range(N_THOROUGH):
            cases.append(gen_case(rng, 8, contested, manager))
        for _ in range(700):
            cases.append(gen_case(rng, 30, contested, manager))
    return cases


def shrink(case: dict):
    nv = _num(case)
    for which in ("ests", "gts"):
        for k in range(len(case[which])):
            c = dict(case)
            c[which] = case[which][:k] + case[which][k + 1:]
            if nv.get(which):
                c["num"] = dict(nv, **{which: nv[which][:k] + nv[which][k + 1:]})
            yield c
    if nv:
        yield {k: v for k, v in case.items() if k != "num"}  # all numbers as plain floats
        for key in ("ests", "gts", "ego", "cfg", "radii"):
            if nv.get(key) and not (key == "radii" and nv.get("radii_form", "list") != "list"):
                c = dict(case)
                c["num"] = {k: v for k, v in nv.items() if k != key}
                yield c
    if case["radii"] is not None:
        c = dict(case, radii=None)
        if nv:
            c["num"] = {k: v for k, v in nv.items() if k not in ("radii", "radii_form")}
        yield c
    if case["kind"] == "manager":
        yield dict(case, kind="direct")
    for key in ("uuid_first", "task", "grid"):
        if key in case:
            yield {k: v for k, v in case.items() if k != key}
    if any("uuid" in o for o in case["ests"] + case["gts"]):  # back to the harness' default uuids
        c = dict(case)
        for which in ("ests", "gts"):
            c[which] = [{k: v for k, v in o.items() if k != "uuid"} for o in case[which]]
        yield c
    if case["policy"] != "DEFAULT":
        yield dict(case, policy="DEFAULT")


def search(rng, st, disagreements) -> list:
    """targeted extra cases: contested scenes around the configuration of the first diverging cases"""
    extra = table_witnesses()
    for d in disagreements[:3]:
        c = d["case"]
        for _ in range(150):
            n = gen_case(rng, 6, 0.8, manager=0.0)
            if n["dim"] == c["dim"]:
                n["mode"], n["policy"], n["task_fp"] = c["mode"], c["policy"], c["task_fp"]
                if n["radii"] is not None and c["radii"] is not None and n["targets"] is not None:
                    n["radii"] = (list(c["radii"]) * 8)[: len(n["targets"])]
                    nv = dict(_num(n))
                    nv.pop("radii", None)
                    if _num(c).get("radii"):
                        nv["radii"] = (list(_num(c)["radii"]) * 8)[: len(n["radii"])]
                    n["num"] = nv
            extra.append(n)
    for _ in range(600):
        extra.append(gen_case(rng, 5, 0.8, manager=0.05, numeric=0.5))
    return extra


def corpus():
    """table witnesses (empty on an unchanged tree) first, then the stored corner cases"""
    return table_witnesses() + list(_corpus())
