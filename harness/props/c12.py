"""C12 — sensing counts exactly the points inside each box; every object classified once.

Tie to the code: the Lean model `PEval/Model/Sensing.lean` (edge scan with the uint8 counter, z-range,
get_corners, DynamicObjectWithSensingResult, evaluate_frame, the manager's crop) is executed on the same
inputs as the real `crop_pointcloud`, `DynamicObject.crop_pointcloud / get_inside_pointcloud_num /
point_exist`, `SensingFrameResult.evaluate_frame` and `SensingEvaluationManager.add_frame_result`, and the
row-index sets, counts, result lists by GT id and non-detection sets are compared exactly.

Derived objects: the box of the property is the box an object describes NOW. A stream uses an object at one pose
(crop, count, corners, footprint, DynamicObjectWithSensingResult, SensingFrameResult), derives a moved object from it
the way the library does (interpolation: deepcopy + new ObjectState; convert_objects_to_global / _to_base_link: deepcopy
+ assignment of state.position / state.orientation; in-place re-assignment) and demands of the derived object exactly the
selection of a freshly built object with the same state, the exact-rational selection for the state read back from it,
the same answer when the call is repeated, an unchanged cloud and pose, and a still-correct original object.

Oracle (independent of the model): exact-rational membership in the scaled footprint through the point's
coordinates in the box frame (Cramer) and the z-range; an exact-rational *vertical-ray* crossing
test for polygonal prisms (the code scans horizontally); partition; monotonicity in the scale; exactly-one
classification with warning <=> Visibility.NONE; the set definition of the non-detection report.

What is NOT demanded (audit 3: the check must stay quiet where the statement holds):
* points ON the boundary of a box / prism (within 1e-6 of an edge line of the footprint, of the bottom / top plane): the
  quantifier says "points well inside, well outside"; the oracle does not judge them and the correspondence leaves them out
  (the model decides them by the half-open rule of the scan, theorems `inside_axis_aligned`, `wn_parallelogram_closed`);
  they still take part in the partition and count clauses;
* the ORDER of anything: row selections, the success / fail / warning lists and the non-detection report are compared as
  sets (of rows, of objects, of points); empty reported arrays are nothing;
* malformed inputs (no rows x (>= 2 columns) cloud, an area that is no prism over a polygon): outside "all point clouds / all
  polygonal prisms" - generated, run, counted as `skipped:malformed-input`, neither judged nor compared;
* exception classes (raised vs returned only); visibilities that are no member of `Visibility`.
The scale law IS demanded beyond 100 m: it is the documented one (docstring of `SensingFrameConfig.get_scale_factor`).
"""
from __future__ import annotations

import math
from fractions import Fraction
from typing import Any, Dict, List, Optional, Tuple

from .. import core

PROP = "C12"
EXHAUSTIVE = False
THEOREMS = [
    "PEval.C12." + t
    for t in [
        "crop_partition", "crop_partition_api", "detected_iff_count", "insideNum_eq", "verdict_iff",
        "classify_lists", "classify_exactly_one", "outsideAll_iff", "nondetection_exact_frame",
        "nondetection_exact", "nondetection_mem", "wn_parallelogram", "wn_parallelogram_value",
        "wn_is_sum_mod_256", "inside_iff_geometric_affine", "inside_iff_geometric", "scale_mono",
        "scale_mono_crop", "scaleFactor_spec", "scaleFactor_linear", "isNone_spec", "index_quirk_unobservable", "index_quirk_unobservable_box",
        # decision tables / expression trees extracted from the real code (harness/dt_c12.py), regenerated on every run
        "frame_table_check", "frame_code_table_eq_model", "frame_code_table_eq_modelCode", "objDigit_spec", "table_single_object",
        "table_no_objects", "scaleFactor_code_eq_model", "scaleFactor_code_spec",
        # totality companions (>= 2 columns, well-formed areas => .ok) and the behaviour ON the edge lines (half-open rule of
        # the scan): closed-form winding counter / inside mask for EVERY point, scale monotonicity without the off-line premise
        "frame_total", "evaluate_frame_total", "crop_succeeds_iff", "box_area_valid",
        "wn_parallelogram_closed", "inHalf_off_lines", "inside_iff_geometric_closed", "inside_axis_aligned",
        "scale_mono_all_points", "box_coords_exist", "scale_mono_crop_all", "scaleFactor_pos",
    ]
]
RULE = (
    "seeded generation of (i) polygonal prisms (convex, star-shaped non-convex, rectilinear, both orientations, "
    "non-simple pentagrams, prisms whose two planes differ) with clouds on a 1/8 grid incl. points at vertex "
    "heights, on edges, at vertices and on the z-bounds; (ii) real DynamicObjects (rational yaw, full rational "
    "quaternions, identity) x several scales x clouds N x {2,3,4} with clusters inside, between the scales and "
    "outside, every non-boundary point >= 1e-6 from each edge line; (iii) evaluate_frame with visibility "
    "annotations, thresholds straddling the counts, constant and distance-dependent scales, non-detection clouds; "
    "objects in every range class: at the sensor (distance 0 and a few cm), exactly 100 m away, 100-1000 m away (half of the scenes), "
    "scales below and above 1, growing and shrinking with the distance (also extrapolated to a small positive number), and points in "
    "the rings between the footprint at the true scale and at plausible wrong scales (clamped to the 0-100 m interval, box_scale_0m, "
    "box_scale_100m, unscaled); "
    "(iv) the manager's add_frame_result with polygonal non-detection areas, target uuids and a frame config that "
    "differs from the manager's; malformed clouds/areas; (v) derived objects: 1-3 objects used at pose 1 (1-3 of crop in/out, "
    "count, point_exist, get_corners, get_footprint, DynamicObjectWithSensingResult, evaluate_frame; at one or two scales; on the "
    "same or another cloud), then moved by {deepcopy + new ObjectState, deepcopy + assignment, in-place assignment} x {position, "
    "orientation, both} x {overlapping shift, far, mirrored}, by interpolate_object_list (t/8), by convert_objects_to_global / "
    "_to_base_link (rational ego yaw, small and large ego motion), then cropped / counted / evaluated at the used and at unused "
    "scales, with point clusters around both poses; non-trivial there = the move changes the inside set at the used scale. "
    "Non-trivial = at least one point inside and one outside "
    "some area/box (or an error branch); distinct = distinct canonical JSON of the case"
)
TRUSTED = [
    "numpy boolean-mask indexing and uint8 arithmetic (modelled: order-preserving filter, arithmetic modulo 256)",
    "pyquaternion Quaternion.rotate = rotation matrix of the normalised quaternion (rational for rational components)",
    "shapely Polygon(exterior).exterior.coords returns the given vertices in the given order",
    "np.linalg.norm(position) is handed to the model as the exact rational of the float it returned",
    "harness/dt_c12.py + harness/dtable.py + harness/dt_multi.py (decision-table translator): the stub objects (an object exposes "
    "get_distance, crop_pointcloud, visibility; a crop exposes len and the nearest-point access; the threshold is a symbolic number), "
    "the DFS over decisions, the encoding of a frame result as a number, the Lean emission; float literals of the source are read as the "
    "decimal numerals they print as (0.01 = 1/100); order atoms of different pairs are treated as independent (over-approximation)",
]
ASSUMPTIONS = [
    "points compared against the geometric oracle and against the model are >= 1e-6 away from the boundary of every scaled box / "
    "prism: every footprint edge line AND the bottom / top plane (re-checked exactly); points on a boundary are generated in the "
    "raw / box streams (vertices, edges, planes; flat boxes) and take part in the partition and count clauses only; in the frame / "
    "manager / derived streams the generator leaves such rows out (counted: unjudged:generator-dropped-boundary-rows)",
    "ground-truth objects are in base_link, carry no FP label, sizes > 0",
    "the scale at an object's distance is positive (>= 1/16): with box_scale_100m < box_scale_0m the linear law reaches 0 at some "
    "distance; objects are placed short of it (a non-positive factor is not a footprint scale)",
    "derived objects: the pose is the one read back from the derived object (whether a conversion/interpolation computes the right "
    "pose is not part of C12); frames on derived objects use a constant scale; a pose produced by a frame conversion carries float "
    "noise in its height (points within 1e-6 of a z-bound are not judged for any box; still compared with a fresh object)",
    "the projected footprint of a rolled/pitched box is non-degenerate (det >= 0.3)",
    "arbitrary polygonal prisms: model = algorithm; geometric meaning validated against exact point-in-polygon, not proved",
]

Fr = Fraction
MARGIN = Fraction(1, 10**6)
QUIRK = False  # experiments only (set in a Python session): prisms whose two planes differ; no environment variable is read
_STATE: Dict[str, Any] = {}


# ----------------------------------------------------------------------------- exact helpers

def _F(x) -> Fraction:
    return core.F(x)


_ROT: Dict[tuple, tuple] = {}


def _rot(quat) -> Tuple[Fraction, Fraction, Fraction, Fraction]:
    """(e1x, e1y, e2x, e2y): xy of the images of the unit x/y axes under the normalised quaternion"""
    key = tuple(str(v) for v in quat)
    r = _ROT.get(key)
    if r is None:
        w, x, y, z = (_F(v) for v in quat)
        n = w * w + x * x + y * y + z * z
        r = ((w * w + x * x - y * y - z * z) / n, 2 * (x * y + w * z) / n, 2 * (x * y - w * z) / n,
             (w * w - x * x + y * y - z * z) / n)
        if len(_ROT) > 20000:
            _ROT.clear()
        _ROT[key] = r
    return r


def _on_z_bound(box, k, r) -> bool:
    """is the row over the scaled footprint and (within MARGIN) on the bottom / top plane of the box? (float pre-filter, exact decision)"""
    cz, h = float(box["pos"][2]), float(box["size"][2])
    if min(abs(float(r[2]) - (cz - h / 2)), abs(float(r[2]) - (cz + h / 2))) > 1e-4:
        return False
    return _box_inside(box, _F(k), r, 3) is None


def _clear_of_edges(box, k, x, y, margin) -> bool:
    """is (x, y) at least `margin` away (in box-frame units) from the four edge lines of the footprint scaled by k?
    Float fast path (error ~1e-12) with the exact computation whenever the float margin is below 1e-4."""
    e1x, e1y, e2x, e2y = (float(v) for v in _rot(box["quat"]))
    dx, dy = float(x) - float(box["pos"][0]), float(y) - float(box["pos"][1])
    det = e1x * e2y - e1y * e2x
    xi, eta = (dx * e2y - dy * e2x) / det, (e1x * dy - e1y * dx) / det
    kf = float(k)
    m = min(abs(abs(xi) - float(box["size"][1]) / 2 * kf), abs(abs(eta) - float(box["size"][0]) / 2 * kf))
    if m > 1e-4:
        return True
    xi, eta = _local(box, x, y)
    w, l, h = (_F(v) for v in box["size"])
    kk = _F(k)
    return not (abs(abs(xi) - l / 2 * kk) < margin or abs(abs(eta) - w / 2 * kk) < margin)


def _local(box, px, py):
    """coordinates (xi, eta) of the point in the (e1, e2) frame at the box centre (Cramer)"""
    e1x, e1y, e2x, e2y = _rot(box["quat"])
    dx, dy = _F(px) - _F(box["pos"][0]), _F(py) - _F(box["pos"][1])
    det = e1x * e2y - e1y * e2x
    return (dx * e2y - dy * e2x) / det, (e1x * dy - e1y * dx) / det


def _box_inside(box, k: Fraction, row, cols) -> Optional[bool]:
    """exact membership; None (not judged) if the point is within MARGIN of the boundary of the scaled box: an edge line of the
    footprint, or - when the footprint test does not already exclude it - the bottom / top plane.  The quantifier says "points
    well inside, well outside"; whether a point exactly ON the boundary counts ("between the box's bottom and top" does not
    say inclusive) is not stated, so neither the xy edges nor the z bounds are judged (AUDIT3 G5: judged consistently)."""
    xi, eta = _local(box, row[0], row[1])
    w, l, h = (_F(v) for v in box["size"])
    hl, hw = l / 2 * k, w / 2 * k
    if abs(abs(xi) - hl) < MARGIN or abs(abs(eta) - hw) < MARGIN:
        return None
    ok = abs(xi) < hl and abs(eta) < hw
    if ok and cols >= 3:
        z, cz = _F(row[2]), _F(box["pos"][2])
        if abs(z - (cz - h / 2)) < MARGIN or abs(z - (cz + h / 2)) < MARGIN:
            return None
        ok = cz - h / 2 < z < cz + h / 2
    return ok


def _on_segment(p, a, b) -> bool:
    cr = (b[0] - a[0]) * (p[1] - a[1]) - (b[1] - a[1]) * (p[0] - a[0])
    if cr != 0:
        return False
    return min(a[0], b[0]) <= p[0] <= max(a[0], b[0]) and min(a[1], b[1]) <= p[1] <= max(a[1], b[1])


def _pip_vertical(poly, x: Fraction, y: Fraction) -> Optional[bool]:
    """even-odd test with a ray going UP from (x, y); None on the boundary. poly: list of (Fraction, Fraction)"""
    n = len(poly)
    inside = False
    for i in range(n):
        a, b = poly[i], poly[(i + 1) % n]
        if _on_segment((x, y), a, b):
            return None
        if (a[0] > x) != (b[0] > x):
            yint = a[1] + (x - a[0]) * (b[1] - a[1]) / (b[0] - a[0])
            if y < yint:
                inside = not inside
    return inside


def _segments_cross(a, b, c, d) -> bool:
    def orient(p, q, r):
        v = (q[0] - p[0]) * (r[1] - p[1]) - (q[1] - p[1]) * (r[0] - p[0])
        return (v > 0) - (v < 0)

    o1, o2, o3, o4 = orient(a, b, c), orient(a, b, d), orient(c, d, a), orient(c, d, b)
    if o1 != o2 and o3 != o4:
        return True
    return any(_on_segment(p, q, r) for p, q, r in ((c, a, b), (d, a, b), (a, c, d), (b, c, d)))


def _is_simple(poly) -> bool:
    n = len(poly)
    P = [(_F(x), _F(y)) for x, y in poly]
    if len(set(P)) != n:
        return False
    for i in range(n):
        for j in range(i + 1, n):
            if j == i or (j + 1) % n == i or (i + 1) % n == j:
                # adjacent edges: only the shared vertex may touch
                a, b, c = (P[i], P[(i + 1) % n], P[(j + 1) % n]) if (i + 1) % n == j else (P[j], P[(j + 1) % n], P[(i + 1) % n])
                if _on_segment(c, a, b) or _on_segment(a, b, c):
                    return False
                continue
            if _segments_cross(P[i], P[(i + 1) % n], P[j], P[(j + 1) % n]):
                return False
    return True


def _area_of(poly, zlo, zhi):
    """prism in the layout of the code: upper plane then lower plane"""
    return [[x, y, zhi] for x, y in poly] + [[x, y, zlo] for x, y in poly]


def _prism_inside(area, row, cols) -> Optional[bool]:
    """exact membership in a polygonal prism; None (not judged) on its boundary: on an edge / vertex of the polygon, or - inside
    the polygon - on the lowest / highest corner height (see `_box_inside`)"""
    n = len(area) // 2
    poly = [(_F(c[0]), _F(c[1])) for c in area[:n]]
    r = _pip_vertical(poly, _F(row[0]), _F(row[1]))
    if r is None:
        return None
    if r and cols >= 3:
        zs = [_F(c[2]) for c in area]
        z = _F(row[2])
        if z == min(zs) or z == max(zs):
            return None
        r = min(zs) < z < max(zs)
    return r


def _scale(cfg, dist: Fraction) -> Fraction:
    """the scale at a distance.  "all scales including distance-dependent ones": the law is the documented one, docstring of
    SensingFrameConfig.get_scale_factor: "Calculate scale factor linearly for bounding box at specified distance.  scale =
    ((box_scale_100m - box_scale_0m) / (100 - 0)) * (distance - 0) + box_scale_0m" - one linear law, no clamping at 100 m."""
    return Fraction(1, 100) * (_F(cfg["s100"]) - _F(cfg["s0"])) * dist + _F(cfg["s0"])


# ----------------------------------------------------------------------------- real objects

def _mods():
    if "mods" not in _STATE:
        import numpy as np
        from pyquaternion import Quaternion
        from perception_eval.common.dataset import FrameGroundTruth
        from perception_eval.common.label import AutowareLabel, Label
        from perception_eval.common.object import DynamicObject
        from perception_eval.common.point import crop_pointcloud
        from perception_eval.common.schema import FrameID, Visibility
        from perception_eval.common.shape import Shape, ShapeType
        from perception_eval.evaluation.sensing.sensing_frame_config import SensingFrameConfig
        from perception_eval.evaluation.sensing.sensing_frame_result import SensingFrameResult

        _STATE["mods"] = dict(np=np, Quaternion=Quaternion, FrameGroundTruth=FrameGroundTruth, AutowareLabel=AutowareLabel,
                              Label=Label, DynamicObject=DynamicObject, crop_pointcloud=crop_pointcloud, FrameID=FrameID,
                              Visibility=Visibility, Shape=Shape, ShapeType=ShapeType, SensingFrameConfig=SensingFrameConfig,
                              SensingFrameResult=SensingFrameResult)
    return _STATE["mods"]


def _visibility(v):
    M = _mods()
    if v is None:
        return None
    if v.startswith("str:"):
        return v[4:]  # a raw string, not a member (what F13 used to produce)
    return M["Visibility"][v]


def _mk_obj(o):
    M = _mods()
    b = o["box"]
    q = M["Quaternion"](*[float(_F(v)) for v in b["quat"]])
    return M["DynamicObject"](
        100, M["FrameID"].BASE_LINK, tuple(float(v) for v in b["pos"]), q,
        M["Shape"](M["ShapeType"].BOUNDING_BOX, tuple(float(v) for v in b["size"])), (0.0, 0.0, 0.0), 0.9,
        M["Label"](M["AutowareLabel"].CAR, "car", []), pointcloud_num=10, uuid=o.get("uuid"),
        visibility=_visibility(o.get("vis")),
    )


def _mk_cloud(rows, cols):
    """rows: list of [x, y, z]; cols 0 -> 1-D array; column 3 (if any) = row index, column 4.. = filler"""
    np = _mods()["np"]
    if cols == 0:
        return np.zeros(max(len(rows), 1), dtype=float)
    arr = np.zeros((len(rows), cols), dtype=float)
    for i, r in enumerate(rows):
        for c in range(min(cols, 3)):
            arr[i, c] = r[c]
        if cols >= 4:
            arr[i, 3] = i
        for c in range(4, cols):
            arr[i, c] = 0.5 * c
    return arr


def _idx(arr, rows, cols) -> List[int]:
    """row indices (positions in `rows`) of the rows of the returned array, in the order returned: by the index column when the
    array carries it, else by the coordinates it does carry (rows are distinct in them, `_dedupe`)"""
    arr = _mods()["np"].asarray(arr)
    if arr.ndim != 2:
        return [-1] * len(arr)  # not a cloud (rows x columns): no row of the input is named
    if cols >= 4 and arr.shape[1] >= 4:
        return [int(v) for v in arr[:, 3]]
    cols = min(cols, 3, arr.shape[1]) if arr.shape[1] else min(cols, 3)
    key: Dict[tuple, List[int]] = {}
    for i, r in enumerate(rows):
        key.setdefault(tuple(float(v) for v in r[:cols]), []).append(i)
    out = []
    used: Dict[tuple, int] = {}
    for row in arr:
        t = tuple(float(v) for v in row[:cols])
        j = used.get(t, 0)
        lst = key.get(t, [])
        out.append(lst[j] if j < len(lst) else -1)
        used[t] = j + 1
    return out


def _try(f, then=None):
    """ONE call into the library that the property is about: its exception becomes {"err": kind}; `then` (harness code that reads
    the answer) runs outside the `try`, its exceptions propagate as harness errors"""
    try:
        r = f()
    except Exception as e:  # noqa
        return {"err": type(e).__name__}
    return then(r) if then is not None else r


def _tmpdir():
    if "tmpdir" not in _STATE:
        import atexit
        import shutil
        import tempfile

        _STATE["tmpdir"] = tempfile.mkdtemp(prefix="c12_")
        atexit.register(shutil.rmtree, _STATE["tmpdir"], True)
    return _STATE["tmpdir"]


def _manager(cfg):
    """a NEW real SensingEvaluationManager for the given evaluation parameters: one per case (a manager shared by the cases of
    a run could carry state from case to case, and a replayed case would meet another manager than it did in the run).
    Set-up: failures propagate."""
    import contextlib
    import io

    from perception_eval.config import SensingEvaluationConfig
    from perception_eval.manager import SensingEvaluationManager

    data = core.REPO / "perception_eval" / "test" / "sample_data"
    if not data.is_dir():  # raised here (harness code): a missing checkout is an infrastructure error, not "the loader raised"
        raise RuntimeError(f"sample data not found: {data}")
    with contextlib.redirect_stderr(io.StringIO()), contextlib.redirect_stdout(io.StringIO()):
        ec = SensingEvaluationConfig(
            dataset_paths=[str(data)],
            frame_id="base_link", result_root_directory=_tmpdir(),
            evaluation_config_dict={"evaluation_task": "sensing", "target_uuids": cfg.get("uuids"),
                                    "box_scale_0m": float(cfg["s0"]), "box_scale_100m": float(cfg["s100"]),
                                    "min_points_threshold": cfg["min_points"]},
            load_raw_data=False)
        return SensingEvaluationManager(ec)


def _frame_cfg(cfg):
    return _mods()["SensingFrameConfig"](target_uuids=cfg.get("uuids"), box_scale_0m=float(cfg["s0"]),
                                        box_scale_100m=float(cfg["s100"]), min_points_threshold=cfg["min_points"])


def _canon_frame(res, objs, rows, cols, nd_rows=None):
    ids = {id(o): i for i, o in enumerate(objs)}  # the objects are alive for the whole call: `id` only names the harness's own objects

    def lst(rs):
        return [{"gt": ids.get(id(r.ground_truth_object), -1), "num": int(r.inside_pointcloud_num),
                 "inside": _idx(r.inside_pointcloud, rows, cols), "detected": bool(r.is_detected),
                 "occluded": bool(r.is_occluded)} for r in rs]

    return {"success": lst(res.detection_success_results), "fail": lst(res.detection_fail_results),
            "warning": lst(res.detection_warning_results), "nd_raw": list(res.pointcloud_failed_non_detection)}


def _points(arrays, cols):
    """the POINTS of the reported arrays: the sorted set of coordinate tuples (the coordinates the cloud carries).  The statement
    speaks about "the points reported as non-detection failures": how they are spread over arrays, the order of the arrays and
    of the rows, and whether an empty array is listed are not stated."""
    np = _mods()["np"]
    c3 = min(cols, 3)
    pts = set()
    for arr in arrays:
        arr = np.asarray(arr)
        if arr.ndim != 2:
            continue
        for row in arr:
            pts.add(tuple(float(v) for v in row[:c3]))
    return sorted(list(t) for t in pts)


def run_impl(case):
    """Set-up (objects, clouds, configurations, managers, reading the answers) propagates its exceptions; {"err": kind} is
    produced only by the calls the property is about (crop_pointcloud / get_inside_pointcloud_num / point_exist /
    evaluate_frame / add_frame_result / manager.crop_pointcloud)."""
    M = _mods()
    np = M["np"]
    k = case["kind"]
    cols = case["cols"]
    rows = case["cloud"]
    ix = lambda a: _idx(a, rows, cols)
    if k == "derived":
        return _run_derived(case)
    if k == "raw":
        cloud = _mk_cloud(rows, cols)
        area = [list(map(float, c)) for c in case["area"]]

        def one(inside):
            return _try(lambda: M["crop_pointcloud"](cloud, area, inside=inside), ix)

        return {"inside": one(True), "outside": one(False)}
    if k == "box":
        cloud = _mk_cloud(rows, cols)
        obj = _mk_obj({"box": case["box"]})
        out = []
        for s in case["scales"]:
            s = float(s)
            out.append({
                "inside": _try(lambda: obj.crop_pointcloud(cloud, s, inside=True), ix),
                "outside": _try(lambda: obj.crop_pointcloud(cloud, s, inside=False), ix),
                "num": _try(lambda: obj.get_inside_pointcloud_num(cloud, s), int),
                "exist": _try(lambda: obj.point_exist(cloud, s), bool),
            })
        return {"results": out, "dist": None}
    if k == "frame":
        cloud = _mk_cloud(rows, cols)
        objs = [_mk_obj(o) for o in case["objs"]]
        dists = [float(o.get_distance()) for o in objs]
        nds = [_mk_cloud(r, cols) for r in case["nd_clouds"]]
        res = M["SensingFrameResult"](_frame_cfg(case["cfg"]), 100, "0")
        try:
            res.evaluate_frame(objs, cloud, nds)
        except Exception as e:
            return {"err": type(e).__name__, "dists": dists}
        out = _canon_frame(res, objs, rows, cols)
        out["nd_points"] = _points(out.pop("nd_raw"), cols)
        out["dists"] = dists
        return out
    if k == "manager":
        cloud = _mk_cloud(rows, cols)
        objs = [_mk_obj(o) for o in case["objs"]]
        dists = [float(o.get_distance()) for o in objs]
        areas = [[tuple(map(float, c)) for c in a] for a in case["areas"]]
        mgr = _manager(case["mcfg"])
        frame = M["FrameGroundTruth"](100, "0", list(objs))
        fcfg = _frame_cfg(case["fcfg"]) if case.get("fcfg") is not None else None
        crop = _try(lambda: mgr.crop_pointcloud(frame.objects, cloud, areas), lambda r: [ix(a) for a in r])
        try:
            res = mgr.add_frame_result(100, frame, cloud, areas, fcfg)
        except Exception as e:
            return {"err": type(e).__name__, "dists": dists, "crop": crop}
        out = _canon_frame(res, objs, rows, cols)
        out["nd_rows"] = sorted({j for a in out.pop("nd_raw") for j in ix(a)})
        out["dists"] = dists
        out["crop"] = crop
        return out
    raise ValueError(k)


# ----------------------------------------------------------------------------- model side

ND_TAG = 100000  # tag of row i of the k-th given non-detection cloud: k * ND_TAG + i (the driver reads a 4th entry as the tag)


def _jrows(rows, tag0=None):
    if tag0 is None:
        return [[core.q(r[0]), core.q(r[1]), core.q(r[2])] for r in rows]
    return [[core.q(r[0]), core.q(r[1]), core.q(r[2]), tag0 + i] for i, r in enumerate(rows)]


def _jbox(b):
    e1x, e1y, e2x, e2y = _rot(b["quat"])
    return {"cx": core.q(b["pos"][0]), "cy": core.q(b["pos"][1]), "cz": core.q(b["pos"][2]),
            "e1x": core.q(e1x), "e1y": core.q(e1y), "e2x": core.q(e2x), "e2y": core.q(e2y),
            "w": core.q(b["size"][0]), "l": core.q(b["size"][1]), "h": core.q(b["size"][2])}


def _jcfg(c):
    j = {"scale0": core.q(c["s0"]), "scale100": core.q(c["s100"]), "min_points": c["min_points"]}
    if c.get("uuids") is not None:
        j["target_uuids"] = list(c["uuids"])
    return j


def _jobjs(objs, dists):
    out = []
    for i, o in enumerate(objs):
        j = {"id": i, "box": _jbox(o["box"]), "dist": core.q(dists[i])}
        if o.get("uuid") is not None:
            j["uuid"] = o["uuid"]
        if o.get("vis") is not None:
            if o["vis"].startswith("str:"):
                j["visibility_str"] = o["vis"][4:]
            else:
                j["visibility"] = o["vis"]
        out.append(j)
    return out


def _malformed(case) -> bool:
    """inputs outside the quantifier ("all point clouds", "all polygonal non-detection prisms"): a cloud that is no rows x (>= 2
    columns) array, an area that is no prism over a polygon.  Whether they are rejected or answered is not stated: not judged
    (oracle), not compared (compare returns "skip", counted)."""
    k = case["kind"]
    if case["cols"] < 2:
        return True
    bad = lambda a: len(a) // 2 < 3 or len(a) % 2 != 0
    if k == "raw":
        return bad(case["area"])
    if k == "manager":
        return any(bad(a) for a in case["areas"])
    return False


def model_requests(case, out):
    k = case["kind"]
    if out.get("unexpected") or _malformed(case):
        return []
    if k == "raw":
        return [{"op": "crop_raw", "cols": case["cols"], "cloud": _jrows(case["cloud"]),
                 "area": [[core.q(v) for v in c] for c in case["area"]]}]
    if k == "box":
        return [{"op": "crop_box", "cols": case["cols"], "cloud": _jrows(case["cloud"]), "box": _jbox(case["box"]),
                 "scales": [core.q(s) for s in case["scales"]]}]
    if k == "frame":
        return [{"op": "frame", "cfg": _jcfg(case["cfg"]), "cols": case["cols"], "objs": _jobjs(case["objs"], out["dists"]),
                 "cloud": _jrows(case["cloud"]), "nd_clouds": [_jrows(r, k * ND_TAG) for k, r in enumerate(case["nd_clouds"])]}]
    if k == "manager":
        fcfg = case["fcfg"] if case.get("fcfg") is not None else case["mcfg"]
        return [{"op": "manager", "mcfg": _jcfg(case["mcfg"]), "fcfg": _jcfg(fcfg), "cols": case["cols"],
                 "objs": _jobjs(case["objs"], out["dists"]), "cloud": _jrows(case["cloud"]),
                 "areas": [[[core.q(v) for v in c] for c in a] for a in case["areas"]]}]
    if k == "derived":
        # the model is run on the state the derived objects HOLD after the derivation (read back from the objects)
        if "err" in out:
            return []
        return [{"op": "crop_box", "cols": case["cols"], "cloud": _jrows(case["cloud"]), "box": _jbox(_state_box(st)),
                 "scales": [core.q(s) for s in case["scales"]]} for st in out["state"]]
    return []


def _is_err(x):
    return isinstance(x, dict) and "err" in x


def _cmp_lists(name, a, b, judged=None):
    """two row selections: raised vs returned (the exception CLASS is not compared: the statement names none), and the SAME ROWS
    (as sets: the statement speaks about which points, not about their order); `judged`: only these rows are compared"""
    if _is_err(a) or _is_err(b):
        return None if (_is_err(a) and _is_err(b)) else f"{name}: impl {str(a)[:120]} != model {str(b)[:120]}"
    sa, sb = sorted(a), sorted(b)
    if judged is not None:
        sa, sb = [v for v in sa if v in judged], [v for v in sb if v in judged]
    return None if sa == sb else f"{name}: impl {str(sa)[:160]} != model {str(sb)[:160]}"


def _cmp_frame(case, out, m, nd_points=None):
    if "err" in out or "err" in m:
        return None if ("err" in out) == ("err" in m) else f"one side rejects the frame: impl {out.get('err')} model {m.get('err')}"
    for key in ("success", "fail", "warning"):
        # which objects are in the list, with which points (as sets): the order of a list is not stated
        a = sorted((r["gt"], r["num"], sorted(r["inside"])) for r in out[key])
        b = sorted((r["gt"], r["num"], sorted(r["inside"])) for r in m[key])
        if a != b:
            return f"{key}: impl {str(a)[:200]} != model {str(b)[:200]}"
    if nd_points is not None:
        # the reported POINTS (model: tags k * ND_TAG + i of the given clouds -> the coordinates of those rows)
        c3 = min(case["cols"], 3)
        b = sorted({tuple(float(v) for v in case["nd_clouds"][t // ND_TAG][t % ND_TAG][:c3]) for r in m["non_detection"] for t in r})
        a = sorted(tuple(p) for p in nd_points)
        if a != b:
            return f"non-detection points: impl {str(a)[:200]} != model {str(b)[:200]}"
    else:
        a = sorted(out["nd_rows"])
        b = sorted({t for r in m["non_detection"] for t in r})
        if a != b:
            return f"non-detection rows: impl {str(a)[:200]} != model {str(b)[:200]}"
    return None


def _boundary_rows(objs, scales_of, rows, cols):
    """rows within MARGIN of the boundary of some object's scaled box (not judged, see `_box_inside`); float pre-filter, exact
    decision.  `scales_of(i)` = the scales at which object i is used"""
    out = set()
    for j, r in enumerate(rows):
        for i, o in enumerate(objs):
            b = o["box"]
            for k in scales_of(i):
                if k <= 0:
                    continue
                near_z = cols >= 3 and min(abs(float(r[2]) - (float(b["pos"][2]) - float(b["size"][2]) / 2)),
                                           abs(float(r[2]) - (float(b["pos"][2]) + float(b["size"][2]) / 2))) < 1e-4
                if (near_z or not _clear_of_edges(b, k, r[0], r[1], MARGIN)) and _box_inside(b, _F(k), r, cols) is None:
                    out.add(j)
    return out


def compare(case, out, resps):
    """Only inputs of the quantifier are compared ("skip" otherwise, counted): well-formed clouds / areas, and only rows that are
    not ON the boundary of a box or area - the model decides those by the half-open rule of the scan (`inside_axis_aligned`,
    `wn_parallelogram_closed`), the statement ("points well inside, well outside") does not."""
    if out.get("unexpected") or _malformed(case):
        return "skip"
    r = resps[0]
    k = case["kind"]
    rows, cols = case["cloud"], case["cols"]
    if k == "raw":
        # not compared: rows on an edge / vertex of the polygon, and rows at the lowest / highest corner height (for a non-simple
        # polygon the even-odd test of `_prism_inside` does not say which rows are over the area, so the height alone decides)
        zs = [_F(c[2]) for c in case["area"]]
        on_plane = lambda row: cols >= 3 and _F(row[2]) in (min(zs), max(zs))
        judged = {i for i, row in enumerate(rows) if _prism_inside(case["area"], row, cols) is not None and not on_plane(row)}
        return _cmp_lists("inside", out["inside"], r["inside"], judged) or _cmp_lists("outside", out["outside"], r["outside"], judged)
    if k == "box":
        for i, (a, b) in enumerate(zip(out["results"], r["results"])):
            ks = _F(case["scales"][i])
            judged = set(range(len(rows))) if ks <= 0 else set(_expect_box(case["box"], ks, rows, cols)[1])
            for key in ("inside", "outside"):
                d = _cmp_lists(f"scale#{i} {key}", a[key], b[key], judged)
                if d:
                    return d
            if len(judged) == len(rows):
                for key in ("num", "exist"):
                    if _is_err(a[key]) or _is_err(b[key]):
                        if _is_err(a[key]) != _is_err(b[key]):
                            return f"scale#{i} {key}: impl {a[key]} != model {b[key]}"
                    elif a[key] != b[key]:
                        return f"scale#{i} {key}: impl {a[key]} != model {b[key]}"
        return None
    if k in ("frame", "manager"):
        if any(str(o.get("vis")).startswith("str:") for o in case["objs"]):
            return "skip"  # a visibility that is no member of Visibility: outside the annotated type, its meaning is not stated
        cfgs = [case["cfg"]] if k == "frame" else [case["mcfg"]] + ([case["fcfg"]] if case.get("fcfg") is not None else [])
        dists = out["dists"]
        every = list(rows) + ([p for c in case["nd_clouds"] for p in c] if k == "frame" else [])
        if _boundary_rows(case["objs"], lambda i: [_scale(c, _F(dists[i])) for c in cfgs], every, cols):
            return "skip"
        if k == "manager" and any(_prism_inside(a, row, cols) is None for a in case["areas"] for row in rows):
            return "skip"
        if k == "frame":
            return _cmp_frame(case, out, r, out.get("nd_points", []))
        d = _cmp_frame(case, out, r["frame"])
        if d:
            return d
        a, b = out["crop"], r["crop"]
        if _is_err(a) or _is_err(b):
            return _cmp_lists("manager.crop_pointcloud", a, b)
        if [sorted(x) for x in a] != [sorted(x) for x in b]:
            return f"manager.crop_pointcloud: impl {str(a)[:160]} != model {str(b)[:160]}"
        return None
    if k == "derived":
        for j, (fin, rr) in enumerate(zip(out["final"], resps)):
            box = _state_box(out["state"][j])
            for i, (a, b) in enumerate(zip(fin, rr["results"])):
                judged = set(_expect_box(box, _F(case["scales"][i]), rows, cols)[1])
                for key in ("inside", "outside"):
                    d = _cmp_lists(f"derived object #{j} ({case['how']}) scale#{i} {key}", a[key], b[key], judged)
                    if d:
                        return d
                if len(judged) == len(rows):
                    for key in ("num", "exist"):
                        if a[key] != b[key]:
                            return f"derived object #{j} ({case['how']}) scale#{i} {key}: impl {a[key]} != model {b[key]}"
        return None


# ----------------------------------------------------------------------------- oracle (the property on the real output)

def _partition(n, ins, outs, what):
    """"the inside and outside selections partition the cloud": every row in exactly one of the two (a statement about WHICH
    rows; the order in which a selection lists them is not stated)"""
    if _is_err(ins) or _is_err(outs):
        if _is_err(ins) and _is_err(outs):
            return None
        return f"{what}: inside/outside disagree on rejection: {ins} vs {outs}"
    if sorted(ins + outs) != list(range(n)):
        both = sorted(set(ins) & set(outs))
        miss = sorted(set(range(n)) - set(ins) - set(outs))
        dup = sorted({i for i in ins if ins.count(i) > 1} | {i for i in outs if outs.count(i) > 1})
        return (f"{what}: inside and outside do not partition the cloud (in both: {both[:5]}, in neither: {miss[:5]}, "
                f"listed twice: {dup[:5]}, unknown rows: {sorted(set(ins + outs) - set(range(n)))[:5]})")
    return None


def _expect_box(box, k, rows, cols, skip=()):
    exp, judged = [], []
    for i, r in enumerate(rows):
        if i in skip:
            continue
        v = _box_inside(box, k, r, cols)
        if v is None:
            continue
        judged.append(i)
        if v:
            exp.append(i)
    return exp, judged


def _oracle_detection(case, cfg, objs, out, rows, cols, targets=None):
    """`objs`: all ground-truth objects handed over; `targets`: the ones the configuration selects (uuid filter; default all)"""
    targets = set(range(len(objs))) if targets is None else set(targets)
    # "Each ground-truth object is reported as exactly one of detected / not detected / warning"
    seen = {}
    for key in ("success", "fail", "warning"):
        for r in out[key]:
            seen.setdefault(r["gt"], []).append(key)
    for i, o in enumerate(objs):
        if i in targets and len(seen.get(i, [])) != 1:
            return f"object #{i} reported {seen.get(i, [])} (must be in exactly one of success/fail/warning)"
        if i not in targets and len(seen.get(i, [])) > 1:
            return f"object #{i} (no target of the uuid filter) reported {seen.get(i, [])}: more than once"
    if set(seen) - set(range(len(objs))):
        return f"results for unknown objects {sorted(set(seen) - set(range(len(objs))))}"
    for key in ("success", "fail", "warning"):
        for r in out[key]:
            o = objs[r["gt"]]
            k = _scale(cfg, _F(out["dists"][r["gt"]]))
            exp, judged = _expect_box(o["box"], k, rows, cols)
            got = sorted(i for i in r["inside"] if i in set(judged))
            if got != exp:
                return (f"object #{r['gt']} (scale {float(k):.6g}): inside rows {got[:12]} but geometrically inside are "
                        f"{exp[:12]} (box {o['box']})")
            if r["num"] != len(r["inside"]):
                return f"object #{r['gt']}: inside_pointcloud_num {r['num']} != len(inside_pointcloud) {len(r['inside'])}"
            # "warning (annotated as fully occluded)": the annotation is the member Visibility.NONE.  A visibility that is no
            # member (a raw string) is outside the annotated type Optional[Visibility]: whether it counts as occluded is not judged
            vis = o.get("vis")
            by_count = "success" if r["num"] >= cfg["min_points"] else "fail"
            allowed = {"warning"} if vis == "NONE" else {"warning", by_count} if str(vis).startswith("str:") else {by_count}
            if key not in allowed:
                return (f"object #{r['gt']} (visibility {vis}, {r['num']} points, threshold {cfg['min_points']}) "
                        f"reported as {key}, must be {' or '.join(sorted(allowed))}")
    return None


def _oracle_nd_frame(objs, cfg, dists, nd_clouds, got_points, cols):
    """"the points reported as non-detection failures are exactly the points that lie in a non-detection area and outside every
    scaled object box": as a set of points (coordinate tuples); points on the boundary of a box are not judged"""
    c3 = min(cols, 3)
    want, open_ = set(), set()
    for nrows in nd_clouds:
        for r in nrows:
            t = tuple(float(v) for v in r[:c3])
            vals = [_box_inside(o["box"], _scale(cfg, _F(dd)), r, cols) for o, dd in zip(objs, dists)]
            if any(v is None for v in vals) and not any(v for v in vals):
                open_.add(t)
            elif not any(vals):
                want.add(t)
    got = {tuple(p) for p in got_points}
    if got - open_ != want - open_:
        extra, miss = sorted(got - want - open_), sorted(want - got - open_)
        return (f"non-detection report: points {extra[:6]} are reported although inside a scaled box (or in no given cloud); "
                f"points {miss[:6]} lie in a non-detection cloud outside every scaled box and are not reported")
    return None


def _unexpected(out):
    """an exception escaped `run_impl` (the runner of the new convention reports it itself and does not call the oracle): out of
    the library = the real code failed; otherwise a harness error, which is not a violation"""
    tr = str(out.get("trace", ""))
    if "perception_eval/perception_eval/" in tr:
        return f"the real code raised {out.get('err')} unexpectedly: {tr[-300:]}"
    raise RuntimeError(f"harness error in run_impl ({out.get('err')}): {tr[-400:]}")


def oracle(case, out):
    k = case["kind"]
    if out.get("unexpected"):
        return _unexpected(out)
    if _malformed(case):
        return None  # outside the quantifier (see `_malformed`): rejected or answered, no claim
    if k == "derived":
        return _oracle_derived(case, out)
    rows, cols = case["cloud"], case["cols"]
    n = len(rows)
    if k == "raw":
        d = _partition(n, out["inside"], out["outside"], "crop_pointcloud")
        if d or _is_err(out["inside"]):
            return d or f"well-formed input rejected: {out['inside']}"
        if case.get("geom") in ("simple",):
            exp, judged = [], set()
            for i, r in enumerate(rows):
                v = _prism_inside(case["area"], r, cols)
                if v is None:
                    continue
                judged.add(i)
                if v:
                    exp.append(i)
            got = sorted(i for i in out["inside"] if i in judged)
            if got != exp:
                diff = sorted(set(got) ^ set(exp))
                return (f"inside rows differ from exact point-in-polygon at rows {diff[:8]}: "
                        f"points {[rows[i] for i in diff[:4]]}, area {case['area'][: len(case['area']) // 2]}")
        return None
    if k == "box":
        prev = None
        for s, r in zip(case["scales"], out["results"]):
            d = _partition(n, r["inside"], r["outside"], f"DynamicObject.crop_pointcloud(scale={s})")
            if d or _is_err(r["inside"]):
                return d or f"well-formed input rejected: {r['inside']}"
            if _is_err(r["num"]) or _is_err(r["exist"]):
                return f"scale {s}: well-formed input rejected by get_inside_pointcloud_num / point_exist: {r['num']} / {r['exist']}"
            ks = _F(s)
            judged = list(range(n))
            if ks > 0:
                exp, judged = _expect_box(case["box"], ks, rows, cols)
                got = sorted(i for i in r["inside"] if i in set(judged))
                if got != exp:
                    diff = sorted(set(got) ^ set(exp))
                    return (f"scale {s}: inside rows differ from the exact footprint/z test at rows {diff[:8]}: "
                            f"points {[rows[i] for i in diff[:4]]}, box {case['box']}")
            if r["num"] != len(r["inside"]) or r["exist"] != (r["num"] > 0):
                return f"scale {s}: get_inside_pointcloud_num {r['num']} / point_exist {r['exist']} vs {len(r['inside'])} inside rows"
            # "enlarging the scale never removes an inside point" (points ON the boundary at either scale are not judged)
            if prev is not None and _F(prev[0]) > 0 and _F(prev[0]) <= ks:
                ok = set(judged) & set(prev[2])
                lost = [i for i in prev[1] if i not in set(r["inside"]) and i in ok]
                if lost:
                    return f"enlarging the scale {prev[0]} -> {s} removed inside rows {lost[:8]}: {[rows[i] for i in lost[:4]]}"
            prev = (s, r["inside"], judged)
        return None
    if k in ("frame", "manager"):
        objs = case["objs"]
        mcfg = case.get("mcfg")
        fcfg = case["cfg"] if k == "frame" else (case["fcfg"] if case.get("fcfg") is not None else case["mcfg"])
        targets = list(range(len(objs)))
        if k == "manager" and fcfg.get("uuids") is not None:
            targets = [i for i, o in enumerate(objs) if o.get("uuid") in fcfg["uuids"]]
        if "err" in out:
            return f"well-formed frame rejected with {out['err']}"
        d = _oracle_detection(case, fcfg, objs, out, rows, cols, targets)
        if d:
            return d
        # non-detection
        if k == "frame":
            return _oracle_nd_frame(objs, fcfg, out["dists"], case["nd_clouds"], out["nd_points"], cols)
        # manager: rows of the cloud inside an area and outside every box (manager scale, all objects; frame scale, targets)
        want, open_ = set(), set()
        for a in case["areas"]:
            for i, r in enumerate(rows):
                ina = _prism_inside(a, r, cols)
                if ina is False:
                    continue
                vals = [_box_inside(o["box"], _scale(mcfg, _F(dd)), r, cols) for o, dd in zip(objs, out["dists"])]
                vals += [_box_inside(objs[g]["box"], _scale(fcfg, _F(out["dists"][g])), r, cols) for g in targets]
                if any(vals):
                    continue
                if ina is None or any(v is None for v in vals):
                    open_.add(i)  # on the boundary of the area or of a box: not judged
                else:
                    want.add(i)
        got = set(out["nd_rows"])
        inside_any = {i for i in got if i not in open_ and i not in want}
        if got - open_ != want - open_:
            return (f"non-detection report: rows {sorted(inside_any)[:8]} are reported although in no area or inside a scaled box; rows "
                    f"{sorted(want - got - open_)[:8]} lie in an area and outside every scaled box and are not reported")
        return None
    return None


# ----------------------------------------------------------------------------- generation

def _dy(rng, lo, hi, den=8):
    return rng.randint(int(lo * den), int(hi * den)) / den


def _gen_poly(rng, shape, center=None):
    """(vertices, geom) with geom in simple / nonsimple"""
    cx, cy = (_dy(rng, -6, 6), _dy(rng, -6, 6)) if center is None else center
    if shape == "rect":
        w, h = _dy(rng, 1, 6), _dy(rng, 1, 6)
        poly = [(cx + w, cy + h), (cx - w, cy + h), (cx - w, cy - h), (cx + w, cy - h)]
    elif shape == "L":
        a, b, c, d = _dy(rng, 2, 6), _dy(rng, 2, 6), _dy(rng, 0.5, 1.5), _dy(rng, 0.5, 1.5)
        poly = [(cx, cy), (cx + a, cy), (cx + a, cy + d), (cx + c, cy + d), (cx + c, cy + b), (cx, cy + b)]
    elif shape == "pentagram":
        r = _dy(rng, 3, 6)
        ph = rng.random()
        pts = [(round((cx + r * math.cos(ph + 2 * math.pi * i / 5)) * 8) / 8, round((cy + r * math.sin(ph + 2 * math.pi * i / 5)) * 8) / 8) for i in range(5)]
        poly = [pts[0], pts[2], pts[4], pts[1], pts[3]]
        if rng.random() < 0.5:
            poly.reverse()
        return poly, "nonsimple"
    else:
        for _ in range(50):
            n = rng.randint(3, 9)
            angs = sorted(rng.uniform(0, 2 * math.pi) for _ in range(n))
            if any((angs[(i + 1) % n] - angs[i]) % (2 * math.pi) < 0.3 for i in range(n)) or \
               any((angs[(i + 1) % n] - angs[i]) % (2 * math.pi) > 2.8 for i in range(n)):
                continue
            if shape == "convex":
                r0 = _dy(rng, 2, 6)
                rad = [r0] * n
            else:
                rad = [_dy(rng, 1.5, 7) for _ in range(n)]
            poly = [(round((cx + r * math.cos(a)) * 8) / 8, round((cy + r * math.sin(a)) * 8) / 8) for r, a in zip(rad, angs)]
            if _is_simple(poly):
                break
        else:
            poly = [(cx + 2, cy + 2), (cx - 2, cy + 2), (cx - 2, cy - 2), (cx + 2, cy - 2)]
    if rng.random() < 0.5:
        poly = list(reversed(poly))
    s = rng.randrange(len(poly))
    poly = poly[s:] + poly[:s]
    return poly, "simple"


def _poly_points(rng, poly, zlo, zhi, n, boundary=True):  # boundary=False: no row ON an edge / vertex / the two planes
    """grid points around a polygon: random, at vertex heights, (optionally) on vertices / axis-parallel edges / midpoints, z on bounds"""
    xs = [p[0] for p in poly]
    ys = [p[1] for p in poly]
    P = [(_F(x), _F(y)) for x, y in poly]
    rows = []

    def slanted_hit(x, y):
        for i in range(len(P)):
            a, b = P[i], P[(i + 1) % len(P)]
            if a[0] != b[0] and a[1] != b[1] and _on_segment((_F(x), _F(y)), a, b):
                return True
        return False

    def z():
        u = rng.random()
        if u < 0.12:
            return zlo if boundary else zlo + rng.choice([-0.125, 0.125])
        if u < 0.24:
            return zhi if boundary else zhi + rng.choice([-0.125, 0.125])
        if u < 0.8:
            return _dy(rng, zlo, zhi)
        return _dy(rng, zlo - 2, zhi + 2)

    tries = 0
    while len(rows) < n and tries < 20 * n:
        tries += 1
        u = rng.random()
        if u < 0.45:
            x, y = _dy(rng, min(xs) - 2, max(xs) + 2), _dy(rng, min(ys) - 2, max(ys) + 2)
        elif u < 0.75:  # at a vertex height
            x, y = _dy(rng, min(xs) - 2, max(xs) + 2), rng.choice(ys)
        elif u < 0.85:  # at a vertex abscissa
            x, y = rng.choice(xs), _dy(rng, min(ys) - 2, max(ys) + 2)
        elif boundary:
            i = rng.randrange(len(poly))
            a, b = poly[i], poly[(i + 1) % len(poly)]
            v = rng.random()
            if v < 0.4:
                x, y = a
            elif a[0] == b[0] or a[1] == b[1]:
                t = rng.randint(0, 8) / 8
                x, y = a[0] + t * (b[0] - a[0]), a[1] + t * (b[1] - a[1])
            else:
                x, y = (a[0] + b[0]) / 2, (a[1] + b[1]) / 2
            rows.append([x, y, z()])
            continue
        else:
            continue
        if slanted_hit(x, y):
            continue  # accidental hit of a slanted edge: float evaluation of the intersection is not exact there
        rows.append([x, y, z()])
    return rows


def _dedupe(rows, cols):
    seen, out = set(), []
    for r in rows:
        t = tuple(r[: max(cols, 2)]) if cols < 4 else None
        if t is not None and t in seen:
            continue
        if t is not None:
            seen.add(t)
        out.append(r)
    return out


def _gen_raw(rng, malformed=False):
    shape = rng.choice(["rect", "L", "convex", "convex", "star", "star", "star", "pentagram"])
    poly, geom = _gen_poly(rng, shape)
    zlo = _dy(rng, -2, 0)
    zhi = zlo + _dy(rng, 0, 3)
    area = _area_of(poly, zlo, zhi)
    cols = rng.choice([2, 3, 3, 4, 4, 5])
    if rng.random() < 0.15:  # upper plane listed after the lower one: min/max must not depend on the order
        n = len(poly)
        area = area[n:] + area[:n]
    variant = "prism"
    if QUIRK and rng.random() < 0.3:
        # (experiments only) the two planes differ: exercises the `area[i + 1]` index of the code. Not part of the
        # registered runs: such areas violate the documented precondition of crop_pointcloud, and the theorem
        # index_quirk_unobservable shows that the index cannot be observed on prisms.
        variant = "quirk"
        geom = "quirk"
        n = len(poly)
        low = [list(c) for c in area[n:]]
        mode = rng.choice(["shift", "same_y_as_last", "rotate"])
        if mode == "shift":
            low = [[c[0] + 0.5, c[1] + _dy(rng, -1, 1), c[2]] for c in low]
        elif mode == "same_y_as_last":
            low[0][1] = area[n - 1][1]
        else:
            low = low[1:] + low[:1]
        area = area[:n] + low
    rows = _poly_points(rng, poly, zlo, zhi, rng.choice([0, 12, 40, 80, 80, 120]))
    if malformed:
        m = rng.choice(["cols1", "ndim1", "few", "odd", "empty_area"])
        if m == "cols1":
            cols = 1
        elif m == "ndim1":
            cols = 0
        elif m == "few":
            area = area[:2] + area[len(area) // 2: len(area) // 2 + 2]
        elif m == "odd":
            area = area[:-1]
        else:
            area = []
        variant = "malformed:" + m
        geom = "malformed"
    rows = _dedupe(rows, cols)
    return {"kind": "raw", "cols": cols, "cloud": rows, "area": area, "geom": geom, "variant": variant, "shape": shape}


def _gen_quat(rng, mode):
    if mode == "identity":
        return ["1", "0", "0", "0"]
    t = Fraction(rng.randint(-24, 24), rng.choice([5, 7, 8, 12]))
    if mode == "yaw":
        return ["1", "0", "0", str(t)]
    if mode == "yaw_flip":  # |t| > 1: more than a quarter turn; also the negative-w representative
        t = Fraction(rng.choice([-1, 1]) * rng.randint(13, 60), 12)
        return [str(rng.choice([1, -1])), "0", "0", str(t)]
    a = Fraction(rng.randint(-3, 3), 16)
    b = Fraction(rng.randint(-3, 3), 16)
    return ["1", str(a), str(b), str(t)]


_AT_100 = [(100.0, 0.0), (0.0, -100.0), (60.0, 80.0), (-80.0, 60.0), (28.0, -96.0), (-96.0, -28.0), (-60.0, -80.0), (70.0, 71.5)]


def _place(rng, rclass, dmax=1000.0):
    """a centre in a range class: at the sensor (distance 0 or a few cm), exactly / about 100 m away, 100 m .. dmax"""
    if rclass == "origin":
        return [0.0, 0.0, rng.choice([0.0, 0.0, 0.125, -0.5])]
    if rclass == "at100":
        x, y = rng.choice(_AT_100)
        return [x, y, rng.choice([0.0, 0.0, 0.0, 1.0, -0.5])]
    d = rng.choice([rng.uniform(100.0, 130.0), rng.uniform(100.0, 300.0), rng.uniform(100.0, 1000.0)])
    d = min(d, dmax)
    a = rng.uniform(0, 2 * math.pi)
    return [round(d * math.cos(a) * 8) / 8, round(d * math.sin(a) * 8) / 8, _dy(rng, -2, 2)]


def _gen_box(rng, mode=None, near=None, rclass=None, dmax=1000.0, flat_ok=False):
    mode = mode or rng.choice(["identity", "yaw", "yaw", "yaw", "yaw_flip", "full"])
    if rclass is not None:
        pos = _place(rng, rclass, dmax)
    elif near is None:
        pos = [_dy(rng, -40, 40), _dy(rng, -40, 40), _dy(rng, -2, 2)]
    else:
        pos = [near[0] + _dy(rng, -6, 6), near[1] + _dy(rng, -6, 6), _dy(rng, -2, 2)]
    size = [_dy(rng, 0.5, 3), _dy(rng, 0.5, 6), _dy(rng, 0.5, 3)]
    if rng.random() < 0.08 and flat_ok:
        size[2] = 0.0  # a flat box (`box` stream only): bottom = top, every point over the footprint at that height is ON the boundary
    return {"pos": pos, "quat": _gen_quat(rng, mode), "size": size, "mode": mode}


def _box_points(rng, box, scales, n, boundary_ok):
    """rows around a box: inside the smallest scale, between the scales, outside, z in / near / out (ON the bottom / top plane only
    with `boundary_ok`); returns (rows, boundary_idx, number of candidate rows rejected because they graze an edge line)"""
    rejected = 0
    e1x, e1y, e2x, e2y = (float(v) for v in _rot(box["quat"]))
    w, l, h = box["size"]
    cx, cy, cz = box["pos"]
    smin, smax = min(scales), max(scales)
    rings = sorted(set(float(v) for v in scales))
    rows, bidx = [], []
    tries = 0
    while len(rows) < n and tries < 30 * n:
        tries += 1
        u = rng.random()
        if len(rings) > 1 and u < 0.25:
            # in the ring between two neighbouring scales (the true one and a plausible wrong one)
            j = rng.randrange(len(rings) - 1)
            lo, hi = rings[j], rings[j + 1]
            m = rng.uniform(lo + 0.1 * (hi - lo), hi - 0.1 * (hi - lo))
            a, b = (rng.choice([-m, m]), rng.uniform(-1, 1) * m) if rng.random() < 0.5 else (rng.uniform(-1, 1) * m, rng.choice([-m, m]))
        elif u < (0.45 if len(rings) > 1 else 0.35):
            a, b = rng.uniform(-0.95, 0.95) * smin, rng.uniform(-0.95, 0.95) * smin
        elif u < 0.65:
            a, b = rng.uniform(-1.1, 1.1) * smax, rng.uniform(-1.1, 1.1) * smax
        elif u < 0.85:
            a, b = rng.uniform(-2.5, 2.5) * smax, rng.uniform(-2.5, 2.5) * smax
        elif boundary_ok and u < 0.95:
            # exactly on the footprint boundary of one of the scales (identity orientation, dyadic data)
            s = rng.choice(scales)
            side = rng.choice(["xp", "xm", "yp", "ym", "corner"])
            tt = rng.randint(-8, 8) / 8
            if side == "xp":
                a, b = s, tt * s
            elif side == "xm":
                a, b = -s, tt * s
            elif side == "yp":
                a, b = tt * s, s
            elif side == "ym":
                a, b = tt * s, -s
            else:
                a, b = rng.choice([-s, s]), rng.choice([-s, s])
            x, y = cx + a * l / 2, cy + b * w / 2
            zz = rng.choice([cz, cz + h / 2, cz - h / 2, cz + h])
            if (x * 64) % 1 == 0 and (y * 64) % 1 == 0:
                bidx.append(len(rows))
                rows.append([x, y, zz])
            continue
        else:
            a, b = rng.uniform(-0.9, 0.9) * smin, rng.uniform(-0.9, 0.9) * smin
        lx, ly = a * l / 2, b * w / 2
        x = round((cx + lx * e1x + ly * e2x) * 16) / 16
        y = round((cy + lx * e1y + ly * e2y) * 16) / 16
        v = rng.random()
        if v < 0.2:
            # on the top / bottom plane (not judged: only where boundary rows are wanted), else 1/16 inside or outside of it
            zz = cz + (h / 2 if v < 0.1 else -h / 2) + (0.0 if boundary_ok else rng.choice([-0.0625, 0.0625]))
        elif v < 0.8:
            zz = round((cz + rng.uniform(-0.5, 0.5) * h) * 16) / 16
        else:
            zz = round((cz + rng.uniform(-1.5, 1.5) * h) * 16) / 16
        # margin from every edge line of every scale (exact)
        if all(_clear_of_edges(box, s, x, y, 10 * MARGIN) for s in scales if s > 0):
            rows.append([x, y, zz])
        else:
            rejected += 1
    return rows, bidx, rejected


def _gen_boxcase(rng, malformed=False):
    box = _gen_box(rng, flat_ok=True)
    pool = [0.5, 0.75, 1.0, 1.0, 1.125, 1.25, 1.5, 2.0, 1.1, 0.9, 1.3]
    scales = sorted(rng.sample(pool, rng.randint(1, 4)))
    if rng.random() < 0.05:
        scales = [0.0] + scales  # degenerate footprint: nothing is inside
    cols = rng.choice([2, 3, 3, 4, 4, 6])
    dy_scales = all((s * 8) % 1 == 0 for s in scales)
    rows, bidx, rejected = _box_points(rng, box, [s for s in scales if s > 0] or [1.0], rng.choice([0, 10, 40, 100, 100, 150]),
                                       boundary_ok=(box["mode"] == "identity" and dy_scales))
    if malformed:
        cols = rng.choice([0, 1])
    if cols < 4:
        rows2 = _dedupe(rows, cols)
        if len(rows2) != len(rows):
            keep = {tuple(r) for r in rows2}
            # recompute boundary indices after dedupe
            bset = {tuple(rows[i]) for i in bidx}
            rows = rows2
            bidx = [i for i, r in enumerate(rows) if tuple(r) in bset]
    return {"kind": "box", "cols": cols, "cloud": rows, "box": box, "scales": scales, "boundary": bidx, "dropped": rejected}


# members of Visibility / no annotation.  Raw strings ("none", "NONE", "full": outside the annotated type Optional[Visibility],
# their meaning is that of Visibility.__eq__(str), which the statement does not fix) are not generated; a case that carries one
# ("str:…", e.g. an old replay) is run, and its warning-vs-count decision for that object is not judged.
_VIS = ["FULL", "MOST", "PARTIAL", "NONE", "NONE", "NONE", "UNAVAILABLE", None, None]


def _gen_cfg(rng, uuids=None):
    mode = rng.choice(["const", "const1", "dist", "dist", "shrink", "below1", "gentle"])
    if mode == "const1":
        s0 = s100 = 1.0
    elif mode == "const":
        s0 = s100 = rng.choice([0.75, 1.0, 1.25, 1.5, 1.1, 0.5])
    elif mode == "dist":
        s0 = rng.choice([0.75, 1.0, 1.0, 1.1])
        s100 = s0 + rng.choice([0.25, 0.5, 1.0, 0.3])
    elif mode == "below1":  # both scales below 1, growing or shrinking
        s0, s100 = rng.choice([(0.5, 0.75), (0.75, 0.5), (0.25, 0.5), (0.9, 0.8), (0.5, 0.9)])
    elif mode == "gentle":  # a small slope in either direction: stays positive for hundreds of metres
        s0 = rng.choice([1.0, 1.25, 2.0, 0.75])
        s100 = s0 + rng.choice([-0.125, -0.0625, 0.0625, 0.125, -0.1])
    else:
        s0 = rng.choice([1.5, 2.0])
        s100 = s0 - rng.choice([0.25, 0.5])
    return {"s0": s0, "s100": s100, "min_points": rng.choice([-1, 0, 1, 1, 2, 3, 5, 8]), "uuids": uuids, "mode": mode}


def _scene(rng, nobj, cfgs, npts, per_obj=(0, 1, 2, 3, 4, 6, 10)):
    """objects (some overlapping), a cloud with clusters in / around every box under every configuration's scale"""
    objs = []
    dropped = 0
    # the range over which every configuration's scale stays clearly positive (a shrinking scale reaches 0 somewhere:
    # a non-positive scale is not a footprint scale); far objects are placed within it, also where the scale has
    # extrapolated to a small positive number
    dmax = 1000.0
    for c in cfgs:
        if c["s100"] < c["s0"]:
            dmax = min(dmax, 100.0 * (c["s0"] - rng.choice([0.0625, 0.125, 0.25, 0.5])) / (c["s0"] - c["s100"]))
    wide = rng.random() < 0.5  # half of the scenes hold objects outside the 'typical' 0 .. 60 m
    for i in range(nobj):
        rclass = rng.choice(["origin", "at100", "far", "far", "far", None]) if wide else None
        if rclass in ("at100", "far") and dmax < 101.0:
            rclass = None
        near = objs[-1]["box"]["pos"] if objs and rclass is None and rng.random() < 0.4 else None
        b = _gen_box(rng, near=near, rclass=rclass, dmax=dmax)
        if rclass is not None:
            b["range"] = rclass
        objs.append({"box": b, "uuid": rng.choice([f"u{i}", f"u{i}", "dup", None]), "vis": rng.choice(_VIS)})
    rows = []
    for o in objs:
        d = math.sqrt(sum(v * v for v in o["box"]["pos"]))
        scales = [float(_scale(c, _F(d))) for c in cfgs]
        true_scales = list(scales)
        # plausible wrong scales: clamped to the 0 .. 100 m interval, the end values, no scaling at all
        for c in cfgs:
            if c["s0"] != c["s100"]:
                scales += [float(_scale(c, _F(min(d, 100.0)))), float(c["s0"]), float(c["s100"]), 1.0]
        scales = sorted(set(s for s in scales if s > 0)) or [1.0]
        if len(scales) > 4:  # keep the true ones and the nearest wrong ones
            keep = set(s for s in true_scales if s > 0)
            rest = sorted((s for s in scales if s not in keep), key=lambda v: min(abs(v - t) for t in keep) if keep else 0)
            scales = sorted(keep | set(rest[:4 - len(keep)])) if len(keep) < 4 else sorted(keep)
        r, _, rej = _box_points(rng, o["box"], scales, rng.choice(per_obj) if npts else 0, boundary_ok=False)
        dropped += rej
        rows.extend(r)
    for _ in range(npts):
        rows.append([_dy(rng, -45, 45, 16), _dy(rng, -45, 45, 16), _dy(rng, -3, 3, 16)])
    # global margin check (a point generated for one box may graze another)
    good = []
    for r in rows:
        ok = True
        for o in objs:
            d = float(math.sqrt(sum(v * v for v in o["box"]["pos"])))
            for c in cfgs:
                # the real distance is a float sqrt; a relative error of 1e-15 cannot move an edge by more than 1e-12
                k = _scale(c, _F(d))
                if not _clear_of_edges(o["box"], k, r[0], r[1], 10 * MARGIN) or _on_z_bound(o["box"], k, r):
                    ok = False
        if ok:
            good.append(r)
    dropped += len(rows) - len(good)
    rng.shuffle(good)
    return objs, good, dropped


def _gen_frame(rng, malformed=False):
    cfg = _gen_cfg(rng)
    nobj = rng.choice([0, 1, 1, 2, 3, 5, 8])
    objs, rows, dropped = _scene(rng, nobj, [cfg], rng.choice([0, 5, 20, 60]))
    cols = rng.choice([2, 3, 3, 4, 4, 5])
    if malformed:
        cols = 1 if nobj == 0 else rng.choice([0, 1])
    rows = _dedupe(rows, cols)
    nd = []
    for _ in range(rng.choice([0, 1, 1, 2, 3])):
        sub = [list(r) for r in rows if rng.random() < rng.choice([0.0, 0.3, 0.6, 1.0])]
        if rng.random() < 0.3:
            # only points inside boxes: the cloud vanishes and must not be reported
            sub = []
            for o in objs:
                k = _scale(cfg, _F(math.sqrt(sum(v * v for v in o["box"]["pos"]))))
                sub += [list(r) for r in rows if _box_inside(o["box"], k, r, max(cols, 2)) is True]
            sub = _dedupe(sub, cols)
        nd.append(sub)
    for o in objs:
        o.pop("uuid", None)
    return {"kind": "frame", "cols": cols, "cloud": rows, "objs": objs, "cfg": cfg, "nd_clouds": nd, "dropped": dropped}


def _gen_manager(rng, malformed=False):
    mpool = [
        {"s0": 1.0, "s100": 1.0, "min_points": 1, "uuids": None, "mode": "const1"},
        {"s0": 1.0, "s100": 1.5, "min_points": 2, "uuids": None, "mode": "dist"},
        {"s0": 1.25, "s100": 1.25, "min_points": 0, "uuids": None, "mode": "const"},
        {"s0": 1.5, "s100": 2.0, "min_points": 1, "uuids": None, "mode": "dist"},
        {"s0": 0.75, "s100": 1.0, "min_points": 3, "uuids": ["u0", "u2", "dup"], "mode": "dist"},
    ]
    mcfg = dict(rng.choice(mpool))
    fcfg = None
    if rng.random() < 0.6:
        fcfg = _gen_cfg(rng, uuids=rng.choice([None, None, ["u0"], ["u1", "u2", "dup"], []]))
    cfgs = [mcfg] + ([fcfg] if fcfg else [])
    nobj = rng.choice([0, 1, 2, 3, 5])
    objs, rows, dropped = _scene(rng, nobj, cfgs, rng.choice([5, 20, 40]), per_obj=(2, 6, 10, 16))
    cols = rng.choice([2, 3, 3, 4, 4])
    areas = []
    for _ in range(rng.choice([0, 1, 1, 2, 3])):
        shape = rng.choice(["rect", "L", "convex", "star", "star"])
        poly, _ = _gen_poly(rng, shape, center=(0.0, 0.0))
        # move/scale the polygon over the scene (mostly over an object, so that the rings between scales are populated)
        if objs and rng.random() < 0.8:
            c = rng.choice(objs)["box"]["pos"]
            c = [c[0] + _dy(rng, -1, 1), c[1] + _dy(rng, -1, 1)]
        else:
            c = [_dy(rng, -30, 30), _dy(rng, -30, 30)]
        f = rng.choice([1, 2, 2, 4])
        if shape == "L":
            poly = [(x - 1.0, y - 1.0) for x, y in poly]
        poly = [(c[0] + f * x, c[1] + f * y) for x, y in poly]
        zlo = _dy(rng, -4, -1)
        zhi = zlo + _dy(rng, 2, 7)
        areas.append(_area_of(poly, zlo, zhi))
        rows += _poly_points(rng, poly, zlo, zhi, rng.choice([3, 10, 25]), boundary=False)
    # drop rows that graze a box edge line or sit on an area boundary
    good = []
    for r in rows:
        ok = True
        for o in objs:
            d = float(math.sqrt(sum(v * v for v in o["box"]["pos"])))
            for c in cfgs:
                k = _scale(c, _F(d))
                if not _clear_of_edges(o["box"], k, r[0], r[1], 10 * MARGIN) or _on_z_bound(o["box"], k, r):
                    ok = False
        for a in areas:
            if _prism_inside(a, r, 3) is None:  # on an edge / vertex of the polygon, or on its lowest / highest plane
                ok = False
        if ok:
            good.append(r)
    dropped += len(rows) - len(good)
    rows = _dedupe(good, cols)
    if malformed:
        m = rng.choice(["cols1", "few", "odd"])
        if m == "cols1":
            cols = 1
        elif m == "few" or not areas:
            areas.append([[0, 0, 0], [1, 0, 0], [0, 0, 1], [1, 0, 1]])
        else:
            areas[-1] = areas[-1][:-1]
    return {"kind": "manager", "cols": cols, "cloud": rows, "objs": objs, "mcfg": mcfg, "fcfg": fcfg, "areas": areas, "dropped": dropped}


def corpus():
    cs = []
    unit = {"pos": [0.0, 0.0, 0.0], "quat": ["1", "0", "0", "0"], "size": [2.0, 4.0, 2.0], "mode": "identity"}
    # points on every edge, at every corner, on the z bounds of an axis-aligned box (model vs code: half-open rule)
    rows = [[2.0, 1.0, 0.0], [-2.0, 1.0, 0.0], [2.0, -1.0, 0.0], [-2.0, -1.0, 0.0], [0.0, 1.0, 0.0], [0.0, -1.0, 0.0],
            [2.0, 0.0, 0.0], [-2.0, 0.0, 0.0], [0.0, 0.0, 1.0], [0.0, 0.0, -1.0], [0.0, 0.0, 1.0625], [1.9375, 0.9375, 0.0],
            [2.0625, 0.0, 0.0], [0.0, 0.0, 0.0]]
    cs.append({"kind": "box", "cols": 3, "cloud": rows, "box": unit, "scales": [1.0, 2.0], "boundary": [0, 1, 2, 3, 4, 5, 6, 7]})
    # clockwise prism (uint8 wrap: the counter ends at 255) and its mirror image
    sq = [(1.0, 1.0), (-1.0, 1.0), (-1.0, -1.0), (1.0, -1.0)]
    pts = [[0.0, 0.0, 0.5], [0.5, 0.5, 0.0], [2.0, 0.0, 0.5], [0.0, 0.0, 2.0], [0.0, 1.0, 0.5], [1.0, 0.0, 0.5], [-1.0, -1.0, 0.5]]
    cs.append({"kind": "raw", "cols": 3, "cloud": pts, "area": _area_of(sq, 0.0, 1.0), "geom": "simple", "variant": "prism", "shape": "rect"})
    cs.append({"kind": "raw", "cols": 3, "cloud": pts, "area": _area_of(list(reversed(sq)), 0.0, 1.0), "geom": "simple", "variant": "prism", "shape": "rect"})
    # F13 (fixed): a fully occluded object (Visibility.NONE as a member) is a warning even with enough points
    occ = {"box": unit, "vis": "NONE"}
    full = {"box": dict(unit, pos=[10.0, 0.0, 0.0]), "vis": "FULL"}
    stringy = {"box": dict(unit, pos=[20.0, 0.0, 0.0]), "vis": "PARTIAL"}  # (was a raw string "none": outside the annotated type)
    cloud = [[0.0, 0.0, 0.0], [0.5, 0.5, 0.5], [10.0, 0.0, 0.0], [30.0, 0.0, 0.0], [20.0, 0.5, 0.0]]
    cs.append({"kind": "frame", "cols": 3, "cloud": cloud, "objs": [occ, full, stringy],
               "cfg": {"s0": 1.0, "s100": 1.0, "min_points": 1, "uuids": None, "mode": "const1"},
               "nd_clouds": [cloud, [[0.0, 0.0, 0.0]], []]})
    cs.append({"kind": "frame", "cols": 4, "cloud": cloud, "objs": [], "cfg": {"s0": 1.0, "s100": 2.0, "min_points": 1, "uuids": None, "mode": "dist"},
               "nd_clouds": [cloud, []]})
    # objects outside the 0..100 m interval on which the two scales are given: the scale is ONE linear law (2.0 at 200 m for
    # 1.0 -> 1.5; 0.5 at 300 m for 2.0 -> 1.5), with points between the true footprint and the one clamped at 100 m / unscaled
    far = [{"box": dict(unit, pos=[200.0, 0.0, 0.0], range="far"), "vis": "FULL"},
           {"box": dict(unit, pos=[0.0, -300.0, 0.0], range="far"), "vis": None},
           {"box": dict(unit, pos=[60.0, 80.0, 0.0], range="at100"), "vis": "FULL"},
           {"box": dict(unit, pos=[0.0, 0.0, 0.0], range="origin"), "vis": "FULL"}]
    fcloud = [[200.0, 0.0, 0.0], [203.5, 0.0, 0.0], [200.0, 1.75, 0.0], [204.5, 0.0, 0.0], [202.5, 0.0, 0.0],
              [1.5, -300.0, 0.0], [0.0, -300.0, 0.0], [0.0, -300.75, 0.0], [2.5, -300.0, 0.0], [4.5, -300.0, 0.0],
              [62.5, 80.0, 0.0], [63.5, 80.0, 0.0], [60.0, 81.25, 0.0], [2.5, 0.0, 0.0], [3.5, 0.0, 0.0], [0.0, 1.25, 0.0]]
    for s0, s100 in ((1.0, 1.5), (2.0, 1.5), (0.5, 0.75)):
        cs.append({"kind": "frame", "cols": 3, "cloud": fcloud, "objs": [dict(o) for o in far],
                   "cfg": {"s0": s0, "s100": s100, "min_points": 2, "uuids": None, "mode": "dist" if s0 < s100 else "shrink"},
                   "nd_clouds": [fcloud]})
    # derived objects: a ground truth evaluated in base_link, then expressed in the map frame (a quarter turn and a shift) and
    # cropped at the same scale; and an annotation moved in place between two frames
    car = {"pos": [10.0, 0.0, 1.0], "quat": ["1", "0", "0", "1/8"], "size": [2.0, 4.0, 2.0], "mode": "yaw"}
    ego = {"pos": [100.0, 50.0, 0.0], "quat": ["1", "0", "0", "1"]}
    dcfg = {"s0": 1.25, "s100": 1.25, "min_points": 1, "uuids": None, "mode": "const"}
    dcloud = [[10.0, 0.0, 1.0], [10.5, 0.375, 1.25], [30.0, 5.0, 1.0], [100.0, 60.0, 1.0], [99.625, 60.5, 1.25], [95.0, 80.0, 1.0]]
    cs.append({"kind": "derived", "how": "to_global", "s": 1.25, "warm_scales": [1.25], "scales": [1.25, 1.0], "warm": ["frame"],
               "warm_cloud": "same", "cfg": dcfg, "ego": ego, "cols": 4, "cloud": dcloud, "nd_clouds": [dcloud],
               "objs": [{"box": car, "uuid": "d0", "vis": "FULL", "box2": _ego_apply(ego, car, inverse=False)}]})
    car2 = {"pos": [5.0, 5.0, 0.5], "quat": ["1", "0", "0", "0"], "size": [2.0, 4.0, 2.0], "mode": "identity"}
    car2b = dict(car2, pos=[5.0, -5.0, 0.5], mode="moved")
    mcloud = [[5.0, 5.0, 0.5], [5.0, -5.0, 0.5], [5.5, -5.25, 0.0], [20.0, 0.0, 0.0]]
    for how in ("inplace", "assign", "new_state"):
        cs.append({"kind": "derived", "how": how, "s": 1.25, "warm_scales": [1.25], "scales": [1.25], "warm": ["frame"],
                   "warm_cloud": "same", "cfg": dcfg, "cols": 3, "cloud": mcloud, "nd_clouds": [mcloud],
                   "objs": [{"box": car2, "uuid": "d0", "vis": None, "box2": car2b, "moves": "pos"}]})
    return cs


def table_witness_cases():
    """concrete frame cases realising the valuations on which the code's decision table (harness/dt_c12.py) and the model's
    skeleton differ, and the rational points on which the code's scale expression differs from the model's formula; empty on an
    unchanged source. Never raises."""
    try:
        from .. import dt_c12

        unit = {"quat": ["1", "0", "0", "0"], "size": [2.0, 4.0, 2.0], "mode": "identity"}
        shape_of = {nm: (n, k) for nm, n, k in dt_c12.SHAPES}
        cs, seen = [], set()
        for name, asg, rc, rm in dt_c12.table_disagreements():
            n, k = shape_of[name]
            z = asg.get("cmp(0|thr)")
            thr = {"lt": 3, "eq": 0, "gt": -2, None: 3}[z]
            objs, rows, ok = [], [], True
            for i in range(n):
                cx = 10.0 + 20.0 * i
                empty = bool(asg.get(f"inside{i}.empty", False))
                o = asg.get(f"cmp(num{i}|thr)", "eq" if thr >= 1 else "gt")
                num = 0 if empty else {"lt": thr - 1, "eq": thr, "gt": max(thr, 0) + 2}[o]
                if not empty and num < 1:
                    ok = False  # jointly unrealisable (order atoms are treated as independent by the table)
                for j in range(num):
                    rows.append([cx + 0.25 * j - 0.5, 0.125 * j - 0.25, 0.0])
                objs.append({"box": dict(unit, pos=[cx, 0.0, 0.0]), "vis": "NONE" if asg.get(f"vis{i}.none", False) else "FULL"})
            if not ok:
                continue
            rows.append([500.0, 500.0, 0.0])
            nd = [[] if asg.get(f"nd{j}.empty", False) else [[600.0 + j, 600.0, 0.0]] for j in range(k)]
            c = {"kind": "frame", "cols": 3, "cloud": rows, "objs": objs,
                 "cfg": {"s0": 1.0, "s100": 1.0, "min_points": thr, "uuids": None, "mode": "const1"}, "nd_clouds": nd,
                 "table_witness": {"shape": name, "valuation": {a: (o if isinstance(o, str) else bool(o)) for a, o in asg.items()},
                                   "code_table": rc, "model": rm}}
            key = core.jsonable(c)["cloud"].__repr__() + repr(objs) + repr(nd) + repr(thr)
            if key not in seen:
                seen.add(key)
                cs.append(c)
        # arithmetic kernel: a point where the code's expression and the model's formula differ -> an object at that distance
        for which in ("scale", "crop_scale"):
            e = dt_c12.STATE.get(which)
            for d in (dt_c12.scale_differences(e) if e is not None else [])[:4]:
                dist, s0, s100 = float(Fraction(d["d"])), float(Fraction(d["s0"])), float(Fraction(d["s100"]))
                k_true = float(dt_c12.model_scale(Fraction(d["d"]), Fraction(d["s0"]), Fraction(d["s100"])))
                if dist < 0 or k_true <= 0.0625:
                    continue
                box = dict(unit, pos=[dist, 0.0, 0.0])
                rows = [[dist, 0.0, 0.0], [dist + 1.9375 * k_true, 0.0, 0.0], [dist + 2.0625 * k_true, 0.0, 0.0],
                        [dist, 0.9375 * k_true, 0.0], [dist, 1.0625 * k_true, 0.0], [dist + 1.0, 0.0, 0.0]]
                cs.append({"kind": "frame", "cols": 3, "cloud": rows, "objs": [{"box": box, "vis": "FULL"}],
                           "cfg": {"s0": s0, "s100": s100, "min_points": 4, "uuids": None, "mode": "dist"}, "nd_clouds": [rows],
                           "table_witness": {"kernel": which, "point": d}})
        return cs
    except Exception:  # noqa: BLE001 - the witness step must never break the check
        return []


def extra_evidence():
    from .. import dt_c12

    return {"tables": dt_c12.evidence()}


def _table_branches():
    """once per run: how the tables of the real code came out (`table:untranslatable` = the translator fell back)"""
    if _STATE.get("table_branches_done"):
        return []
    _STATE["table_branches_done"] = True
    try:
        from .. import dt_c12

        ev = dt_c12.evidence()
        b = [f"table:untranslatable:{k}" for k in ev["decision_tables_untranslatable"]]
        for k in ("scale_kernel", "crop_scale_kernel"):
            if ev[k] != "translated":
                b.append(f"table:untranslatable:{k}")
        if b:
            b.append("table:untranslatable")
        return b + [f"table:{k}:paths={v['paths']}" for k, v in ev["decision_tables"].items()]
    except Exception:  # noqa: BLE001
        return ["table:untranslatable"]


def generate(rng, tier):
    n = {"quick": (300, 300, 200, 130), "thorough": (2400, 2400, 1600, 1000)}[tier]
    cases = table_witness_cases()
    for i in range(n[0]):
        cases.append(_gen_raw(rng, malformed=(i % 12 == 11)))
    for i in range(n[1]):
        cases.append(_gen_boxcase(rng, malformed=(i % 25 == 24)))
    for i in range(n[2]):
        cases.append(_gen_frame(rng, malformed=(i % 20 == 19)))
    for i in range(n[3]):
        cases.append(_gen_manager(rng, malformed=(i % 10 == 9)))
    for i in range({"quick": 260, "thorough": 2000}[tier]):
        cases.append(_gen_derived(rng))
    return cases



# ----------------------------------------------------------------------------- derived objects (current state only)
#
# The library derives objects from objects: interpolation (deepcopy + a new ObjectState), convert_objects_to_global /
# convert_objects_to_base_link (deepcopy + assignment of state.position / state.orientation), and users move an
# annotation in place between frames. The property speaks about "the box": the box an object describes NOW. This stream
# uses an object first (crop inside/outside, count, corners, footprint, DynamicObjectWithSensingResult,
# SensingFrameResult) at pose 1, derives a moved object from it, and uses the derived object at the same and at other
# scales. Demanded: exactly the selection of a freshly built object holding the same state, and the exact-rational one.

_WARM_OPS = ("in", "out", "num", "exist", "corners", "footprint", "wsr", "frame")
_DERIVED_HOWS = ("new_state", "assign", "inplace", "interp", "to_global", "to_base_link")


def _mk_dobj(box, uuid, vis, frame="base_link"):
    M = _mods()
    q = M["Quaternion"](*[float(_F(v)) for v in box["quat"]])
    fid = M["FrameID"].MAP if frame == "map" else M["FrameID"].BASE_LINK
    return M["DynamicObject"](
        100, fid, tuple(float(v) for v in box["pos"]), q,
        M["Shape"](M["ShapeType"].BOUNDING_BOX, tuple(float(v) for v in box["size"])), (0.0, 0.0, 0.0), 0.9,
        M["Label"](M["AutowareLabel"].CAR, "car", []), pointcloud_num=10, uuid=uuid, visibility=_visibility(vis),
    )


def _read_state(o):
    fid = o.frame_id
    fid = fid.value if hasattr(fid, "value") else str(fid)
    return {"pos": [float(v) for v in o.state.position], "quat": [float(v) for v in o.state.orientation.elements],
            "size": [float(v) for v in o.state.size], "frame": fid}


def _simple_dyadic(v) -> bool:
    f = _F(v)
    return (f * 2**20).denominator == 1 and abs(f) < 2**20


def _state_box(st):
    """the box a (derived) object holds, from the state read back from it (floats are exact rationals)"""
    b = {"pos": list(st["pos"]), "quat": list(st["quat"]), "size": list(st["size"])}
    if not (_simple_dyadic(st["pos"][2]) and _simple_dyadic(st["size"][2])):
        b["zfuzzy"] = True
    return b


def _same_pose(a, b) -> bool:
    """position/size identical; orientation identical as a rotation (pyquaternion normalises a quaternion in place on first use)"""
    if a["pos"] != b["pos"] or a["size"] != b["size"] or a["frame"] != b["frame"]:
        return False
    na = math.sqrt(sum(v * v for v in a["quat"]))
    nb = math.sqrt(sum(v * v for v in b["quat"]))
    return all(abs(x / na - y / nb) < 1e-12 for x, y in zip(a["quat"], b["quat"]))


def _derive(case, objs):
    import copy

    M = _mods()
    how = case["how"]
    if how in ("new_state", "assign", "inplace"):
        from perception_eval.common.object import ObjectState

        res = []
        for o, spec in zip(objs, case["objs"]):
            b2 = spec["box2"]
            p2 = tuple(float(v) for v in b2["pos"])
            q2 = M["Quaternion"](*[float(_F(v)) for v in b2["quat"]])
            mv = spec["moves"]
            tgt = o if how == "inplace" else copy.deepcopy(o)
            if how == "new_state":  # what interpolate_dynamic_object does
                tgt.state = ObjectState(position=p2 if mv != "ori" else tgt.state.position,
                                        orientation=q2 if mv != "pos" else tgt.state.orientation,
                                        shape=o.state.shape, velocity=o.state.velocity)
            else:  # what convert_objects_to_* do (on a deepcopy) / a user moving the annotation (in place)
                if mv != "ori":
                    tgt.state.position = p2
                if mv != "pos":
                    tgt.state.orientation = q2
            res.append(tgt)
        return res
    if how == "interp":
        from perception_eval.common.geometry import interpolate_object_list

        others = [_mk_dobj(spec["boxb"], spec["uuid"], spec.get("vis")) for spec in case["objs"]]
        return interpolate_object_list(object_list1=objs, object_list2=others, t1=0, t2=8, t=case["t"])
    from perception_eval.common.dataset import convert_objects_to_base_link, convert_objects_to_global
    from perception_eval.common.transform import HomogeneousMatrix

    ego = HomogeneousMatrix(position=tuple(float(v) for v in case["ego"]["pos"]),
                            rotation=M["Quaternion"](*[float(_F(v)) for v in case["ego"]["quat"]]),
                            src=M["FrameID"].BASE_LINK, dst=M["FrameID"].MAP)
    if how == "to_global":
        return convert_objects_to_global(object_list=objs, ego2map=ego)
    if how == "to_base_link":
        return convert_objects_to_base_link(object_list=objs, ego2map=ego)
    raise ValueError(how)


def _derived_frame(objs, case, cloud, rows, cols):
    M = _mods()
    nds = [_mk_cloud(r, cols) for r in case["nd_clouds"]]
    res = M["SensingFrameResult"](_frame_cfg(case["cfg"]), 100, "0")
    res.evaluate_frame(list(objs), cloud, nds)
    out = _canon_frame(res, objs, rows, cols)
    out["nd_points"] = _points(out.pop("nd_raw"), cols)
    return out


def _run_derived(case):
    from perception_eval.evaluation.sensing.sensing_result import DynamicObjectWithSensingResult

    M = _mods()
    np = M["np"]
    cols, rows = case["cols"], case["cloud"]
    s = float(case["s"])
    minpts = case["cfg"]["min_points"]
    src_frame = "map" if case["how"] == "to_base_link" else "base_link"
    # No blanket `try`: the sequence is well-formed, so an exception out of the library escapes (the runner reports "the real
    # code raised ... unexpectedly"), and one of the harness (e.g. a changed signature of the C17/C18 helpers that `_derive`
    # only uses to PRODUCE the moved objects) is an infrastructure error, not a violation of C12.
    if True:
        cloud = _mk_cloud(rows, cols)
        keep = cloud.copy()
        wrows = rows if case["warm_cloud"] == "same" else rows[::2]
        wcloud = cloud if case["warm_cloud"] == "same" else _mk_cloud(wrows, cols)
        objs = [_mk_dobj(o["box"], o["uuid"], o.get("vis"), src_frame) for o in case["objs"]]
        ref1 = [_idx(_mk_dobj(o["box"], o["uuid"], o.get("vis"), src_frame).crop_pointcloud(cloud, s), rows, cols) for o in case["objs"]]
        # ---- use the objects at pose 1
        pre = [[] for _ in objs]
        for ws in case["warm_scales"]:
            ws = float(ws)
            for op in case["warm"]:
                if op == "frame":
                    if src_frame == "base_link" and ws == s:
                        _derived_frame(objs, dict(case, nd_clouds=[r if case["warm_cloud"] == "same" else r[::2] for r in case["nd_clouds"]]),
                                       wcloud, wrows, cols)
                    continue
                for i, o in enumerate(objs):
                    if op == "in":
                        pre[i].append({"scale": ws, "inside": _idx(o.crop_pointcloud(wcloud, ws, inside=True), wrows, cols)})
                    elif op == "out":
                        pre[i].append({"scale": ws, "outside": _idx(o.crop_pointcloud(wcloud, ws, inside=False), wrows, cols)})
                    elif op == "num":
                        pre[i].append({"scale": ws, "num": int(o.get_inside_pointcloud_num(wcloud, ws))})
                    elif op == "exist":
                        o.point_exist(wcloud, ws)
                    elif op == "corners":
                        o.get_corners(ws)
                    elif op == "footprint":
                        o.get_footprint(ws)
                    elif op == "wsr":
                        r = DynamicObjectWithSensingResult(o, wcloud, ws, minpts)
                        pre[i].append({"scale": ws, "inside": _idx(r.inside_pointcloud, wrows, cols)})
        # ---- derive moved objects the way the library does
        der = _derive(case, objs)
        state = [_read_state(o) for o in der]
        fresh = [_mk_dobj(_state_box(st), spec["uuid"], spec.get("vis"), st["frame"]) for st, spec in zip(state, case["objs"])]
        # ---- use the derived objects
        final = []
        for o, f in zip(der, fresh):
            per = []
            for sc in case["scales"]:
                sc = float(sc)
                per.append({
                    "inside": _idx(o.crop_pointcloud(cloud, sc, inside=True), rows, cols),
                    "outside": _idx(o.crop_pointcloud(cloud, sc, inside=False), rows, cols),
                    "num": int(o.get_inside_pointcloud_num(cloud, sc)),
                    "exist": bool(o.point_exist(cloud, sc)),
                    "again": _idx(o.crop_pointcloud(cloud, sc, inside=True), rows, cols),
                    "fresh_inside": _idx(f.crop_pointcloud(cloud, sc, inside=True), rows, cols),
                    "fresh_outside": _idx(f.crop_pointcloud(cloud, sc, inside=False), rows, cols),
                    "fresh_num": int(f.get_inside_pointcloud_num(cloud, sc)),
                })
            final.append(per)
        wsr = []
        for o, f in zip(der, fresh):
            r = DynamicObjectWithSensingResult(o, cloud, s, minpts)
            g = DynamicObjectWithSensingResult(f, cloud, s, minpts)
            wsr.append({"inside": _idx(r.inside_pointcloud, rows, cols), "num": int(r.inside_pointcloud_num),
                        "detected": bool(r.is_detected), "occluded": bool(r.is_occluded),
                        "fresh_inside": _idx(g.inside_pointcloud, rows, cols), "fresh_detected": bool(g.is_detected)})
        frame = fresh_frame = dists = None
        if all(st["frame"] == "base_link" for st in state):
            dists = [float(o.get_distance()) for o in der]
            frame = _derived_frame(der, case, cloud, rows, cols)
            fresh_frame = _derived_frame(fresh, case, cloud, rows, cols)
        orig = None
        if case["how"] != "inplace":  # the source objects still stand at pose 1
            orig = [_idx(o.crop_pointcloud(cloud, s, inside=True), rows, cols) for o in objs]
        state_after = [_read_state(o) for o in der]
        return {"ref1": ref1, "pre": pre, "state": state, "final": final, "wsr": wsr, "frame": frame, "fresh_frame": fresh_frame,
                "dists": dists, "orig": orig, "cloud_same": bool(np.array_equal(cloud, keep)),
                "state_same": all(_same_pose(a, b) for a, b in zip(state, state_after))}


def _oracle_derived(case, out):
    rows, cols = case["cloud"], case["cols"]
    n = len(rows)
    how = case["how"]
    s = case["s"]
    cfg = case["cfg"]
    wrows = rows if case["warm_cloud"] == "same" else rows[::2]
    if not out["cloud_same"]:
        return "the point cloud handed to crop_pointcloud / evaluate_frame was modified"
    if not out["state_same"]:
        return "cropping changed the pose held by the object"
    boxes2 = [_state_box(st) for st in out["state"]]
    for i, spec in enumerate(case["objs"]):
        who = f"object #{i} (derived by {how} from an object already used at scale {case['warm_scales']} with {case['warm']})"
        # ---- the uses before the move (pose 1)
        for p in out["pre"][i]:
            exp, judged = _expect_box(spec["box"], _F(p["scale"]), wrows, cols)
            for key in ("inside", "outside"):
                if key in p:
                    got = sorted(j for j in p[key] if j in set(judged))
                    want = exp if key == "inside" else [j for j in judged if j not in set(exp)]
                    if got != want:
                        return f"object #{i} at its first pose, scale {p['scale']}: {key} rows {got[:12]} but geometrically {key} are {want[:12]}"
            if "num" in p and not (len(exp) <= p["num"] <= len(exp) + len(wrows) - len(judged)):
                return f"object #{i} at its first pose, scale {p['scale']}: get_inside_pointcloud_num {p['num']} but {len(exp)} rows are inside"
        # ---- the uses after the move: the CURRENT state decides
        b2 = boxes2[i]
        cur = f"current pose {out['state'][i]['pos']} / {out['state'][i]['quat']}, first pose {spec['box']['pos']} / {spec['box']['quat']}"
        by_scale = []
        for sc, r in zip(case["scales"], out["final"][i]):
            d = _partition(n, r["inside"], r["outside"], f"{who} crop_pointcloud(scale={sc})")
            if d:
                return d
            for key in ("inside", "outside"):
                if sorted(r[key]) != sorted(r["fresh_" + key]):
                    diff = sorted(set(r[key]) ^ set(r["fresh_" + key]))
                    return (f"{who}: {key} rows at scale {sc} differ from those of a freshly built object with the same state at rows "
                            f"{diff[:8]} (points {[rows[j] for j in diff[:3]]}); {cur}")
            exp, judged = _expect_box(b2, _F(sc), rows, cols)
            got = sorted(j for j in r["inside"] if j in set(judged))
            if got != exp:
                diff = sorted(set(got) ^ set(exp))
                return (f"{who}: inside rows at scale {sc} differ from the exact footprint/z test of the CURRENT box at rows {diff[:8]} "
                        f"(points {[rows[j] for j in diff[:3]]}); {cur}")
            if r["num"] != len(r["inside"]) or r["exist"] != (r["num"] > 0) or r["fresh_num"] != r["num"]:
                return f"{who}: scale {sc}: get_inside_pointcloud_num {r['num']} / point_exist {r['exist']} vs {len(r['inside'])} inside rows"
            if sorted(r["again"]) != sorted(r["inside"]):
                return f"{who}: the same crop repeated gives {r['again'][:12]} after {r['inside'][:12]}"
            by_scale.append((_F(sc), r["inside"], set(judged)))
        by_scale.sort(key=lambda t: t[0])
        for (k1, in1, j1), (k2, in2, j2) in zip(by_scale, by_scale[1:]):
            lost = [j for j in in1 if j not in set(in2) and j in j1 and j in j2]  # rows ON a boundary at either scale: not judged
            if k1 > 0 and lost:
                return f"{who}: enlarging the scale {float(k1)} -> {float(k2)} removed inside rows {lost[:8]}"
        w = out["wsr"][i]
        exp, judged = _expect_box(b2, _F(s), rows, cols)
        got = sorted(j for j in w["inside"] if j in set(judged))
        if got != exp or sorted(w["inside"]) != sorted(w["fresh_inside"]):
            return (f"{who}: DynamicObjectWithSensingResult(scale {s}) holds inside rows {w['inside'][:12]}; geometrically inside the CURRENT "
                    f"box are {exp[:12]}, a fresh object gives {w['fresh_inside'][:12]}; {cur}")
        # occluded <=> annotated with the member Visibility.NONE; a raw string is outside the annotated type: not judged
        occ_ok = True if str(spec.get("vis")).startswith("str:") else w["occluded"] == (spec.get("vis") == "NONE")
        if w["num"] != len(w["inside"]) or w["detected"] != (w["num"] >= cfg["min_points"]) or not occ_ok:
            return f"{who}: sensing result num {w['num']} detected {w['detected']} occluded {w['occluded']} (threshold {cfg['min_points']}, visibility {spec.get('vis')})"
        if out["orig"] is not None:
            exp, judged = _expect_box(spec["box"], _F(s), rows, cols)
            got = sorted(j for j in out["orig"][i] if j in set(judged))
            if got != exp:
                return (f"object #{i}: after a copy of it was moved ({how}) and cropped, the ORIGINAL object (still at {spec['box']['pos']}) "
                        f"reports inside rows {got[:12]} but geometrically inside are {exp[:12]}")
    # ---- the frame evaluated on the derived objects
    fr = out["frame"]
    if fr is not None:
        objs2 = [{"box": b, "vis": spec.get("vis")} for b, spec in zip(boxes2, case["objs"])]
        sub = {"success": fr["success"], "fail": fr["fail"], "warning": fr["warning"], "dists": out["dists"]}
        d = _oracle_detection(case, cfg, objs2, sub, rows, cols)
        if d:
            return f"evaluate_frame on objects derived by {how}: " + d
        d = _oracle_nd_frame(objs2, cfg, out["dists"], case["nd_clouds"], fr["nd_points"], cols)
        if d:
            return f"evaluate_frame on objects derived by {how}: " + d
        ff = out["fresh_frame"]
        canon = lambda v: v if not (v and isinstance(v[0], dict)) else sorted((r["gt"], r["num"], sorted(r["inside"]), r["detected"], r["occluded"]) for r in v)
        for key in ("success", "fail", "warning", "nd_points"):
            if canon(fr[key]) != canon(ff[key]):
                return (f"evaluate_frame on objects derived by {how}: {key} = {str(fr[key])[:160]} but freshly built objects with the same "
                        f"states give {str(ff[key])[:160]}")
    return None


def _qmul(a, b):
    aw, ax, ay, az = a
    bw, bx, by, bz = b
    return (aw * bw - ax * bx - ay * by - az * bz, aw * bx + ax * bw + ay * bz - az * by,
            aw * by - ax * bz + ay * bw + az * bx, aw * bz + ax * by - ay * bx + az * bw)


def _ego_apply(ego, box, inverse):
    """nominal pose of a box after ego2map (or its inverse); ego rotation is a pure yaw (1, 0, 0, t): exact rationals"""
    t = _F(ego["quat"][3])
    w = _F(ego["quat"][0])
    nn = w * w + t * t
    c, sn = (w * w - t * t) / nn, 2 * w * t / nn
    ex, ey, ez = (_F(v) for v in ego["pos"])
    x, y, z = (_F(v) for v in box["pos"])
    q1 = tuple(_F(v) for v in box["quat"])
    if not inverse:
        pos = (c * x - sn * y + ex, sn * x + c * y + ey, z + ez)
        q = _qmul((w, 0, 0, t), q1)
    else:
        dx, dy = x - ex, y - ey
        pos = (c * dx + sn * dy, -sn * dx + c * dy, z - ez)
        q = _qmul((w, 0, 0, -t), q1)
    return {"pos": [float(v) for v in pos], "quat": [str(v) for v in q], "size": list(box["size"]), "mode": "moved"}


def _moved_box(rng, box, mv):
    b = {"pos": list(box["pos"]), "quat": list(box["quat"]), "size": list(box["size"]), "mode": "moved"}
    move = mv
    if mv in ("pos", "both"):
        x, y, z = box["pos"]
        kind = rng.choice(["shift", "shift", "shift", "far", "mirror"])
        if kind == "mirror" and (x, y) == (0.0, 0.0):
            kind = "shift"
        if kind == "shift":  # mostly overlapping the old box
            while True:
                dx, dy = _dy(rng, -3, 3), _dy(rng, -3, 3)
                if (dx, dy) != (0.0, 0.0):
                    break
            b["pos"] = [x + dx, y + dy, z + rng.choice([0.0, 0.0, 0.5, -0.5, 1.0])]
        elif kind == "far":
            b["pos"] = [_dy(rng, -40, 40), _dy(rng, -40, 40), _dy(rng, -2, 2)]
        else:
            b["pos"] = [-x, -y, z]
        move += ":" + kind
    if mv in ("ori", "both"):
        for _ in range(50):
            qn = _gen_quat(rng, rng.choice(["identity", "yaw", "yaw", "yaw_flip", "full"]))
            if _rot(qn) != _rot(box["quat"]):
                b["quat"] = qn
                break
    return b, move


def _gen_derived(rng, how=None):
    how = how or rng.choice(["new_state", "assign", "inplace", "inplace", "interp", "to_global", "to_global", "to_base_link"])
    pool = [0.75, 1.0, 1.0, 1.25, 1.5, 1.1, 1.2, 2.0]
    s = rng.choice(pool)
    others = sorted({x for x in pool if x != s})
    warm_scales = [s] + ([rng.choice(others)] if rng.random() < 0.3 else [])
    scales = [s] + rng.sample(others, rng.choice([0, 1, 1, 2]))
    rng.shuffle(scales)
    ops = [op for op in _WARM_OPS if not (op == "frame" and how == "to_base_link")]
    warm = rng.sample(ops, rng.choice([1, 1, 2, 3]))
    warm = [op for op in _WARM_OPS if op in warm]
    case = {"kind": "derived", "how": how, "s": s, "warm_scales": warm_scales, "scales": scales, "warm": warm,
            "warm_cloud": rng.choice(["same", "same", "sub"]),
            "cfg": {"s0": s, "s100": s, "min_points": rng.choice([0, 1, 1, 2, 3, 5]), "uuids": None, "mode": "const"}}
    if how in ("to_global", "to_base_link"):
        if rng.random() < 0.3:  # a small ego motion: old and new boxes overlap
            epos = [_dy(rng, -3, 3), _dy(rng, -3, 3), rng.choice([0.0, 0.5, -0.25])]
            t = Fraction(rng.randint(-3, 3), 16)
        else:
            epos = [_dy(rng, -100, 100), _dy(rng, -100, 100), _dy(rng, -2, 2)]
            t = Fraction(rng.randint(-24, 24), rng.choice([5, 7, 8, 12]))
        if epos[0] == 0.0 and epos[1] == 0.0 and t == 0:
            epos[0] = 2.5
        case["ego"] = {"pos": epos, "quat": ["1", "0", "0", str(t)]}
    if how == "interp":
        case["t"] = rng.randint(1, 8)
    nobj = rng.choice([1, 1, 2, 3])
    all_scales = sorted(set(warm_scales + scales))
    objs, rows = [], []
    dropped = 0
    for i in range(nobj):
        near = objs[-1]["box"]["pos"] if objs and rng.random() < 0.5 else None
        b1 = _gen_box(rng, near=near)
        if how == "to_base_link" and near is None:  # map coordinates around the ego position
            b1["pos"] = [case["ego"]["pos"][0] + _dy(rng, -40, 40), case["ego"]["pos"][1] + _dy(rng, -40, 40), b1["pos"][2]]
        spec = {"box": b1, "uuid": f"d{i}", "vis": rng.choice(_VIS)}
        if how in ("new_state", "assign", "inplace"):
            mv = rng.choice(["pos", "pos", "ori", "both"])
            spec["box2"], spec["moves"] = _moved_box(rng, b1, mv)[0], mv
        elif how == "interp":
            bb, _ = _moved_box(rng, b1, rng.choice(["pos", "both", "both", "ori"]))
            spec["boxb"] = bb
            Q = _mods()["Quaternion"]
            a = case["t"] / 8
            qi = Q.slerp(Q(*[float(_F(v)) for v in b1["quat"]]), Q(*[float(_F(v)) for v in bb["quat"]]), a)
            spec["box2"] = {"pos": [p + (r - p) * case["t"] / 8 for p, r in zip(b1["pos"], bb["pos"])],
                            "quat": [float(v) for v in qi.elements], "size": list(b1["size"]), "mode": "moved"}
        else:
            spec["box2"] = _ego_apply(case["ego"], b1, inverse=(how == "to_base_link"))
        objs.append(spec)
        for b in (spec["box"], spec["box2"]):
            r, _, rej = _box_points(rng, b, all_scales, rng.choice([3, 6, 10, 16]), boundary_ok=False)
            dropped += rej
            rows.extend(r)
    for _ in range(rng.choice([0, 4, 10])):
        c = rng.choice(objs)[rng.choice(["box", "box2"])]["pos"]
        rows.append([c[0] + _dy(rng, -8, 8, 16), c[1] + _dy(rng, -8, 8, 16), _dy(rng, -3, 3, 16)])
    good = []
    for r in rows:
        if all(_clear_of_edges(b, k, r[0], r[1], 10 * MARGIN) and not _on_z_bound(b, k, r)
               for o in objs for b in (o["box"], o["box2"]) for k in all_scales):
            good.append(r)
    dropped += len(rows) - len(good)
    rng.shuffle(good)
    cols = rng.choice([2, 3, 3, 4, 4, 5])
    good = _dedupe(good, cols)
    nd = []
    for _ in range(rng.choice([0, 1, 1, 2])):
        pr = rng.choice([0.3, 0.6, 1.0])
        nd.append([list(r) for r in good if rng.random() < pr])
    case.update({"cols": cols, "cloud": good, "objs": objs, "nd_clouds": nd, "dropped": dropped})
    return case


# ----------------------------------------------------------------------------- bookkeeping

def branches(case, out):
    k = case["kind"]
    b = [f"kind:{k}", f"cols:{case['cols']}", f"npts:{min(len(case['cloud']) // 20 * 20, 100)}+"] + _table_branches()
    if out.get("unexpected"):
        return b + ["err:unexpected:" + str(out.get("err"))]
    if _malformed(case):
        return b + ["trivial", f"skipped:malformed-input:{k}"]  # outside the quantifier: neither judged nor compared
    if case.get("dropped"):
        b.append("unjudged:generator-dropped-boundary-rows")  # rows the generator left out because they graze a box / area edge
        b.append(f"unjudged:generator-dropped-boundary-rows:n={min(case['dropped'], 5)}{'+' if case['dropped'] > 5 else ''}")
    if case.get("table_witness"):
        b.append("table:witness")
    if k == "raw":
        b.append(f"raw:{case.get('shape')}:{case.get('variant')}")
        if isinstance(out["inside"], dict):
            b.append("raw:err:" + str(out["inside"].get("err")))
            return b
        ni, no = len(out["inside"]), len(out["outside"])
        b.append("raw:" + ("mixed" if ni and no else "all-in" if ni else "all-out" if no else "empty"))
        if not (ni and no):
            b.append("trivial")
        # orientation (sign of the shoelace area) -> whether the counter wrapped
        n = len(case["area"]) // 2
        P = case["area"][:n]
        a2 = sum(P[i][0] * P[(i + 1) % n][1] - P[(i + 1) % n][0] * P[i][1] for i in range(n))
        b.append("raw:ccw" if a2 > 0 else "raw:cw(uint8 wrap)")
        return b
    if k == "derived":
        b.append(f"derived:how:{case['how']}")
        b.append(f"derived:nobj:{len(case['objs'])}")
        b.append(f"derived:warm-cloud:{case['warm_cloud']}")
        for op in case["warm"]:
            b.append(f"derived:warm:{op}")
        for o in case["objs"]:
            if o.get("moves"):
                b.append(f"derived:moves:{o['moves']}")
        if "err" in out:
            b.append("derived:err:" + str(out["err"]))
            return b
        if len(case["warm_scales"]) > 1:
            b.append("derived:warmed-at-two-scales")
        if any(sc != case["s"] and sc not in case["warm_scales"] for sc in case["scales"]):
            b.append("derived:final-at-unused-scale")
        if any(sc != case["s"] and sc in case["warm_scales"] for sc in case["scales"]):
            b.append("derived:final-at-second-used-scale")
        si = case["scales"].index(case["s"])
        changed = [i for i in range(len(case["objs"])) if out["final"][i][si]["inside"] != out["ref1"][i]]
        if changed:
            b.append("derived:selection-changed-by-move")
            if any(out["final"][i][si]["inside"] and out["ref1"][i] for i in changed):
                b.append("derived:nonempty-before-and-after")
        else:
            b.append("trivial")
        if any(_state_box(st).get("zfuzzy") for st in out["state"]):
            b.append("derived:height-with-float-noise")
        if out["frame"] is not None:
            b.append("derived:frame-on-derived")
            for key in ("success", "fail", "warning"):
                if out["frame"][key]:
                    b.append(f"derived:frame:{key}")
            b.append(f"derived:frame:nd-points-reported:{min(len(out['frame']['nd_points']), 3)}")
        if out["orig"] is not None:
            b.append("derived:original-rechecked")
        return b
    if k == "box":
        b.append(f"box:{case['box']['mode']}")
        b.append(f"box:scales:{len(case['scales'])}")
        if case.get("boundary"):
            b.append("box:boundary-points")
        r0 = out["results"][0]
        if isinstance(r0["inside"], dict):
            b.append("box:err:" + str(r0["inside"].get("err")))
            return b
        sizes = [len(r["inside"]) for r in out["results"]]
        if len(set(sizes)) > 1:
            b.append("box:scale-changes-count")
        if not any(0 < s < len(case["cloud"]) for s in sizes):
            b.append("trivial")
        return b
    cfg = case["cfg"] if k == "frame" else (case.get("fcfg") or case["mcfg"])
    b.append(f"{k}:scale:{cfg['mode']}")
    b.append(f"{k}:nobj:{len(case['objs'])}")
    b.append(f"{k}:minpts:{cfg['min_points']}")
    if k == "manager":
        b.append("manager:fcfg:" + ("own" if case.get("fcfg") else "default"))
        b.append("manager:uuids:" + ("none" if cfg.get("uuids") is None else str(len(cfg["uuids"]))))
        b.append(f"manager:areas:{len(case['areas'])}")
    if "err" in out:
        b.append(f"{k}:err:{out['err']}")
        return b
    for key in ("success", "fail", "warning"):
        if out[key]:
            b.append(f"{k}:{key}")
    for r in out["warning"]:
        if r["num"] >= cfg["min_points"]:
            b.append(f"{k}:warning-with-enough-points")
            break
    # range classes and scale regimes; does a judged point tell the true scale from a plausible wrong one?
    rows, cols = case["cloud"], case["cols"]
    for o, d in zip(case["objs"], out.get("dists", [])):
        rc = "0m" if d == 0 else "<1m" if d < 1 else "<100m" if d < 100 else "=100m" if d == 100 else "100-300m" if d < 300 else ">=300m"
        b.append(f"{k}:range:{rc}")
        kt = _scale(cfg, _F(d))
        if cfg["s0"] != cfg["s100"]:
            b.append(f"{k}:scale-at-object:" + ("<0.25" if kt < Fr(1, 4) else "<1" if kt < 1 else "1-2" if kt <= 2 else ">2")
                     + (":beyond-100m" if d > 100 else ""))
            if cols >= 2:
                for name, kw in (("clamped", _scale(cfg, _F(min(d, 100.0)))), ("unscaled", Fr(1)), ("scale0", _F(cfg["s0"]))):
                    if kw == kt or kw <= 0:
                        continue
                    near = [r for r in rows if abs(r[0] - o["box"]["pos"][0]) + abs(r[1] - o["box"]["pos"][1]) < 8 * float(max(kt, kw, 1))]
                    if any((lambda a, c: a is not None and c is not None and a != c)(
                            _box_inside(o["box"], kt, r, cols), _box_inside(o["box"], kw, r, cols)) for r in near):
                        b.append(f"{k}:point-between-true-and-{name}-footprint" + (":beyond-100m" if d > 100 else ""))
    nd = out["nd_points"] if k == "frame" else out["nd_rows"]
    b.append(f"{k}:nd-reported:{min(len(nd), 3)}")
    if k == "frame":
        b.append(f"frame:nd-given:{min(len(case['nd_clouds']), 3)}")
        if any(c for c in case["nd_clouds"]) and not nd:
            b.append("frame:nd-clouds-vanished")
    if any(str(o.get("vis")).startswith("str:") for o in case["objs"]):
        b.append(f"{k}:unjudged:raw-string-visibility")
    if not (out["success"] or out["fail"] or out["warning"] or nd):
        b.append("trivial")
    return b


def _shrink_derived(case):
    if len(case["objs"]) > 1:
        for i in range(len(case["objs"])):
            yield dict(case, objs=case["objs"][:i] + case["objs"][i + 1:])
    if case["nd_clouds"]:
        yield dict(case, nd_clouds=[])
    if len(case["warm"]) > 1:
        for i in range(len(case["warm"])):
            yield dict(case, warm=case["warm"][:i] + case["warm"][i + 1:])
    if len(case["warm_scales"]) > 1:
        yield dict(case, warm_scales=[case["s"]])
    if len(case["scales"]) > 1:
        yield dict(case, scales=[case["s"]])
        for sc in case["scales"]:
            if sc != case["s"]:
                yield dict(case, scales=[x for x in case["scales"] if x != sc])
    if case["warm_cloud"] != "same":
        yield dict(case, warm_cloud="same")
    rows = case["cloud"]
    n = len(rows)
    for step in (n // 2, n // 4, 1):
        if step < 1:
            continue
        for st in range(0, n, step):
            drop = [tuple(r) for r in rows[st:st + step]]
            yield dict(case, cloud=rows[:st] + rows[st + step:],
                       nd_clouds=[[r for r in c if tuple(r) not in drop] for c in case["nd_clouds"]])


def shrink(case):
    k = case["kind"]
    if k == "derived":
        yield from _shrink_derived(case)
        return
    rows = case["cloud"]
    n = len(rows)
    if k in ("raw", "box"):
        for step in (n // 2, n // 4, 1):
            if step < 1:
                continue
            for s in range(0, n, step):
                c = dict(case)
                c["cloud"] = rows[:s] + rows[s + step:]
                if k == "box":
                    drop = set(range(s, s + step))
                    c["boundary"] = [i - (step if i >= s + step else 0) for i in case.get("boundary", []) if i not in drop]
                yield c
        if k == "box" and len(case["scales"]) > 1:
            for i in range(len(case["scales"])):
                c = dict(case)
                c["scales"] = case["scales"][:i] + case["scales"][i + 1:]
                yield c
        return
    for i in range(len(case["objs"])):
        c = dict(case)
        c["objs"] = case["objs"][:i] + case["objs"][i + 1:]
        yield c
    key = "nd_clouds" if k == "frame" else "areas"
    for i in range(len(case[key])):
        c = dict(case)
        c[key] = case[key][:i] + case[key][i + 1:]
        yield c
    for step in (n // 2, n // 4, 1):
        if step < 1:
            continue
        for s in range(0, n, step):
            c = dict(case)
            c["cloud"] = rows[:s] + rows[s + step:]
            yield c


def search(rng, st, disagreements):
    """witnesses of a broken table theorem first, then more of every stream when a proof or the correspondence broke"""
    cases = table_witness_cases()
    for i in range(400):
        cases.append(_gen_raw(rng))
        cases.append(_gen_boxcase(rng))
    for i in range(150):
        cases.append(_gen_frame(rng))
        cases.append(_gen_manager(rng))
    for i in range(300):
        cases.append(_gen_derived(rng))
    return cases
