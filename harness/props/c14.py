"""C14 — label names convert totally, case-insensitively and consistently with merging.

Tie to the code: translator (the pair tables are what the table builders of the current tree return,
the enums are the live enums) + exhaustive correspondence over the tables x case variants through
LabelConverter.convert_label / convert_name / set_target_lists / PerceptionEvaluationConfig.target_labels.
Oracle: the property text, with the *documented* mapping taken from an independent source: the
table of docs/en/perception/label.md for the Autoware family (frozen below) and the structural rule
"registered name == label value up to underscores, crosswalk_X -> X" for traffic-light classification.
"""
from __future__ import annotations

import string
import tempfile

PROP = "C14"
EXHAUSTIVE = True
RULE = (
    "every registered name of every table x {as is, upper, title, swapcase, + trailing space, last char dropped}, "
    "every enum value, seeded random ASCII strings, for both families, merge on/off, every task (as member and as string); "
    "target lists through set_target_lists and PerceptionEvaluationConfig; distinct = distinct (table, string); all non-trivial"
)
THEOREMS = [
    "PEval.C14." + t
    for t in [
        "names_lowercase", "names_nodup", "autoware_labels_are_members", "trafficLight_labels_are_members",
        "merged_table_rel", "classification_table", "convert_total_autoware", "convert_total_trafficLight",
        "convert_case_insensitive", "registered_any_case", "registered_upper", "canonical_roundtrip_autoware",
        "canonical_roundtrip_trafficLight", "unregistered_unknown", "merge_consistent", "targets_same_mapping",
        "setTargetLists_eq_map", "label_tables_nonempty",
        # audit round 2: constructor dispatch, witnesses in the traffic-light tables, None / [] target lists
        "tableFor_mem_tables", "tableFor_error_iff", "trafficLight_table_of_every_task", "trafficLight_tables_witness",
        "setTargetLists_empty_all",
        # the DOCUMENTED mapping: tables parsed from docs/en/perception/label.md by the translator on every run
        "doc_names_lowercase", "documented_rows_autoware", "documented_rows_trafficLight", "documented_tasks_tables",
        "documented_names_convert_autoware", "documented_names_convert_trafficLight", "doc_exceptions_exact",
        "registered_names_documented", "undocumented_lists_exact", "doc_merge_consistent", "doc_labels_are_members",
        "doc_tables_nonempty",
    ]
]
TRUSTED = [
    "translator harness/gen_tables.py (builds LabelConverter(task, merge, prefix) of the working tree and reads label_infos; the private table functions only as a fallback)",
    "Python str.lower() modelled by Lean String.toLower (ASCII only; generated strings are ASCII)",
    "the 'documented label' of the oracle: docs/en/perception/label.md (Autoware family, frozen copy) and a structural rule for traffic lights",
]
ASSUMPTIONS = [
    "names are ASCII (non-ASCII case folding is out of scope)",
    "the documented mapping of the Lean theorems is docs/en/perception/label.md of the working tree (PEval.Gen.doc*, re-parsed on every "
    "run); for the traffic-light family they are stated modulo the rows `red_left_straight` / `red_right_straight` on which document "
    "and code disagree in the unchanged tree (PEval.C14.docExceptions*, theorem doc_exceptions_exact: finding candidate C14-D1)",
    "AutowareLabel.ANIMAL and TrafficLightLabel.TRAFFIC_LIGHT under classification are produced by no name: the canonical-name law is vacuous for them (DESIGN B4)",
]

# docs/en/perception/label.md, table `AutowareLabel` (without merging)
DOC_AUTOWARE = {
    "CAR": ["car", "vehicle.car", "vehicle.construction", "vehicle.emergency (ambulance & police)", "vehicle.police",
            "vehicle.fire", "vehicle.ambulance"],
    "TRUCK": ["truck", "vehicle.truck", "trailer", "vehicle.trailer"],
    "BUS": ["bus", "vehicle.bus", "vehicle.bus (bendy & rigid)"],
    "BICYCLE": ["bicycle", "vehicle.bicycle"],
    "MOTORBIKE": ["motorbike", "motorcycle", "vehicle.motorcycle"],
    "PEDESTRIAN": ["pedestrian", "stroller", "pedestrian.adult", "pedestrian.child", "pedestrian.construction_worker",
                   "pedestrian.personal_mobility", "pedestrian.police_officer", "pedestrian.stroller",
                   "pedestrian.wheelchair"],
    "UNKNOWN": ["unknown", "animal", "movable_object.barrier", "movable_object.debris",
                "movable_object.pushable_pullable", "movable_object.trafficcone", "movable_object.traffic_cone",
                "static_object.bicycle rack", "static_object.bollard", "static_object.forklift"],
}
DOC_NAME2LABEL = {n: l for l, ns in DOC_AUTOWARE.items() for n in ns}
MERGE = {"TRUCK": "CAR", "BUS": "CAR", "MOTORBIKE": "BICYCLE"}


def _doc_marker():
    """`doc:untranslatable` note when the translator could not parse the documentation tables (then the documented-mapping
    theorems hold vacuously and only the frozen copy above is used, by the oracle)"""
    try:
        from pathlib import Path

        txt = (Path(__file__).resolve().parents[2] / "lean" / "PEval" / "Gen" / "DocLabels.lean").read_text()
        if "def docLabelsParsed : Bool := true" in txt:
            return None
        note = [l for l in txt.splitlines() if l.startswith("def docLabelsNote")]
        return "doc:untranslatable " + (note[0].split(":=", 1)[1].strip() if note else "")
    except OSError as e:
        return f"doc:untranslatable (no generated table: {e})"


def _note_doc_marker():
    """called from corpus(), i.e. after the translator has run: record the marker in the evidence (ASSUMPTIONS)"""
    m = _doc_marker()
    if m:
        line = m + " -- the documented-mapping theorems of C14 are vacuous in this run"
        if line not in ASSUMPTIONS:
            ASSUMPTIONS.append(line)


def _mods():
    import perception_eval.common.label as lb
    from perception_eval.common.evaluation_task import EvaluationTask

    return lb, EvaluationTask


def _converter(case):
    lb, ET = _mods()
    task = ET[case["task"]]
    return lb.LabelConverter(task.value if case.get("task_as_str") else task, case["merge"], case["prefix"])


def _variants(n: str):
    return [n, n.upper(), n.title(), n.swapcase(), n + " ", n[:-1], n.replace("_", "-")]


def _settings(tier, rng):
    lb, ET = _mods()
    out = []
    for merge in (False, True):
        out.append(("autoware", merge, "DETECTION", False))
    out.append(("autoware", True, "TRACKING", True))
    for t in ET.__members__:
        out.append(("traffic_light", False, t, False))
    out.append(("traffic_light", False, "CLASSIFICATION2D", True))
    out.append(("traffic_light", True, "DETECTION2D", True))
    return out


def corpus():
    _note_doc_marker()
    cs = []
    # F6 (fixed): yellow_straight_right / yellow_straight_left_right under classification
    for s in ("yellow_straight_right", "yellow_straight_left_right", "YELLOW_STRAIGHT_RIGHT"):
        cs.append({"kind": "convert", "prefix": "traffic_light", "merge": False, "task": "CLASSIFICATION2D", "s": s})
    cs.append({"kind": "ctor", "prefix": "blinker", "merge": False, "task": "DETECTION"})
    cs.append({"kind": "ctor", "prefix": "bogus", "merge": False, "task": "DETECTION"})
    cs.append({"kind": "targets", "prefix": "autoware", "merge": False, "task": "DETECTION", "targets": None})
    cs.append({"kind": "targets", "prefix": "autoware", "merge": True, "task": "DETECTION", "targets": []})
    return cs


def generate(rng, tier):
    lb, ET = _mods()
    cases = []
    alphabet = string.ascii_letters + string.digits + "_ .-()&"
    for prefix, merge, task, as_str in _settings(tier, rng):
        base = {"prefix": prefix, "merge": merge, "task": task, "task_as_str": as_str}
        conv = lb.LabelConverter(ET[task], merge, prefix)
        names = [li.name for li in conv.label_infos]
        enum_vals = [m.value for m in conv.label_type]
        strings = []
        for n in names + enum_vals + list(DOC_NAME2LABEL):
            strings.extend(_variants(n))
        for _ in range(60 if tier == "quick" else 600):
            strings.append("".join(rng.choice(alphabet) for _ in range(rng.randint(0, 14))))
        seen = set()
        for s in strings:
            if s in seen:
                continue
            seen.add(s)
            cases.append(dict(base, kind="convert", s=s))
        # target lists
        for _ in range(6 if tier == "quick" else 40):
            k = rng.randint(1, 6)
            tl = [rng.choice(rng.choice([names, enum_vals, ["nonsense", "Car", "BUS"]])) for _ in range(k)]
            tl = [rng.choice([x, x.upper(), x.title()]) for x in tl]
            cases.append(dict(base, kind="targets", targets=tl))
        cases.append(dict(base, kind="targets", targets=None))
    # through the evaluation config
    for _ in range(10 if tier == "quick" else 80):
        merge = rng.random() < 0.5
        task = rng.choice(["detection", "tracking", "fp_validation"])
        conv = lb.LabelConverter(ET.from_value(task), merge, "autoware")
        names = [li.name for li in conv.label_infos]
        tl = [rng.choice(names) for _ in range(rng.randint(1, 5))]
        tl = [rng.choice([x, x.upper()]) for x in tl]
        cases.append({"kind": "config_targets", "prefix": "autoware", "merge": merge, "task": ET.from_value(task).name,
                      "targets": tl})
    return cases


def run_impl(case):
    lb, ET = _mods()
    k = case["kind"]
    try:
        if k == "ctor":
            _converter(case)
            return {"ok": True}
        if k == "convert":
            c = _converter(case)
            s = case["s"]
            lab = c.convert_label(s)
            out = {"label": lab.label.name, "name_label": c.convert_name(s).name,
                   "family": type(lab.label).__name__, "kept_name": lab.name == s}
            # the property's own cross-checks, evaluated on the real code
            out["variants"] = {v: c.convert_label(v).label.name for v in (s.lower(), s.upper(), s.swapcase())}
            if case["prefix"] == "autoware":
                other = lb.LabelConverter(ET[case["task"]], not case["merge"], "autoware")
                out["other_merge"] = other.convert_label(s).label.name
            return out
        if k == "targets":
            c = _converter(case)
            res = lb.set_target_lists(case["targets"], c)
            out = {"labels": [l.name for l in res]}
            if case["targets"]:
                out["by_convert_label"] = [c.convert_label(n).label.name for n in case["targets"]]
            return out
        if k == "config_targets":
            from perception_eval.config import PerceptionEvaluationConfig

            d = {
                "evaluation_task": ET[case["task"]].value, "target_labels": case["targets"],
                "max_x_position": 100.0, "max_y_position": 100.0, "min_point_numbers": 0,
                "label_prefix": "autoware", "merge_similar_labels": case["merge"],
                "center_distance_thresholds": [1.0], "plane_distance_thresholds": [2.0],
                "iou_2d_thresholds": [0.5], "iou_3d_thresholds": [0.5],
            }
            cfg = PerceptionEvaluationConfig(dataset_paths=["x"], frame_id="base_link",
                                             result_root_directory=tempfile.mkdtemp(prefix="c14_"),
                                             evaluation_config_dict=d)
            out = {"labels": [l.name for l in cfg.target_labels],
                   "by_convert_label": [cfg.label_converter.convert_label(n).label.name for n in case["targets"]],
                   "n_lists": {kk: len(v) for kk, v in cfg.filtering_params.items()
                               if isinstance(v, list) and kk.endswith("_list")}}
            import shutil

            shutil.rmtree(cfg.result_root_directory, ignore_errors=True)
            return out
    except Exception as e:
        return {"err": type(e).__name__}
    raise ValueError(k)


def model_requests(case, out):
    base = {"prefix": case["prefix"], "merge": case["merge"], "task": case["task"]}
    k = case["kind"]
    if k == "convert":
        return [dict(base, op="convert", s=case["s"])]
    if k == "ctor":
        return [dict(base, op="convert", s="x")]
    return [dict(base, op="targets", targets=case["targets"])]


def compare(case, out, resps):
    r = resps[0]
    k = case["kind"]
    if "err" in out or "err" in r:
        return None if out.get("err") == r.get("err") else f"impl {out} != model {r}"
    if k == "ctor":
        return None
    if k == "convert":
        a = (out["label"], out["name_label"])
        b = (r["label"], r["name_label"])
        return None if a == b else f"impl {a} != model {b}"
    return None if out["labels"] == r["labels"] else f"impl {out['labels']} != model {r['labels']}"


def _tl_documented(name: str, classification: bool):
    """structural rule for the traffic-light family: the label a registered name should give"""
    lb, _ = _mods()
    vals = {m.value.replace("_", ""): m.name for m in lb.TrafficLightLabel}
    n = name
    if n.startswith("crosswalk_"):
        n = n[len("crosswalk_"):]
    key = n.replace("_", "")
    if key not in vals:
        return None
    lab = vals[key]
    if classification or lab in ("UNKNOWN", "FP"):
        return lab
    return "TRAFFIC_LIGHT"


def oracle(case, out):
    lb, ET = _mods()
    k = case["kind"]
    if k == "ctor":
        want = "NotImplementedError" if case["prefix"] in ("blinker", "brake_lamp") else "ValueError"
        return None if out.get("err") == want else f"LabelConverter(prefix={case['prefix']!r}) -> {out}, expected {want}"
    if "err" in out:
        return f"conversion failed with {out['err']} on {case}"
    task = ET[case["task"]]
    if k == "convert":
        s = case["s"]
        lab = out["label"]
        # totality + family
        want_family = "AutowareLabel" if case["prefix"] == "autoware" else "TrafficLightLabel"
        if out["family"] != want_family:
            return f"result {lab} is not a {want_family}"
        # letter case ignored
        for v, l in out["variants"].items():
            if l != lab:
                return f"case variant {v!r} -> {l} but {s!r} -> {lab}"
        if out["name_label"] != lab:
            return f"convert_name({s!r}) = {out['name_label']} differs from convert_label = {lab}"
        # live table (what is registered now)
        table = lb._get_autoware_pairs(case["merge"]) if case["prefix"] == "autoware" else lb._get_traffic_light_paris(task)
        registered = {n for _, n in table}
        low = s.lower()
        if low not in registered:
            if lab != "UNKNOWN":
                return f"unregistered name {s!r} -> {lab}, expected UNKNOWN"
        # documented label of registered names
        if case["prefix"] == "autoware":
            doc = DOC_NAME2LABEL.get(low)
            if doc is not None:
                want = MERGE.get(doc, doc) if case["merge"] else doc
                if low in registered or doc != "UNKNOWN":
                    if lab != want:
                        return f"{s!r} is documented as {want} (merge={case['merge']}) but converts to {lab}"
            # merging = merged image of no merging
            a, b = (lab, out["other_merge"]) if case["merge"] else (out["other_merge"], lab)
            if a != MERGE.get(b, b):
                return f"{s!r}: merged result {a} is not the merged image of the unmerged result {b}"
        else:
            if low in registered:
                want = _tl_documented(low, task == ET.CLASSIFICATION2D)
                if want is not None and lab != want:
                    return f"traffic-light name {s!r} should give {want} for task {task.value}, got {lab}"
        # canonical name of every producible label
        produced = {l.name for l, _ in table}
        byval = {m.value: m.name for m in (lb.AutowareLabel if case["prefix"] == "autoware" else lb.TrafficLightLabel)}
        if low in byval and byval[low] in produced and s == low:
            if lab != byval[low]:
                return f"canonical name {s!r} of producible label {byval[low]} converts to {lab}"
        return None
    # target lists resolved with the same mapping as object labels
    if case["targets"]:
        if out["labels"] != out["by_convert_label"]:
            return f"target list {case['targets']} resolved to {out['labels']} but objects would get {out['by_convert_label']}"
        if k == "config_targets":
            bad = {kk: n for kk, n in out["n_lists"].items() if n != len(case["targets"])}
            if bad:
                return f"per-label lists {bad} do not line up with {len(case['targets'])} target labels"
    else:
        fam = lb.AutowareLabel if case["prefix"] == "autoware" else lb.TrafficLightLabel
        if out["labels"] != [m.name for m in fam]:
            return f"empty target list should give all labels, got {out['labels']}"
    return None


def branches(case, out):
    k = case["kind"]
    if "err" in out:
        return [f"{k}:err:{out['err']}"]
    if k == "convert":
        return [f"convert:{case['prefix']}:{'merge' if case['merge'] else 'plain'}:{'unknown' if out['label'] == 'UNKNOWN' else 'hit'}"]
    return [f"{k}:{case['prefix']}:{'none' if not case.get('targets') else 'list'}"]


def search(rng, st, disagreements):
    return generate(rng, "thorough")
