"""C14 — label names convert totally, case-insensitively and consistently with merging.

Tie to the code: translator (the pair tables are what the table builders of the current tree return,
the enums are the live enums) + exhaustive correspondence over the tables x case variants through
LabelConverter.convert_label / convert_name / set_target_lists / PerceptionEvaluationConfig.target_labels.
Oracle: the property text, with the *documented* mapping taken from an independent source: the
table of docs/en/perception/label.md for the Autoware family (frozen below) and the structural rule
"registered name == label value up to underscores, crosswalk_X -> X" for traffic-light classification.
"""
from __future__ import annotations

import string
import tempfile

PROP = "C14"
EXHAUSTIVE = True
RULE = (
    "every registered name of every table x {as is, upper, title, swapcase, + trailing space, last char dropped}, "
    "every enum value, seeded random ASCII strings, for both families, merge on/off, every task (as member and as string); "
    "target lists through set_target_lists and PerceptionEvaluationConfig; distinct = distinct (table, string); all non-trivial"
)
THEOREMS = [
    "PEval.C14." + t
    for t in [
        "names_lowercase", "names_nodup", "autoware_labels_are_members", "trafficLight_labels_are_members",
        "merged_table_rel", "classification_table", "convert_total_autoware", "convert_total_trafficLight",
        "convert_case_insensitive", "registered_any_case", "registered_upper", "canonical_roundtrip_autoware",
        "canonical_roundtrip_trafficLight", "unregistered_unknown", "merge_consistent", "targets_same_mapping",
        "setTargetLists_eq_map", "label_tables_nonempty",
        # audit round 2: constructor dispatch, witnesses in the traffic-light tables, None / [] target lists
        "tableFor_mem_tables", "tableFor_error_iff", "trafficLight_table_of_every_task", "trafficLight_tables_witness",
        "setTargetLists_empty_all",
        # the DOCUMENTED mapping: tables parsed from docs/en/perception/label.md by the translator on every run
        "doc_names_lowercase", "documented_rows_autoware", "documented_rows_trafficLight", "documented_tasks_tables",
        "documented_names_convert_autoware", "documented_names_convert_trafficLight", "doc_exceptions_exact",
        "registered_names_documented", "undocumented_lists_exact", "doc_merge_consistent", "doc_labels_are_members",
        "doc_tables_nonempty",
    ]
]
TRUSTED = [
    "translator harness/gen_tables.py (builds LabelConverter(task, merge, prefix) of the working tree and reads label_infos; the private table functions only as a fallback)",
    "Python str.lower() modelled by Lean String.toLower (ASCII only; generated strings are ASCII)",
    "the 'documented label' of the oracle: docs/en/perception/label.md (Autoware family, frozen copy) and a structural rule for traffic lights",
]
ASSUMPTIONS = [
    "names are ASCII (non-ASCII case folding is out of scope)",
    "the documented mapping of the Lean theorems is docs/en/perception/label.md of the working tree (PEval.Gen.doc*, re-parsed on every "
    "run); for the traffic-light family they are stated modulo the rows `red_left_straight` / `red_right_straight` on which document "
    "and code disagree in the unchanged tree (PEval.C14.docExceptions*: finding candidate C14-D1). Theorem doc_exceptions_exact "
    "pins those rows to `name unregistered -> UNKNOWN` OR `the documented label`, so repairing the discrepancy on either side keeps "
    "it true; which of the two holds in this run is recorded in the branch histogram (`doc:C14-D1:*`)",
    "no claim (oracle) / counted skip (correspondence) outside the quantifier: label prefixes other than autoware / traffic_light "
    "(whether and how the constructor refuses them) and None / empty target lists (what a list without names stands for)",
    "the registration table is read through the public LabelConverter.label_infos; when that attribute is absent the clauses "
    "`unregistered -> UNKNOWN` and `canonical name` are not evaluated for the case (branch `unobservable:label_infos`)",
    "AutowareLabel.ANIMAL and TrafficLightLabel.TRAFFIC_LIGHT under classification are produced by no name: the canonical-name law is vacuous for them (DESIGN B4)",
]

# docs/en/perception/label.md, table `AutowareLabel` (without merging)
DOC_AUTOWARE = {
    "CAR": ["car", "vehicle.car", "vehicle.construction", "vehicle.emergency (ambulance & police)", "vehicle.police",
            "vehicle.fire", "vehicle.ambulance"],
    "TRUCK": ["truck", "vehicle.truck", "trailer", "vehicle.trailer"],
    "BUS": ["bus", "vehicle.bus", "vehicle.bus (bendy & rigid)"],
    "BICYCLE": ["bicycle", "vehicle.bicycle"],
    "MOTORBIKE": ["motorbike", "motorcycle", "vehicle.motorcycle"],
    "PEDESTRIAN": ["pedestrian", "stroller", "pedestrian.adult", "pedestrian.child", "pedestrian.construction_worker",
                   "pedestrian.personal_mobility", "pedestrian.police_officer", "pedestrian.stroller",
                   "pedestrian.wheelchair"],
    "UNKNOWN": ["unknown", "animal", "movable_object.barrier", "movable_object.debris",
                "movable_object.pushable_pullable", "movable_object.trafficcone", "movable_object.traffic_cone",
                "static_object.bicycle rack", "static_object.bollard", "static_object.forklift"],
}
DOC_NAME2LABEL = {n: l for l, ns in DOC_AUTOWARE.items() for n in ns}
MERGE = {"TRUCK": "CAR", "BUS": "CAR", "MOTORBIKE": "BICYCLE"}


def _doc_marker():
    """`doc:untranslatable` note when the translator could not parse the documentation tables (then the documented-mapping
    theorems hold vacuously and only the frozen copy above is used, by the oracle)"""
    try:
        from pathlib import Path

        txt = (Path(__file__).resolve().parents[2] / "lean" / "PEval" / "Gen" / "DocLabels.lean").read_text()
        if "def docLabelsParsed : Bool := true" in txt:
            return None
        note = [l for l in txt.splitlines() if l.startswith("def docLabelsNote")]
        return "doc:untranslatable " + (note[0].split(":=", 1)[1].strip() if note else "")
    except OSError as e:
        return f"doc:untranslatable (no generated table: {e})"


def _note_doc_marker():
    """called from corpus(), i.e. after the translator has run: record the marker in the evidence (ASSUMPTIONS)"""
    m = _doc_marker()
    if m:
        line = m + " -- the documented-mapping theorems of C14 are vacuous in this run"
        if line not in ASSUMPTIONS:
            ASSUMPTIONS.append(line)


def _mods():
    import perception_eval.common.label as lb
    from perception_eval.common.evaluation_task import EvaluationTask

    return lb, EvaluationTask


def _converter(case):
    lb, ET = _mods()
    task = ET[case["task"]]
    return lb.LabelConverter(task.value if case.get("task_as_str") else task, case["merge"], case["prefix"])


def _variants(n: str):
    return [n, n.upper(), n.title(), n.swapcase(), n + " ", n[:-1], n.replace("_", "-")]


def _settings(tier, rng):
    lb, ET = _mods()
    out = []
    for merge in (False, True):
        out.append(("autoware", merge, "DETECTION", False))
    out.append(("autoware", True, "TRACKING", True))
    for t in ET.__members__:
        out.append(("traffic_light", False, t, False))
    out.append(("traffic_light", False, "CLASSIFICATION2D", True))
    out.append(("traffic_light", True, "DETECTION2D", True))
    return out


def corpus():
    _note_doc_marker()
    cs = []
    # F6 (fixed): yellow_straight_right / yellow_straight_left_right under classification
    for s in ("yellow_straight_right", "yellow_straight_left_right", "YELLOW_STRAIGHT_RIGHT"):
        cs.append({"kind": "convert", "prefix": "traffic_light", "merge": False, "task": "CLASSIFICATION2D", "s": s})
    cs.append({"kind": "ctor", "prefix": "blinker", "merge": False, "task": "DETECTION"})
    cs.append({"kind": "ctor", "prefix": "bogus", "merge": False, "task": "DETECTION"})
    cs.append({"kind": "targets", "prefix": "autoware", "merge": False, "task": "DETECTION", "targets": None})
    cs.append({"kind": "targets", "prefix": "autoware", "merge": True, "task": "DETECTION", "targets": []})
    return cs


def generate(rng, tier):
    lb, ET = _mods()
    cases = []
    alphabet = string.ascii_letters + string.digits + "_ .-()&"
    for prefix, merge, task, as_str in _settings(tier, rng):
        base = {"prefix": prefix, "merge": merge, "task": task, "task_as_str": as_str}
        conv = lb.LabelConverter(ET[task], merge, prefix)
        names = [li.name for li in conv.label_infos]
        enum_vals = [m.value for m in conv.label_type]
        strings = []
        for n in names + enum_vals + list(DOC_NAME2LABEL) + list(D1_NAMES):
            strings.extend(_variants(n))
        for _ in range(60 if tier == "quick" else 600):
            strings.append("".join(rng.choice(alphabet) for _ in range(rng.randint(0, 14))))
        seen = set()
        for s in strings:
            if s in seen:
                continue
            seen.add(s)
            cases.append(dict(base, kind="convert", s=s))
        # target lists
        for _ in range(6 if tier == "quick" else 40):
            k = rng.randint(1, 6)
            tl = [rng.choice(rng.choice([names, enum_vals, ["nonsense", "Car", "BUS"]])) for _ in range(k)]
            tl = [rng.choice([x, x.upper(), x.title()]) for x in tl]
            cases.append(dict(base, kind="targets", targets=tl))
        cases.append(dict(base, kind="targets", targets=None))
    # through the evaluation config
    for _ in range(10 if tier == "quick" else 80):
        merge = rng.random() < 0.5
        task = rng.choice(["detection", "tracking", "fp_validation"])
        conv = lb.LabelConverter(ET.from_value(task), merge, "autoware")
        names = [li.name for li in conv.label_infos]
        tl = [rng.choice(names) for _ in range(rng.randint(1, 5))]
        tl = [rng.choice([x, x.upper()]) for x in tl]
        cases.append({"kind": "config_targets", "prefix": "autoware", "merge": merge, "task": ET.from_value(task).name,
                      "targets": tl})
    return cases


class HarnessSetupError(RuntimeError):
    """raised by harness code (never from inside the library): run_check files it as an infrastructure error"""


def _table_of(conv):
    """the registration table of a converter through its PUBLIC attribute `label_infos` (same source as `generate` and the
    translator harness/gen_tables.py); None when the attribute is not there (then the clauses that need the table are
    dropped for the case and counted as `unobservable:label_infos`)"""
    infos = getattr(conv, "label_infos", None)
    if infos is None:
        return None
    try:
        return [[li.label.name, li.name] for li in infos]
    except AttributeError:
        return None


_CFG_BASE = {
    "max_x_position": 100.0, "max_y_position": 100.0, "min_point_numbers": 0,
    "center_distance_thresholds": [1.0], "plane_distance_thresholds": [2.0],
    "iou_2d_thresholds": [0.5], "iou_3d_thresholds": [0.5],
}


def _build_config(ET, case, targets):
    from perception_eval.config import PerceptionEvaluationConfig

    d = dict(_CFG_BASE, evaluation_task=ET[case["task"]].value, target_labels=list(targets),
             label_prefix="autoware", merge_similar_labels=case["merge"])
    return PerceptionEvaluationConfig(dataset_paths=["x"], frame_id="base_link",
                                      result_root_directory=tempfile.mkdtemp(prefix="c14_"),
                                      evaluation_config_dict=d)


def run_impl(case):
    """`out["err"]` is produced only by the calls the property is about (LabelConverter of a supported family / convert_label /
    convert_name / set_target_lists / the evaluation config resolving the case's target names); everything else propagates
    (run_check: harness error = infrastructure, unexpected library error = reported by run_check itself)"""
    lb, ET = _mods()
    k = case["kind"]
    if k == "ctor":
        try:
            _converter(case)
        except Exception as e:
            return {"err": type(e).__name__}
        return {"ok": True}
    if k == "convert":
        s = case["s"]
        try:
            c = _converter(case)
            lab = c.convert_label(s)
            out = {"label": lab.label.name, "name_label": c.convert_name(s).name,
                   "family": type(lab.label).__name__, "kept_name": lab.name == s}
            # the property's own cross-checks, evaluated on the real code
            out["variants"] = {v: c.convert_label(v).label.name for v in (s.lower(), s.upper(), s.swapcase())}
            if case["prefix"] == "autoware":
                other = lb.LabelConverter(ET[case["task"]], not case["merge"], "autoware")
                out["other_merge"] = other.convert_label(s).label.name
        except Exception as e:
            return {"err": type(e).__name__}
        out["table"] = _table_of(c)
        out["members"] = {m.value: m.name for m in (lb.AutowareLabel if case["prefix"] == "autoware" else lb.TrafficLightLabel)}
        return out
    if k == "targets":
        try:
            c = _converter(case)
            res = lb.set_target_lists(case["targets"], c)
            out = {"labels": [l.name for l in res]}
            if case["targets"]:
                out["by_convert_label"] = [c.convert_label(n).label.name for n in case["targets"]]
        except Exception as e:
            return {"err": type(e).__name__}
        return out
    if k == "config_targets":
        import shutil

        # set-up probe: the same configuration with one plain canonical name. If THIS cannot be built the harness's
        # reference dictionary no longer fits the configuration API: a harness problem, not a statement about name conversion
        try:
            ref = _build_config(ET, case, ["car"])
        except Exception as e:
            raise HarnessSetupError(f"PerceptionEvaluationConfig cannot be built with the harness's reference dictionary: {e!r}")
        shutil.rmtree(ref.result_root_directory, ignore_errors=True)
        try:
            cfg = _build_config(ET, case, case["targets"])
            out = {"labels": [l.name for l in cfg.target_labels],
                   "by_convert_label": [cfg.label_converter.convert_label(n).label.name for n in case["targets"]]}
        except Exception as e:
            return {"err": type(e).__name__}
        fp = getattr(cfg, "filtering_params", None)
        out["n_lists"] = ({kk: len(v) for kk, v in fp.items() if isinstance(v, list) and kk.endswith("_list")}
                          if isinstance(fp, dict) else None)
        shutil.rmtree(cfg.result_root_directory, ignore_errors=True)
        return out
    raise ValueError(k)


def model_requests(case, out):
    base = {"prefix": case["prefix"], "merge": case["merge"], "task": case["task"]}
    k = case["kind"]
    if k == "convert":
        return [dict(base, op="convert", s=case["s"])]
    if k == "ctor":
        return [dict(base, op="convert", s="x")]
    return [dict(base, op="targets", targets=case["targets"])]


def compare(case, out, resps):
    r = resps[0]
    k = case["kind"]
    if k == "ctor":
        # an unsupported prefix is outside the quantifier ("both label families"): whether and with which exception class the
        # constructor refuses it is not the property's business -- agreement is recorded, a difference is a counted skip
        same = ("err" in out) == ("err" in r) and out.get("err") == r.get("err")
        return None if same else "skip"
    if not case.get("targets") and k in ("targets", "config_targets"):
        # None / [] target list: the text ("target-label lists are resolved with the same mapping") says nothing about a list
        # without names; the model follows today's code (all members), a difference is a counted skip
        same = ("err" not in out) and ("err" not in r) and out.get("labels") == r.get("labels")
        return None if same else "skip"
    if "err" in out or "err" in r:
        # "converting a label name never fails": raised vs returned (the model never fails inside the quantifier)
        if ("err" in out) == ("err" in r):
            return None
        return f"impl {out} != model {r}"
    if k == "convert":
        a = (out["label"], out["name_label"])
        b = (r["label"], r["name_label"])
        return None if a == b else f"impl {a} != model {b}"
    return None if out["labels"] == r["labels"] else f"impl {out['labels']} != model {r['labels']}"


DOC_D1 = {"red_left_straight": "RED_LEFT_STRAIGHT", "red_right_straight": "RED_RIGHT_STRAIGHT"}


def _tl_documented(name: str, classification: bool):
    """structural rule for the traffic-light family: the label a registered name should give"""
    lb, _ = _mods()
    vals = {m.value.replace("_", ""): m.name for m in lb.TrafficLightLabel}
    n = name
    if n.startswith("crosswalk_"):
        n = n[len("crosswalk_"):]
    key = n.replace("_", "")
    if key not in vals:
        if name in DOC_D1:  # docs/en/perception/label.md rows of finding candidate C14-D1 (frozen copy): once the code registers
            # these names they must give the documented label (unregistered -> UNKNOWN is judged by the caller)
            return DOC_D1[name] if classification else "TRAFFIC_LIGHT"
        return None
    lab = vals[key]
    if classification or lab in ("UNKNOWN", "FP"):
        return lab
    return "TRAFFIC_LIGHT"


def oracle(case, out):
    lb, ET = _mods()
    k = case["kind"]
    if out.get("unexpected"):  # run_check reports these itself; kept total for older runners
        return f"the real code raised {out.get('err')} unexpectedly on {case}"
    if k == "ctor":
        # NO CLAIM.  Quantifier: "both label families" -- a prefix that is neither `autoware` nor `traffic_light` is outside it;
        # whether the constructor refuses it, and with which exception class, is not stated (a new family may be implemented)
        return None
    if not case.get("targets") and k in ("targets", "config_targets"):
        # NO CLAIM.  "Target-label lists are resolved with the same mapping": a None / empty list holds no name to resolve;
        # what it stands for (today: every member of the family) is not stated by the property
        return None
    if "err" in out:
        # "Converting a label name never fails"
        return f"conversion failed with {out['err']} on {case}"
    task = ET[case["task"]]
    if k == "convert":
        s = case["s"]
        lab = out["label"]
        # totality + family
        want_family = "AutowareLabel" if case["prefix"] == "autoware" else "TrafficLightLabel"
        if out["family"] != want_family:
            return f"result {lab} is not a {want_family}"
        # letter case ignored
        for v, l in out["variants"].items():
            if l != lab:
                return f"case variant {v!r} -> {l} but {s!r} -> {lab}"
        # "object-label and target-list entry points ... resolved with the same mapping"
        if out["name_label"] != lab:
            return f"convert_name({s!r}) = {out['name_label']} differs from convert_label = {lab}"
        # live table (what is registered now), through the public `label_infos`; None = not observable in this tree
        table = out.get("table")
        registered = None if table is None else {n for _, n in table}
        low = s.lower()
        if registered is not None and low not in registered:
            # "unregistered names map to unknown"
            if lab != "UNKNOWN":
                return f"unregistered name {s!r} -> {lab}, expected UNKNOWN"
        # documented label of registered names
        if case["prefix"] == "autoware":
            doc = DOC_NAME2LABEL.get(low)
            if doc is not None:
                want = MERGE.get(doc, doc) if case["merge"] else doc
                if (registered is not None and low in registered) or doc != "UNKNOWN":
                    if lab != want:
                        return f"{s!r} is documented as {want} (merge={case['merge']}) but converts to {lab}"
            # merging = merged image of no merging
            a, b = (lab, out["other_merge"]) if case["merge"] else (out["other_merge"], lab)
            if a != MERGE.get(b, b):
                return f"{s!r}: merged result {a} is not the merged image of the unmerged result {b}"
        else:
            if registered is not None and low in registered:
                want = _tl_documented(low, task == ET.CLASSIFICATION2D)
                if want is not None and lab != want:
                    return f"traffic-light name {s!r} should give {want} for task {task.value}, got {lab}"
        # canonical name of every producible label
        if table is not None:
            produced = {l for l, _ in table}
            byval = out["members"]
            if low in byval and byval[low] in produced and s == low:
                if lab != byval[low]:
                    return f"canonical name {s!r} of producible label {byval[low]} converts to {lab}"
        return None
    # target lists resolved with the same mapping as object labels
    if out["labels"] != out["by_convert_label"]:
        return f"target list {case['targets']} resolved to {out['labels']} but objects would get {out['by_convert_label']}"
    if k == "config_targets" and out.get("n_lists") is not None:
        # "so the per-label thresholds of a configuration line up with the labels objects receive"
        bad = {kk: n for kk, n in out["n_lists"].items() if n != len(case["targets"])}
        if bad:
            return f"per-label lists {bad} do not line up with {len(case['targets'])} target labels"
    return None


D1_NAMES = ("red_left_straight", "red_right_straight")  # finding candidate C14-D1 (documentation vs code)


def branches(case, out):
    k = case["kind"]
    if out.get("unexpected"):
        return [f"{k}:unexpected:{out.get('err')}"]
    if "err" in out:
        return [f"{k}:err:{out['err']}"]
    if k == "ctor":
        return ["ctor:accepted"]
    if k == "convert":
        br = [f"convert:{case['prefix']}:{'merge' if case['merge'] else 'plain'}:{'unknown' if out['label'] == 'UNKNOWN' else 'hit'}"]
        if out.get("table") is None:
            br.append("unobservable:label_infos")
        elif case["prefix"] == "traffic_light" and case["s"] in D1_NAMES:
            reg = case["s"] in {n for _, n in out["table"]}
            br.append("doc:C14-D1:" + ("registered->" + out["label"] if reg else "unregistered->" + out["label"]))
        return br
    br = [f"{k}:{case['prefix']}:{'none' if not case.get('targets') else 'list'}"]
    if k == "config_targets" and out.get("n_lists") is None:
        br.append("unobservable:filtering_params")
    return br


def search(rng, st, disagreements):
    return generate(rng, "thorough")
