"""C16 — loading a T4/nuScenes-format dataset reproduces its annotations as ground-truth frames.

Tie to the code: a GENERATOR of well-formed dataset directories (all 13 JSON tables the devkit reads,
written to a temp dir and removed after the case) loaded by the REAL `load_all_datasets` for
detection / tracking / sensing x {base_link, map} x merge on/off; the canonicalised frames are compared
with the Lean model `PEval.Dataset.loadDataset` run on the same tables (exact rationals).  The oracle is
the property text evaluated on the loaded frames against the generator's own tables with an
independent numpy reference (no use of the model): counts, order of the frames, timestamps, per-object fields (objects
matched by instance id, no order), pose identities (also through the real transform objects stored with the frame), and
for tracking tasks the history as a gap-free run of the instance's preceding annotations, nearest first.

What the model ALSO describes but the property does not state is compared softly - a case on which only such things
differ is a counted "skip", never a violation: the 2-D tasks (`PEval.Dataset.loadDataset2D`) and fp_validation (outside
the quantifier), the averaged traffic-light camera transform (fixed finding C16-N1 is "loading must not raise", which the
oracle judges), how far back a history reaches (devkit: < 3.15 s, at most 6 states), visibility strings that are no
levels, the loader's named rejections of ill-formed datasets, the contract families, velocity decisions at the 1.5 s /
3 s bounds.  Velocities (not in the text) are compared model-vs-code within max(1e-9, 4 ulp(t) / smallest sample gap).
Exception classes are never compared (raised vs returned only); frame names are not compared.

A case is a plain JSON value: the tables in an abstract spelling (rationals as "p/q" strings, rotations as
four rationals a/n, b/n, c/n, d/n with a^2+b^2+c^2+d^2 = n^2) plus the list of configurations to load.
`write_dataset` is a pure function of the case, so a replay reproduces the directory exactly.
"""
from __future__ import annotations

import copy
import json
import os
import shutil
import tempfile
from fractions import Fraction

from .. import core

PROP = "C16"
EXHAUSTIVE = False
THEOREMS = [
    "PEval.C16." + t
    for t in [
        "label_table_members", "label_total", "label_registered", "label_unregistered",
        "frames_length_order_time", "frames_of_samples",
        "objects_per_annotation", "category_via_instance", "attributes_via_tokens", "visibility_via_level",
        "visibility_absent",
        "map_pose_eq_annotation", "ego2map_eq_ego_pose", "ego_pose_eq_moved", "ego_pose_roundtrip",
        "lidar_top_preferred", "lidar_concat_fallback", "no_lidar_rejected", "no_samples_rejected",
        "other_frame_rejected",
        "tracking_history", "tracking_history_same_instance", "tracking_history_bounds",
        "tracking_history_preceding", "no_history_unless_tracking",
        "tracking_history_exact", "prev_chain_exists_sorted", "tracking_history_exact_frame",
        "objects_velocity", "velocity_none_single", "velocity_formula", "velocity_exact_time", "velocity_total",
        "fp_validation_all_fp", "fp_validation_rejects", "sensor_channels_are_frame_ids",
        "traffic_light_rotations_never_cancel", "traffic_light_average",
        "load_total",
        "label2d_total", "frames2d_length_order_time", "cameras_selected", "ego2map_2d",
        "objects2d_per_annotation", "roi_truncates_toward_zero", "traffic_light_uuid",
        "merged_traffic_lights", "load2d_total",
        # audit round 2: velocities with Python's outcome for a zero time difference made explicit (velocityPy)
        "velocity_py_refines", "velocity_formula_py", "velocity_formula_guarded", "velocity_div0_outcome",
        "velocity_no_div0", "objects_velocity_py", "exTables_timeOrdered",
        # any lidar calibration; non-unit quaternions (normalising variants, Lean only); the stored transform as the C18 object
        "ego_pose_any_calibration", "nonunit_variants_agree_on_unit", "pose_roundtrip_any_nonzero", "ego2map_is_c18_transform",
    ]
]
RULE = (
    "seeded random well-formed dataset directories: 1..8 samples (strictly increasing timestamps, steps from 50 ms to "
    "4 s incl. exactly 3.15 s; 40% of the datasets on a 1/64 s grid where float seconds are exact, incl. gaps of exactly "
    "1.5 s and 3 s for the velocity bounds), 0..6 instances each present in a random subset of the samples (appearing, disappearing, "
    "re-appearing), annotation table shuffled, categories inside the label table (incl. upper/mixed case, merge-sensitive "
    "ones) and outside it, 0..2 attributes, all visibility levels/aliases/unknown levels with token != level and the "
    "empty visibility table, 1..7 sensors incl. LIDAR_TOP and/or LIDAR_CONCAT (chosen lidar calibrated at the ego "
    "origin, the others anywhere); a quarter of the datasets carry a traffic-light camera rig of 2..3 calibrated "
    "cameras (CAM_TRAFFIC_LIGHT_NEAR / _FAR / CAM_TRAFFIC_LIGHT) whose rotations relate to the first camera's q as: "
    "-q exactly (fixed finding C16-N1), nearly antipodal (-q*d, d a rotation by 0.1..76 degrees), near (q*d), "
    "orthogonal as 4-vectors (dot exactly 0), equal, or unrelated, and three-camera chains q, q*a, q*b where b is beyond "
    "the first camera's half-space but inside the second's; extra non-key-frame sample_data, rational unit quaternions (squares of integer "
    "quaternions, yaw-only and full 3-D, both signs; the picked lidar's ego pose is fully 3-D in half of the samples), "
    "dyadic translations/sizes; NUMERIC TYPE VARIANT: in about half of the datasets the integer-valued numbers of translation / size / "
    "rotation vectors are written as JSON integers (all, or every other one), and ego / annotation / calibration translations and "
    "sizes are moved to integral values per vector with random rates (so that ego poses with an all-integer translation and a "
    "non-trivial rotation, boxes of integer size, identity rotations [1,0,0,0] occur); 0..8 2-D annotations (object_ann) on camera key frames, sweeps and lidar records, bbox "
    "ints/floats/negative/inverted, instances with regulatory-element names sharing ids; each dataset is loaded for the "
    "12 configurations task x frame x merge, 2 fp_validation configurations and 4 random 2-D configurations (task x "
    "label family x merge x list of frame ids incl. absent cameras, non-camera ids and the empty list); CONTRACT "
    "families (one deviation from the well-formed shape each, correspondence only): several key-frame records per "
    "channel, a duplicated token in a lookup table, two annotations of one instance in one sample, the picked lidar "
    "off the ego origin, a sensor channel outside FrameID, a dangling 2-D instance token, all-false_positive categories; "
    "a case is trivial when the dataset has no annotation; distinct = distinct tables"
)
TRUSTED = [
    "nuscenes-devkit 1.2.0 / nuimages is an EXTERNAL CONTRACT: each fact below is assumed by the model, checked "
    "against the real devkit on every run by the named case family, not verified",
    "devkit fact GET: nusc.get(table, token) / nuim.get = the LAST record of the table carrying the token (index built "
    "by assignment in table order), KeyError if none [families: shuffled tables on every case; contract:dup-token "
    "duplicates a token of category/attribute/visibility/instance/sensor/calibrated_sensor/ego_pose with another payload]",
    "devkit fact ANNS: sample['anns'] (hence get_boxes and the object order of a frame) = the sample's annotations in "
    "sample_annotation TABLE order [family: annotation table shuffled on 70% of the cases, objects compared in order; "
    "branch contract:anns-order = a sample whose table order differs from the instance order]",
    "devkit fact DATA: sample['data'][channel] = the LAST key-frame sample_data of the sample whose calibrated sensor's "
    "sensor has the channel; non-key-frame records never appear [families: sweeps before/after the key frame on every "
    "case; contract:multi-keyframe = two or three key-frame records of the picked lidar with different ego poses]",
    "devkit fact CATEGORY: annotation['category_name'] = name of the category of the annotation's instance "
    "[every case; instance table shuffled]",
    "devkit fact BOXES: get_boxes (key frame) = annotated translation/size/rotation; get_sample_data = those moved by "
    "the inverse ego pose of the record, then by the inverse pose of its calibrated sensor, no filtering for lidar "
    "[every base_link config; contract:lidar-offset puts the picked lidar off the ego origin]",
    "devkit fact START: PredictHelper.get_sample_annotation(instance, sample) = the LAST annotation of that sample and "
    "instance [contract:dup-instance = two annotations of one instance in one sample, tracking configs]",
    "devkit fact ITERATE: PredictHelper._iterate(prev, 3.0 s) keeps records whose |dt| < 3.15 s, goes on while the "
    "last |dt| <= 3.15 s and fewer than 6 are held [corpus long tracks with 0.4 s / 1 s / 1.05 s steps; steps of "
    "exactly 3 150 000 and 3 150 001 us; branches history:capped / window-cut / window-exact]",
    "devkit fact VELOCITY: NuScenes.box_velocity = (next.translation - prev.translation) / (t_next - t_prev) in float "
    "seconds (the annotation itself where a side is missing), nan when both are missing or dt > 1.5 s (3 s centred) "
    "[every tracking config; grid datasets with gaps of exactly 1.5 s and 3 s; branches tvel:*]",
    "devkit fact NUIM: NuImages reads the same sample/category/attribute JSON tables and object_ann.json lazily; "
    "nuim.object_ann is in file order [every 2-D config; object_ann shuffled]",
    "the float `1e-6 * timestamp` (sample time in seconds) is computed by the harness with the same IEEE product and "
    "handed to the model exactly",
    "pyquaternion (Quaternion(list), inverse, rotation_matrix, product, negation, sum, division by the norm) and np.dot of "
    "the components modelled by rational quaternion algebra; orientations compared as rotation matrices within 1e-9 (the "
    "model keeps the averaged traffic-light rotation as the unnormalised sum: the same rotation matrix)",
    "translator harness/gen_tables.py (label pair tables, Visibility members and aliases)",
    "the dataset writer write_dataset (abstract tables -> the devkit's JSON files) and the boilerplate tables log/map/scene/surface_ann",
    "python set iteration order (merged traffic lights) is unspecified: merged objects are compared as a set keyed by uuid",
]
def _window_check():
    """audit C16-9: the model compares integer microseconds (`el < 3150000`), the devkit float seconds
    (`abs(t1 - t2) / 1e6 < 3.0 + 0.15`); checked on this interpreter for every difference within 1 ms of the boundary"""
    t0 = 1_600_000_000_000_000
    b = 3.0 + 0.15
    return b == 3.15 and all(((abs((t0 + d) - t0) / 1e6) < b) == (d < 3_150_000) for d in range(3_149_000, 3_151_001))


ASSUMPTIONS = [
    f"history window: float test `abs(dt)/1e6 < 3.0 + 0.15` == integer test `dt < 3150000 us` for every dt within 1 ms of the boundary "
    f"(computed on this interpreter: {_window_check()})",
    "velocities, zero time difference (audit C16-2): two samples with the same timestamp make _get_box_velocity / box_velocity divide by "
    "0.0 (inf / -inf / nan components, no exception); the schema excludes it (prev / next go back / forward in time: Lean `TimeOrdered`), "
    "`WellFormed` does not; the outcome is modelled explicitly (`velocityPy`, `Vel.div0`) and compared per annotation on the corpus cases "
    "flagged `vel_direct`; the frame-level comparison of such a case accepts the load model's 0 against Python's inf / nan",
    "well-formed datasets only: tokens unique per table, every referenced token resolves, annotation prev/next link the "
    "annotations of one instance in sample order, sample table in time order; two deliberately ill-formed shapes are "
    "included because the loader names them: no sample at all (today DatasetLoadingError; the oracle accepts any exception or "
    "zero frames) and no LIDAR_TOP/LIDAR_CONCAT key frame (today ValueError; outside the domain, no claim); the exception "
    "class is nowhere demanded",
    "the lidar that the loader picks is calibrated at the ego origin (identity calibrated_sensor), as the property "
    "states for T4 data; other sensors are arbitrary",
    "numbers of the written tables: integer-valued components of translation / size / rotation vectors are written as JSON "
    "integers in about half of the datasets (all of them, or every other one), and vectors are moved to integral values to "
    "make that frequent; one exception: an annotation translation is written with integers only when every ego translation "
    "of the dataset is integral (an all-integer box centre makes the devkit's in-place Box.translate by a float ego "
    "translation raise a numpy casting error - devkit behaviour, outside the property)",
    "tracked history: annotated GLOBAL poses of the preceding annotations of the instance (also when the objects themselves are "
    "requested in base_link), nearest first and without a gap; HOW FAR BACK it reaches (devkit: < 3 s + 0.15 s, at most 6 states) "
    "is not in the text: the oracle accepts every prefix, and demands the nearest state only when the instance is annotated in the "
    "immediately preceding sample at most 1 s earlier; a history on non-tracking tasks is not judged",
    "velocities (current: _get_box_velocity, tracked: box_velocity) are not part of the property text: they are "
    "compared model-vs-code within max(1e-9, 4 ulp(t) / smallest sample gap) - every float spelling of the time difference "
    "passes - but not judged by the oracle; where two samples are exactly 1.5 s / 3 s apart the `too far apart` decision "
    "depends on that spelling (counted skip); prev/next neighbours lie in other samples (dt != 0); the private "
    "_get_box_velocity is resolved by name and dropped from the run when absent (histogram unobservable:_get_box_velocity)",
    "fp_validation and the 2-D tasks are outside the property's quantifier (detection/tracking/sensing): not judged by the "
    "oracle; compared model-vs-code, a disagreement there is a counted skip",
    "visibility: the documented levels (full / most / partial / none / not available and the aliases v0-40 .. v80-100) are "
    "judged; other strings ('v10-20', '', 'FULL', 'unknown') are no visibility levels: no claim (today UNAVAILABLE, compared "
    "with the model softly), also when loading such a dataset raises",
    "object order inside a frame, attribute order and frame names are not stated: objects are matched by instance id, "
    "attributes compared as multisets, frame names not compared",
    "every sensor channel is a FrameID value (else _get_transforms raises ValueError; contract family bad-channel); "
    "contract families are ill-formed or outside the property's domain and are not judged by the oracle",
    "category/attribute names are ASCII",
    "the averaged traffic-light camera (transform CAM_TRAFFIC_LIGHT -> BASE_LINK stored with every frame that has "
    "transforms) is NOT an observable of the property (DESIGN section 6: left out): the oracle makes no claim about it; the "
    "model's average (signs aligned with the FIRST traffic-light camera, as the code does since the C16-N1 fix) is compared "
    "softly (counted skip), so another averaging rule or not storing the transform does not alarm",
    "fixed finding C16-N1: a ZeroDivisionError on a well-formed dataset (traffic-light cameras calibrated q and -q) is an "
    "ordinary violation again; its replay harness/corpus/c16/n1_tlr_antipodal.json runs first in the corpus",
]

TASKS = ["detection", "tracking", "sensing"]
FRAMES = ["base_link", "map"]
ALL_CONFIGS = [[t, f, m] for t in TASKS for f in FRAMES for m in (False, True)]
FP_CONFIGS = [["fp_validation", f, m] for f in FRAMES for m in (False, True)]
TASKS_2D = ["detection2d", "tracking2d", "classification2d", "fp_validation2d"]
FAMILIES = ["autoware", "traffic_light"]
TLR_CATS = ["green", "red", "RED_LEFT", "yellow_straight", "unknown", "crosswalk_red", "crosswalk_unknown", "traffic_light",
            "red_rightdiagonal", "false_positive", "Green", "blue", "UNKNOWN", "green_left"]
EXTRA_FRAME_IDS = ["cam_back_left", "cam_back_right", "base_link", "lidar_top", "lidar_concat", "cam_traffic_light", "map"]
BAD_CHANNELS = ["LIDAR_LEFT", "CAM_SIDE", "RADAR_TOP", "camera0", ""]
CONTRACT_FAMILIES = ["multi-keyframe", "dup-token", "dup-instance", "lidar-offset", "bad-channel", "stale-uuid", "all-fp"]
DUP_TABLES = ["categories", "attributes", "visibility", "instances", "sensors", "calibrated_sensors", "ego_poses"]
GRID_STEPS = [125_000, 250_000, 500_000, 500_000, 750_000, 1_000_000, 1_500_000, 1_500_000, 3_000_000, 3_125_000, 3_156_250]

IN_TABLE = [
    "car", "vehicle.car", "CAR", "Vehicle.Car", "bus", "vehicle.bus", "Vehicle.Bus (Bendy & Rigid)", "truck", "vehicle.truck",
    "trailer", "vehicle.trailer", "TRAILER", "motorbike", "vehicle.motorcycle", "MOTORCYCLE", "bicycle", "vehicle.bicycle",
    "pedestrian", "pedestrian.adult", "Pedestrian.Child", "stroller", "animal", "unknown", "movable_object.barrier",
    "movable_object.traffic_cone", "forklift", "vehicle.construction", "vehicle.ambulance", "construction_worker",
    "static_object.bollard", "false_positive",
]
OUT_TABLE = ["human.pedestrian.adult", "vehicle.bus.bendy", "vehicle.emergency.police", "static_object.bicycle_rack",
             "foo", "car ", "vehicle", "", "CAR2", "ANIMAL.dog"]
ATTRS = ["vehicle.moving", "vehicle.stopped", "vehicle.parked", "cycle.with_rider", "pedestrian.standing",
         "pedestrian.moving", "occlusion_state.none", "extremities_state.none"]
LEVELS = ["v0-40", "v40-60", "v60-80", "v80-100", "full", "most", "partial", "none", "not available",
          "v10-20", "", "FULL", "unknown"]
OTHER_CHANNELS = ["CAM_FRONT", "CAM_BACK", "CAM_FRONT_LEFT", "RADAR_FRONT", "RADAR_BACK_LEFT", "CAM_TRAFFIC_LIGHT_NEAR",
                  "CAM_TRAFFIC_LIGHT_FAR", "CAM_FRONT_LOWER", "RADAR_BACK"]
TLR_CHANNELS = ["CAM_TRAFFIC_LIGHT_NEAR", "CAM_TRAFFIC_LIGHT_FAR", "CAM_TRAFFIC_LIGHT"]
TLR_RELATIONS = ["antipodal", "antipodal", "near-antipodal", "near-antipodal", "near", "orthogonal", "equal", "random"]
ID_ROT = ["1", "0", "0", "0"]
ZERO3 = ["0", "0", "0"]


# ----------------------------------------------------------------------------- rational rotations

def _quat_pool():
    """unit quaternions with rational components: the square of an integer quaternion (p,q,r,s) is
    (p²-q²-r²-s², 2pq, 2pr, 2ps) and has the INTEGER norm p²+q²+r²+s²"""
    yaw, full = [], []
    rng_ = range(-4, 5)
    for p in rng_:
        for s in rng_:
            if (p, s) != (0, 0):
                n = p * p + s * s
                yaw.append((p * p - s * s, 0, 0, 2 * p * s, n))
    for p in rng_:
        for q_ in range(-3, 4):
            for r in range(-3, 4):
                for s in rng_:
                    if (q_, r) != (0, 0):
                        n = p * p + q_ * q_ + r * r + s * s
                        full.append((p * p - q_ * q_ - r * r - s * s, 2 * p * q_, 2 * p * r, 2 * p * s, n))
    return sorted(set(yaw)), sorted(set(full))


_YAW, _FULL = _quat_pool()


def _rand_rot(rng, p_full=0.4):
    a, b, c, d, n = rng.choice(_FULL) if rng.random() < p_full else rng.choice(_YAW)
    if rng.random() < 0.3:
        a, b, c, d = -a, -b, -c, -d
    return [core.q(Fraction(x, n)) for x in (a, b, c, d)]


def _rand_vec(rng, lo, hi, denom=8):
    return [core.q(Fraction(rng.randint(int(lo * denom), int(hi * denom)), denom)) for _ in range(3)]


def _qmul(p, q_):
    """Hamilton product of two quaternions given as 4 Fractions"""
    a, b, c, d = p
    e, f, g, h = q_
    return [a * e - b * f - c * g - d * h, a * f + b * e + c * h - d * g, a * g - b * h + c * e + d * f, a * h + b * g - c * f + d * e]


def _small_rot(rng):
    """a rational unit quaternion close to 1: the square of (p, a, b, c) with p large and (a, b, c) a non-zero vector of {-1,0,1}^3:
    rotation angles from 0.1 degrees (p = 2000) to 76 degrees (p = 5 with (1,1,1)), i.e. 4-D dot products with 1 from 0.9999995 down to 0.79"""
    p = rng.choice([5, 12, 50, 400, 2000])
    while True:
        a, b, c = (rng.randint(-1, 1) for _ in range(3))
        if (a, b, c) != (0, 0, 0):
            break
    n = p * p + a * a + b * b + c * c
    return [Fraction(p * p - a * a - b * b - c * c, n), Fraction(2 * p * a, n), Fraction(2 * p * b, n), Fraction(2 * p * c, n)]


_PURE = [(0, 1, 0, 0), (0, 0, 1, 0), (0, 0, 0, 1), (0, Fraction(3, 5), Fraction(4, 5), 0), (0, Fraction(1, 3), Fraction(-2, 3), Fraction(2, 3))]


def _tlr_calibs(case):
    """the calibrated sensors whose channel contains CAM_TRAFFIC_LIGHT, in calibrated_sensor TABLE order (the sensor
    token resolved like nusc.get: the last record carrying it)"""
    sen = {s["token"]: s for s in case["sensors"]}
    return [c for c in case["calibrated_sensors"]
            if c["sensor_token"] in sen and "CAM_TRAFFIC_LIGHT" in sen[c["sensor_token"]]["channel"].upper()]


def shape_tlr(rng, case, relations=None):
    """relate the calibrated rotation of every later traffic-light camera to the FIRST one's q (table order):
    antipodal = -q (the same rotation; fixed finding C16-N1), near-antipodal = -(q*d), near = q*d (d a small rotation),
    orthogonal = q*u with u a pure unit quaternion (4-D dot product exactly 0), equal = q, random = left as drawn;
    chain (three cameras) = q, q*a, q*b with a = 5/13 + 12/13 u, b = -3/5 + 4/5 u: the third is on the far side of the
    FIRST (dot -3/5: negated) but on the near side of the second (dot 33/65), so aligning with the previous camera
    instead of the first gives another average"""
    tl = _tlr_calibs(case)
    if len(tl) < 2:
        return case
    q0 = [Fraction(v) for v in tl[0]["rotation"]]
    if len(tl) >= 3 and (relations == ["chain"] or (relations is None and rng.random() < 0.3)):
        u = [Fraction(v) for v in rng.choice(_PURE)]
        sg = rng.choice([1, -1])
        a = [Fraction(5, 13)] + [Fraction(12, 13) * v for v in u[1:]]
        b = [Fraction(-3, 5)] + [Fraction(4, 5) * v for v in u[1:]]
        tl[1]["rotation"] = [core.q(sg * v) for v in _qmul(q0, a)]
        tl[2]["rotation"] = [core.q(sg * v) for v in _qmul(q0, b)]
        return case
    if relations == ["chain"]:
        relations = None
    for k, c in enumerate(tl[1:]):
        rel = relations[k % len(relations)] if relations else rng.choice(TLR_RELATIONS)
        if rel == "antipodal":
            r = [-v for v in q0]
        elif rel == "near-antipodal":
            r = [-v for v in _qmul(q0, _small_rot(rng))]
        elif rel == "near":
            r = _qmul(q0, _small_rot(rng))
        elif rel == "orthogonal":
            r = _qmul(q0, [Fraction(v) for v in rng.choice(_PURE)])
            if rng.random() < 0.5:
                r = [-v for v in r]
        elif rel == "equal":
            r = list(q0)
        else:
            continue
        c["rotation"] = [core.q(v) for v in r]
    return case


# NUMERIC TYPE VARIANT of the written dataset (the mathematical values, hence the model request and the oracle's
# expectation, are unchanged): write_dataset(case with "json_ints") writes integer-valued numbers of translation / size /
# rotation vectors as JSON integers -- "all" (or true): every one, "alt": every other one (vectors that mix 12 and -7.0).
_JSON_INTS = False
_INT_COUNT = [0]
JSON_INT_MODES = ("all", "alt")


def _fl(xs, ints_ok=True):
    out = [float(Fraction(x)) for x in xs]
    if _JSON_INTS and ints_ok:
        for k, v in enumerate(out):
            if v == int(v):
                _INT_COUNT[0] += 1
                if _JSON_INTS != "alt" or _INT_COUNT[0] % 2:
                    out[k] = int(v)
    return out


def _is_integral(xs):
    return all(Fraction(x).denominator == 1 for x in xs)


def numeric_variant(rng, case, p_ints=0.5):
    """the numeric-type device: (i) some vectors of the dataset are moved to integral values (a vehicle standing at
    (12, -7, 0), a box of 2 x 4 x 1 m) -- a different dataset, chosen before anything is computed from it; (ii) the
    writer is told to write integer-valued numbers as JSON integers (same dataset, other numeric type in the file)."""
    def snap(xs, lo=None):
        out = []
        for x in xs:
            v = round(float(Fraction(x)))
            out.append(core.q(Fraction(max(lo, v) if lo is not None else v)))
        return out

    ints = rng.random() < p_ints
    if rng.random() < (0.7 if ints else 0.15):
        pe, pa, ps, pc = rng.choice([0.3, 0.8, 1.0]), rng.choice([0.0, 0.5, 1.0]), rng.choice([0.0, 0.5, 1.0]), rng.choice([0.0, 0.5])
        for e in case["ego_poses"]:
            if rng.random() < pe:
                e["translation"] = snap(e["translation"])
        for a in case["annotations"]:
            if rng.random() < pa:
                a["translation"] = snap(a["translation"])
            if rng.random() < ps:
                a["size"] = snap(a["size"], 1)
        for c in case["calibrated_sensors"]:
            if rng.random() < pc:
                c["translation"] = snap(c["translation"])
    if ints:
        case["json_ints"] = rng.choice(["all", "all", "alt"])
    return case


# ----------------------------------------------------------------------------- generator

def relink(case):
    """recompute the sample chain and, per instance, the annotation prev/next chain in sample order"""
    order = {s["token"]: i for i, s in enumerate(case["samples"])}
    for a in case["annotations"]:
        a["prev"] = ""
        a["next"] = ""
    by_inst = {}
    for a in case["annotations"]:
        if not a.get("no_link"):
            by_inst.setdefault(a["instance_token"], []).append(a)
    for lst in by_inst.values():
        lst.sort(key=lambda a: order[a["sample_token"]])
        for x, y in zip(lst, lst[1:]):
            x["next"] = y["token"]
            y["prev"] = x["token"]
    return case


def gen_dataset(rng, max_samples=6, lidar_mode=None, n_samples=None, family=None, dup_table=None, tlr_rig=None):
    ns = n_samples if n_samples is not None else rng.randint(1, max_samples)
    samples = []
    steps = [50_000, 100_000, 100_000, 500_000, 500_000, 1_000_000, 1_500_000, 2_650_000, 3_000_000, 3_150_000, 3_150_001, 4_000_000]
    mode = rng.random()
    grid = rng.random() < 0.4   # float seconds exact: timestamps are multiples of 1/64 s
    t = 1_600_000_000_000_000 + (rng.randint(0, 10**5) * 15_625 if grid else rng.randint(0, 10**9))
    for i in range(ns):
        samples.append({"token": f"s{i}", "timestamp": t})
        if grid:
            t += rng.choice(GRID_STEPS[:6]) if mode < 0.5 else rng.choice(GRID_STEPS)
        else:
            t += rng.choice(steps[:6]) if mode < 0.6 else rng.choice(steps)
    # sensors: the lidar(s) first or last, others around
    lidar_mode = lidar_mode or rng.choice(["top", "top", "concat", "concat", "both", "both_rev"])
    chans = {"top": ["LIDAR_TOP"], "concat": ["LIDAR_CONCAT"], "both": ["LIDAR_TOP", "LIDAR_CONCAT"],
             "both_rev": ["LIDAR_CONCAT", "LIDAR_TOP"], "none": []}[lidar_mode]
    others = rng.sample(OTHER_CHANNELS, rng.randint(0 if chans else 1, 3))
    if tlr_rig is None:
        tlr_rig = rng.random() < 0.25
    if tlr_rig:  # a rig of 2..3 traffic-light cameras (+ at most one other sensor)
        others = rng.sample(TLR_CHANNELS, rng.choice([2, 2, 3])) + rng.sample([c for c in OTHER_CHANNELS if c not in TLR_CHANNELS], rng.randint(0, 1))
        rng.shuffle(others)
    chans = chans + others
    if rng.random() < 0.5:
        rng.shuffle(chans)
    picked = "LIDAR_TOP" if "LIDAR_TOP" in chans else "LIDAR_CONCAT"
    sensors, calibs = [], []
    for k, ch in enumerate(chans):
        mod = "lidar" if ch.startswith("LIDAR") else "camera" if ch.startswith("CAM") else "radar"
        sensors.append({"token": f"sen{k}", "channel": ch, "modality": mod})
        if ch == picked:
            tr, ro = list(ZERO3), list(ID_ROT)
        else:
            tr, ro = _rand_vec(rng, -3, 3, 16), _rand_rot(rng, 0.7)
        calibs.append({"token": f"cs{k}", "sensor_token": f"sen{k}", "translation": tr, "rotation": ro})
    if rng.random() < 0.5:
        calibs.reverse()
    # ego poses + sample_data (one key frame per sensor and sample, own ego pose each; some sweeps)
    ego, sdata = [], []
    origin = [rng.randint(-800 * 8, 800 * 8), rng.randint(-800 * 8, 800 * 8), rng.randint(-16, 16)]
    ego_xy = []
    for i, s in enumerate(samples):
        base = [origin[0] + rng.randint(-200, 200), origin[1] + rng.randint(-200, 200), origin[2] + rng.randint(-8, 8)]
        ego_xy.append(base)
        for k, ch in enumerate(chans):
            def add(key, is_key):
                tok = f"e{len(ego)}"
                pos = [core.q(Fraction(b + rng.randint(-8, 8), 8)) for b in base] if key != "main" else [core.q(Fraction(b, 8)) for b in base]
                ego.append({"token": tok, "translation": pos, "rotation": _rand_rot(rng, 0.5 if key == "main" else 0.35)})
                sdata.append({"token": f"sd{len(sdata)}", "sample_token": s["token"], "ego_pose_token": tok,
                              "calibrated_sensor_token": f"cs{k}", "is_key_frame": is_key,
                              "timestamp": s["timestamp"] + (0 if is_key else rng.randint(1, 40_000))})
            if ch == picked and rng.random() < 0.35:
                add("sweep", False)  # a non-key-frame record BEFORE the key frame
            add("main" if ch == picked else "other", True)
            if rng.random() < 0.25:
                add("sweep", False)  # and/or after it
    if rng.random() < 0.3:
        rng.shuffle(sdata)
    if rng.random() < 0.3:
        rng.shuffle(ego)
    # categories / attributes / visibility
    ncat = rng.randint(1, 6)
    names = [rng.choice(IN_TABLE) if rng.random() < 0.75 else rng.choice(OUT_TABLE) for _ in range(ncat)]
    categories = [{"token": f"c{k}", "name": n} for k, n in enumerate(names)]
    attrs = [{"token": f"at{k}", "name": n} for k, n in enumerate(rng.sample(ATTRS, rng.randint(0, 5)))]
    vmode = rng.random()
    if vmode < 0.12:
        vis = []
    else:
        nv = rng.randint(1, 7)
        lv = [rng.choice(LEVELS[:9]) if rng.random() < 0.8 else rng.choice(LEVELS) for _ in range(nv)]
        if vmode < 0.5:  # T4 style: tokens are words, deliberately NOT the level they name
            toks = rng.sample(["full", "most", "partial", "none", "v0-40", "v80-100", "not available", "x"], nv)
        else:  # nuScenes style
            toks = [str(k + 1) for k in range(nv)]
        vis = [{"token": tk, "level": l} for tk, l in zip(toks, lv)]
    # instances and annotations
    ni = rng.choice([0, 1, 2, 3, 3, 4, 5, 6])
    instances, anns = [], []
    for j in range(ni):
        instances.append({"token": f"i{j}", "category_token": rng.choice(categories)["token"],
                          "instance_name": rng.choice(["", f"scene::cat:{j}", f"{j}"])})
        pm = rng.random()
        if pm < 0.35:
            present = [True] * ns
        elif pm < 0.6:  # contiguous stretch
            a = rng.randint(0, ns - 1)
            b = rng.randint(a, ns - 1)
            present = [a <= i <= b for i in range(ns)]
        else:
            present = [rng.random() < 0.6 for _ in range(ns)]
        size = _rand_vec(rng, 0.25, 12, 8)
        rel = [rng.randint(-100 * 8, 100 * 8), rng.randint(-100 * 8, 100 * 8), rng.randint(-3 * 8, 3 * 8)]
        for i, s in enumerate(samples):
            if not present[i]:
                continue
            rel = [r + rng.randint(-16, 16) for r in rel]
            pos = [core.q(Fraction(ego_xy[i][k] + rel[k], 8)) for k in range(3)]
            anns.append({
                "token": f"a{len(anns)}", "sample_token": s["token"], "instance_token": f"i{j}",
                "visibility_token": rng.choice(vis)["token"] if vis else rng.choice(["", "full", "1"]),
                "attribute_tokens": [x["token"] for x in rng.sample(attrs, rng.randint(0, min(2, len(attrs))))],
                "translation": pos, "size": size if rng.random() < 0.8 else _rand_vec(rng, 0.25, 12, 8),
                "rotation": _rand_rot(rng, 0.3), "num_lidar_pts": rng.choice([0, 0, 1, 2, 5, 17, 123, 4000]),
                "prev": "", "next": "",
            })
    if rng.random() < 0.7:
        rng.shuffle(anns)
    if rng.random() < 0.3:
        rng.shuffle(instances)
    case = {"kind": "dataset", "samples": samples, "sensors": sensors, "calibrated_sensors": calibs, "ego_poses": ego,
            "sample_data": sdata, "categories": categories, "attributes": attrs, "visibility": vis,
            "instances": instances, "annotations": anns, "object_anns": [],
            "configs": copy.deepcopy(ALL_CONFIGS) + rng.sample(FP_CONFIGS, 2), "configs2d": []}
    relink(case)
    if tlr_rig or rng.random() < 0.5:  # fixed finding C16-N1: the same rotation with opposite quaternion signs, and neighbours
        shape_tlr(rng, case)
    add_2d(rng, case, tlr=rng.random() < 0.4)
    numeric_variant(rng, case)
    if family:
        apply_family(rng, case, family, dup_table)
    return case


def _channels(case):
    sen = {s["token"]: s for s in case["sensors"]}
    cs = {c["token"]: c for c in case["calibrated_sensors"]}
    return {x["token"]: sen[cs[x["calibrated_sensor_token"]]["sensor_token"]]["channel"] for x in case["sample_data"]}


def _rand_bbox(rng):
    r = rng.random()
    den = 1 if r < 0.35 else rng.choice([2, 4, 10])
    x0, y0 = rng.randint(-6 * den, 1900 * den), rng.randint(-6 * den, 1200 * den)
    w, h = rng.randint(0, 400 * den), rng.randint(0, 400 * den)
    if rng.random() < 0.08:
        w, h = -w, -h  # inverted box: negative width/height are passed through
    return [core.q(Fraction(v, den)) for v in (x0, y0, x0 + w, y0 + h)]


def add_2d(rng, case, tlr=False, n_configs=4):
    """2-D annotations (object_ann) on the sample_data records, 2-D instances, and the 2-D configurations to load"""
    chan = _channels(case)
    cams = [x for x in case["sample_data"] if chan[x["token"]].startswith("CAM")]
    cats = case["categories"]
    for n in rng.sample(TLR_CATS, rng.randint(3, 7) if tlr else rng.randint(0, 2)):
        cats.append({"token": f"c{len(cats)}", "name": n})
    tl_cats = [c for c in cats if c["name"] in TLR_CATS] or cats
    rids = rng.sample(["101", "102", "7", "", "lane 5"], 3)
    nj = rng.randint(1, 6)
    for j in range(nj):
        rid = rng.choice(rids)
        name = rng.choice([f"scene::traffic_light:{rid}", rid, f"a:{rid}", f"x::y::{rid}", f"{rid}:" if rng.random() < 0.2 else f":{rid}"])
        case["instances"].append({"token": f"j{j}", "category_token": rng.choice(tl_cats if tlr else cats)["token"], "instance_name": name})
    inst = case["instances"]
    n_oa = (rng.choice([0, 1, 2, 3, 5, 8]) if cams else 0) if case["samples"] else 0
    oanns = []
    hot = {s_["token"] for s_ in rng.sample(case["samples"], min(len(case["samples"]), 2))}
    hot_cams = [x for x in cams if x["is_key_frame"] and x["sample_token"] in hot]
    if tlr and hot_cams:
        n_oa = rng.choice([2, 3, 5, 8])
    for k in range(n_oa):
        if tlr and hot_cams and rng.random() < 0.8:  # several lights of few regulatory elements in the same frames
            sd = rng.choice(hot_cams)
        else:
            sd = rng.choice(cams) if rng.random() < 0.88 else rng.choice(case["sample_data"])
        i = rng.choice(inst[-nj:]) if (tlr or rng.random() < 0.5) else rng.choice(inst)
        ct = i["category_token"] if rng.random() < 0.7 else rng.choice(tl_cats if tlr else cats)["token"]
        oanns.append({"token": f"o{k}", "sample_data_token": sd["token"], "instance_token": i["token"], "category_token": ct,
                      "attribute_tokens": [x["token"] for x in rng.sample(case["attributes"], rng.randint(0, min(2, len(case["attributes"]))))],
                      "bbox": _rand_bbox(rng)})
    rng.shuffle(oanns)
    case["object_anns"] = oanns
    present = sorted({chan[x["token"]].lower() for x in cams})
    pool = present + present + EXTRA_FRAME_IDS
    cfgs = []
    for _ in range(n_configs):
        k = rng.choice([0, 1, 1, 2, 2, 3, 4])
        frames = [rng.choice(pool) for _ in range(k)] if rng.random() < 0.3 else rng.sample(pool, min(k, len(pool)))
        if tlr and rng.random() < 0.6:
            cfg = [rng.choice(["classification2d", "classification2d", "detection2d"]), "traffic_light", rng.random() < 0.5, frames]
        else:
            cfg = [rng.choice(TASKS_2D), rng.choice(FAMILIES), rng.random() < 0.5, frames]
        cfgs.append(cfg)
    if tlr and present:
        cfgs[0] = ["classification2d", "traffic_light", False, list(present)]
    case["configs2d"] = cfgs
    return case


def apply_family(rng, case, family, dup_table=None):
    """one deviation from the well-formed shape; the oracle does not judge these cases (case['contract'])"""
    case["contract"] = family
    chan = _channels(case)
    if family == "multi-keyframe":
        lid = [x for x in case["sample_data"] if x["is_key_frame"] and chan[x["token"]].startswith("LIDAR")]
        for x in rng.sample(lid, min(len(lid), rng.randint(1, 3))):
            tok = f"e{len(case['ego_poses'])}x"
            base = next(e for e in case["ego_poses"] if e["token"] == x["ego_pose_token"])
            case["ego_poses"].append({"token": tok, "translation": [core.q(Fraction(v) + rng.randint(-3, 3)) for v in base["translation"]],
                                      "rotation": _rand_rot(rng, 0.5)})
            dup = dict(x, token=x["token"] + "k", ego_pose_token=tok)
            pos = rng.choice([0, case["sample_data"].index(x), case["sample_data"].index(x) + 1, len(case["sample_data"])])
            case["sample_data"].insert(pos, dup)
    elif family == "dup-token":
        tbl = dup_table if dup_table and case[dup_table] else rng.choice([t for t in DUP_TABLES if case[t]])
        rec = copy.deepcopy(rng.choice(case[tbl]))
        if tbl in ("categories", "attributes"):
            rec["name"] = rng.choice(IN_TABLE + OUT_TABLE + ATTRS)
        elif tbl == "visibility":
            rec["level"] = rng.choice(LEVELS)
        elif tbl == "instances":
            rec["category_token"] = rng.choice(case["categories"])["token"]
            rec["instance_name"] = "dup::x:999"
        elif tbl == "sensors":
            rec["channel"] = rng.choice(["CAM_BACK", "LIDAR_CONCAT", "LIDAR_TOP", "RADAR_BACK_RIGHT"])
        elif tbl == "calibrated_sensors":
            rec["translation"] = _rand_vec(rng, -3, 3, 16)
            rec["rotation"] = _rand_rot(rng, 0.7)
        else:
            rec["translation"] = [core.q(Fraction(v) + rng.randint(-5, 5)) for v in rec["translation"]]
            rec["rotation"] = _rand_rot(rng, 0.5)
        case[tbl].insert(rng.randint(0, len(case[tbl])), rec)
        case["dup_table"] = tbl
    elif family == "dup-instance":
        A = case["annotations"]
        linked = [a for a in A if a["prev"]] or A
        for a in rng.sample(linked, min(len(linked), rng.randint(1, 2))):
            b = copy.deepcopy(a)
            b.update(token=a["token"] + "d", no_link=True, translation=[core.q(Fraction(v) + 1) for v in a["translation"]],
                     num_lidar_pts=a["num_lidar_pts"] + 1)
            A.insert(rng.randint(0, len(A)), b)
        relink(case)
        case["configs"] = [c for c in case["configs"] if c[0] == "tracking"] + [["detection", "map", False]]
    elif family == "lidar-offset":
        picked = {x["calibrated_sensor_token"] for x in case["sample_data"] if chan[x["token"]].startswith("LIDAR")}
        for c in case["calibrated_sensors"]:
            if c["token"] in picked:
                c["translation"], c["rotation"] = _rand_vec(rng, -3, 3, 16), _rand_rot(rng, 0.7)
    elif family == "bad-channel":
        k = len(case["sensors"])
        case["sensors"].insert(rng.randint(0, k), {"token": f"sen{k}b", "channel": rng.choice(BAD_CHANNELS), "modality": "lidar"})
        case["calibrated_sensors"].insert(rng.randint(0, k), {"token": f"cs{k}b", "sensor_token": f"sen{k}b",
                                                              "translation": list(ZERO3), "rotation": list(ID_ROT)})
        case["configs"] = rng.sample(case["configs"], 4)
    elif family == "stale-uuid":
        for o in rng.sample(case["object_anns"], min(len(case["object_anns"]), rng.randint(1, 2))):
            o["instance_token"] = "dangling"
        cams = sorted({chan[x["token"]].lower() for x in case["sample_data"] if chan[x["token"]].startswith("CAM")})
        case["configs2d"] = [["detection2d", "traffic_light", False, cams], ["classification2d", "traffic_light", False, cams],
                             ["tracking2d", "autoware", False, cams]]
        case["configs"] = [["detection", "map", False]]
    elif family == "all-fp":
        for c in case["categories"]:
            c["name"] = rng.choice(["false_positive", "FALSE_POSITIVE", "False_Positive"])
        case["configs"] = copy.deepcopy(FP_CONFIGS) + [["detection", "base_link", True]]
        case["configs2d"] = [[t, f, False, c[3]] for t, f, c in zip(["fp_validation2d", "fp_validation2d"], FAMILIES, case["configs2d"])]
    return case


def _fixed_case():
    """a small hand-written dataset: 3 samples, two instances (one disappearing), both lidars, ego rotated about all axes"""
    r = lambda a, b, c, d, n: [core.q(Fraction(x, n)) for x in (a, b, c, d)]
    case = {
        "kind": "dataset",
        "samples": [{"token": "s0", "timestamp": 1600000000000000}, {"token": "s1", "timestamp": 1600000000500000},
                    {"token": "s2", "timestamp": 1600000004000000}],
        "sensors": [{"token": "senC", "channel": "LIDAR_CONCAT", "modality": "lidar"},
                    {"token": "senT", "channel": "LIDAR_TOP", "modality": "lidar"},
                    {"token": "senF", "channel": "CAM_FRONT", "modality": "camera"}],
        "calibrated_sensors": [{"token": "csC", "sensor_token": "senC", "translation": ["1", "0", "2"], "rotation": r(0, 0, 0, 1, 1)},
                               {"token": "csT", "sensor_token": "senT", "translation": ZERO3, "rotation": ID_ROT},
                               {"token": "csF", "sensor_token": "senF", "translation": ["3/2", "0", "3/2"], "rotation": r(1, -1, 1, -1, 2)}],
        "ego_poses": [], "sample_data": [],
        "categories": [{"token": "c0", "name": "Vehicle.Bus"}, {"token": "c1", "name": "human.pedestrian.adult"}],
        "attributes": [{"token": "at0", "name": "vehicle.moving"}, {"token": "at1", "name": "pedestrian.standing"}],
        "visibility": [{"token": "none", "level": "v80-100"}, {"token": "full", "level": "v0-40"}, {"token": "3", "level": "most"},
                       {"token": "4", "level": "v10-20"}],
        "instances": [{"token": "i0", "category_token": "c0", "instance_name": "scene::bus:1"},
                      {"token": "i1", "category_token": "c1", "instance_name": ""}],
        "annotations": [],
        "object_anns": [
            {"token": "o0", "sample_data_token": "sd02", "instance_token": "i0", "category_token": "c0", "attribute_tokens": ["at0"],
             "bbox": ["21/2", "20", "1109/10", "220"]},
            {"token": "o1", "sample_data_token": "sd12", "instance_token": "i1", "category_token": "c1", "attribute_tokens": [],
             "bbox": ["-7/2", "-1/2", "30", "40"]},
            {"token": "o2", "sample_data_token": "sd01", "instance_token": "i1", "category_token": "c0", "attribute_tokens": ["at1", "at0"],
             "bbox": ["0", "0", "5", "5"]},
            {"token": "o3", "sample_data_token": "sd02", "instance_token": "i1", "category_token": "c1", "attribute_tokens": [],
             "bbox": ["100", "90", "80", "70"]},
        ],
        "configs": copy.deepcopy(ALL_CONFIGS) + copy.deepcopy(FP_CONFIGS[:2]),
        "configs2d": [["detection2d", "autoware", False, ["cam_front"]], ["tracking2d", "autoware", True, ["cam_back", "cam_front", "lidar_top"]],
                      ["classification2d", "autoware", False, ["cam_front"]], ["fp_validation2d", "traffic_light", False, ["cam_front"]],
                      ["detection2d", "traffic_light", False, []], ["classification2d", "traffic_light", False, ["cam_back"]]],
    }
    egos = [(["100", "-50", "1/2"], r(3, 0, 0, 4, 5)), (["105", "-49", "1/2"], r(1, 2, 2, 4, 5)), (["111", "-47", "3/4"], r(-2, 1, 4, 2, 5))]
    for i, (s, (p, q_)) in enumerate(zip(case["samples"], egos)):
        for k, cs in enumerate(["csC", "csT", "csF"]):
            tok = f"e{i}{k}"
            pp = p if cs == "csT" else [core.q(Fraction(x) + k + 1) for x in p]
            case["ego_poses"].append({"token": tok, "translation": pp, "rotation": q_ if cs == "csT" else r(1, 0, 0, 0, 1)})
            case["sample_data"].append({"token": f"sd{i}{k}", "sample_token": s["token"], "ego_pose_token": tok,
                                        "calibrated_sensor_token": cs, "is_key_frame": True, "timestamp": s["timestamp"]})
    A = case["annotations"]
    A.append({"token": "a0", "sample_token": "s1", "instance_token": "i0", "visibility_token": "none", "attribute_tokens": ["at0"],
              "translation": ["120", "-40", "1"], "size": ["5/2", "10", "3"], "rotation": r(4, 0, 0, 3, 5), "num_lidar_pts": 0, "prev": "", "next": ""})
    A.append({"token": "a1", "sample_token": "s0", "instance_token": "i1", "visibility_token": "full", "attribute_tokens": ["at1", "at0"],
              "translation": ["90", "-60", "3/4"], "size": ["1/2", "3/4", "7/4"], "rotation": r(0, 0, 0, -1, 1), "num_lidar_pts": 12, "prev": "", "next": ""})
    A.append({"token": "a2", "sample_token": "s0", "instance_token": "i0", "visibility_token": "3", "attribute_tokens": [],
              "translation": ["118", "-41", "1"], "size": ["5/2", "10", "3"], "rotation": r(4, 0, 0, 3, 5), "num_lidar_pts": 300, "prev": "", "next": ""})
    A.append({"token": "a3", "sample_token": "s2", "instance_token": "i0", "visibility_token": "4", "attribute_tokens": [],
              "translation": ["130", "-38", "1"], "size": ["5/2", "10", "3"], "rotation": r(1, 2, 2, 4, 5), "num_lidar_pts": 7, "prev": "", "next": ""})
    return relink(case)


def _tlr_case(labels=("green", "UNKNOWN", "red_left", "red_left"), third=None):
    """traffic lights seen by two cameras: instances j0/j1 share regulatory element 123, j2/j3 share 77"""
    c = _fixed_case()
    c["sensors"].append({"token": "senN", "channel": "CAM_TRAFFIC_LIGHT_NEAR", "modality": "camera"})
    c["calibrated_sensors"].append({"token": "csN", "sensor_token": "senN", "translation": ["1", "0", "2"], "rotation": list(ID_ROT)})
    for i, s_ in enumerate(c["samples"]):
        c["ego_poses"].append({"token": f"eN{i}", "translation": [str(200 + i), "-10", "1"], "rotation": ["3/5", "0", "0", "4/5"]})
        c["sample_data"].append({"token": f"sdN{i}", "sample_token": s_["token"], "ego_pose_token": f"eN{i}", "calibrated_sensor_token": "csN",
                                 "is_key_frame": True, "timestamp": s_["timestamp"]})
    c["sample_data"].append({"token": "sdNs", "sample_token": "s0", "ego_pose_token": "eN0", "calibrated_sensor_token": "csN",
                             "is_key_frame": False, "timestamp": c["samples"][0]["timestamp"] + 5})
    names = list(labels) + ([third] if third else [])
    c["categories"] += [{"token": f"t{k}", "name": n} for k, n in enumerate(names)]
    c["instances"] += [{"token": "j0", "category_token": "t0", "instance_name": "scene::traffic_light:123"},
                       {"token": "j1", "category_token": "t1", "instance_name": "x::traffic_light:123"},
                       {"token": "j2", "category_token": "t2", "instance_name": "77"},
                       {"token": "j3", "category_token": "t3", "instance_name": "a:77"}]
    c["object_anns"] = [
        {"token": "o0", "sample_data_token": "sd02", "instance_token": "j0", "category_token": "t0", "attribute_tokens": ["at0"], "bbox": ["21/2", "20", "1109/10", "-7/2"]},
        {"token": "o1", "sample_data_token": "sdN0", "instance_token": "j1", "category_token": "t1", "attribute_tokens": [], "bbox": ["0", "0", "5", "5"]},
        {"token": "o2", "sample_data_token": "sdNs", "instance_token": "j2", "category_token": "t2", "attribute_tokens": [], "bbox": ["0", "0", "9", "9"]},
        {"token": "o3", "sample_data_token": "sdN0", "instance_token": "j2", "category_token": "t2", "attribute_tokens": [], "bbox": ["1", "2", "3", "4"]},
        {"token": "o4", "sample_data_token": "sd02", "instance_token": "j3", "category_token": "t3", "attribute_tokens": [], "bbox": ["1", "1", "2", "2"]},
    ]
    if third:
        c["instances"].append({"token": "j4", "category_token": f"t{len(names) - 1}", "instance_name": ":123"})
        c["object_anns"].append({"token": "o5", "sample_data_token": "sdN0", "instance_token": "j4", "category_token": f"t{len(names) - 1}",
                                 "attribute_tokens": [], "bbox": ["7", "7", "8", "8"]})
    both = ["cam_front", "cam_traffic_light_near"]
    c["configs"] = [["detection", "base_link", False]]
    c["configs2d"] = [["classification2d", "traffic_light", False, both], ["detection2d", "traffic_light", False, both],
                      ["classification2d", "traffic_light", True, ["cam_traffic_light_near", "cam_back"]],
                      ["tracking2d", "traffic_light", False, list(reversed(both))], ["classification2d", "autoware", False, both],
                      ["fp_validation2d", "traffic_light", False, both]]
    return c


def _n1_case():
    """fixed finding C16-N1: two traffic-light cameras whose calibrated rotations are q and -q (the same rotation);
    equal to the stored replay harness/corpus/c16/n1_tlr_antipodal.json"""
    c = _tlr_case()
    c["sensors"].append({"token": "senX", "channel": "CAM_TRAFFIC_LIGHT_FAR", "modality": "camera"})
    c["calibrated_sensors"][-1]["rotation"] = ["4/5", "0", "0", "3/5"]
    c["calibrated_sensors"].append({"token": "csX", "sensor_token": "senX", "translation": ["1", "0", "3"], "rotation": ["-4/5", "0", "0", "-3/5"]})
    c["configs"] = [["detection", "base_link", False], ["tracking", "map", True]]
    c["configs2d"] = [["detection2d", "autoware", False, ["cam_front"]], ["classification2d", "traffic_light", False, ["cam_front"]],
                      ["detection2d", "autoware", False, ["cam_back"]]]
    return c


def _n1_variant(rots, third=None):
    """the rig of _n1_case with other rotations for the two traffic-light cameras (and optionally a third camera, FIRST
    of the traffic-light cameras in table order)"""
    c = _n1_case()
    tl = _tlr_calibs(c)
    tl[0]["rotation"], tl[1]["rotation"] = [list(r) for r in rots[:2]]
    if third is not None:
        c["sensors"].append({"token": "senY", "channel": "CAM_TRAFFIC_LIGHT", "modality": "camera"})
        c["calibrated_sensors"].insert(1, {"token": "csY", "sensor_token": "senY", "translation": ["-2", "1/2", "3"], "rotation": list(third)})
    return c


def corpus():
    # replays of fixed findings first (harness/corpus/c16/*.json; duplicates are dropped at the end), then the hand-written cases
    cs = []
    for f in sorted((core.VERIF / "harness" / "corpus" / "c16").glob("*.json")):
        payload = json.loads(f.read_text())
        cs.append(payload.get("case", payload))
    cs += [_fixed_case(), _n1_case(), _tlr_case(), _tlr_case(("red", "green", "unknown", "UNKNOWN")), _tlr_case(third="yellow"),
           _tlr_case(("crosswalk_red", "red", "blue", "foo"), third="RED")]
    cs.append(_tlr_case(("unknown", "green", "UNKNOWN", "red_left")))
    # traffic-light camera rigs around the fixed finding C16-N1: nearly antipodal (4-D dot products -24/25 and -0.9999995 with q),
    # r / q / -q with the third camera FIRST in table order, exactly orthogonal 4-vectors, three cameras -q, q, -q
    # (their plain sum is -q, not 0)
    q, mq = ["4/5", "0", "0", "3/5"], ["-4/5", "0", "0", "-3/5"]
    cs.append(_n1_variant([q, ["-3/5", "0", "0", "-4/5"]]))
    d = [Fraction(3999999, 4000001), Fraction(4000, 4000001), Fraction(0), Fraction(0)]
    cs.append(_n1_variant([q, [core.q(-v) for v in _qmul([Fraction(x) for x in q], d)]]))
    cs.append(_n1_variant([q, mq], third=["1/2", "-1/2", "1/2", "-1/2"]))
    cs.append(_n1_variant([q, ["-3/5", "0", "0", "4/5"]]))
    cs.append(_n1_variant([q, mq], third=mq))
    # 1, a, b in one plane at 4-D angles 0 / 67 / 127 degrees: b is negated with respect to the FIRST camera although it is near the second
    cs.append(_n1_variant([["5/13", "12/13", "0", "0"], ["-3/5", "4/5", "0", "0"]], third=ID_ROT))
    import random as _r
    for k, fam in enumerate(CONTRACT_FAMILIES):
        cs.append(gen_dataset(_r.Random(1000 + k), n_samples=3, family=fam))
    for k, tbl in enumerate(DUP_TABLES):
        cs.append(gen_dataset(_r.Random(2000 + k), n_samples=2, family="dup-token", dup_table=tbl))
    # velocity bounds: gaps of exactly 1.5 s (one-sided bound) and 3 s (centred bound), on the exact 1/64 s grid and off it
    for base in (1_600_000_000_000_000, 1_600_000_000_123_457):
        c = gen_dataset(_r.Random(base % 1000), n_samples=7)
        gaps = [1_500_000, 1_500_000, 3_000_000, 1_500_001, 1_499_999, 3_000_001]
        t = base
        for s_, g in zip(c["samples"], [0] + gaps):
            t += g
            s_["timestamp"] = t
        for x in c["sample_data"]:
            x["timestamp"] = next(s_["timestamp"] for s_ in c["samples"] if s_["token"] == x["sample_token"])
        for j in range(2):  # two instances present throughout / in every other sample
            c["instances"].append({"token": f"v{j}", "category_token": c["categories"][0]["token"], "instance_name": ""})
            for i, s_ in enumerate(c["samples"]):
                if j == 1 and i % 2:
                    continue
                c["annotations"].append({"token": f"av{j}{i}", "sample_token": s_["token"], "instance_token": f"v{j}",
                                         "visibility_token": c["visibility"][0]["token"] if c["visibility"] else "", "attribute_tokens": [],
                                         "translation": [str(700 + 3 * i + j), str(-20 + i * i), "1/2"], "size": ["2", "4", "3/2"],
                                         "rotation": ["3/5", "0", "0", "4/5"], "num_lidar_pts": 5, "prev": "", "next": ""})
        cs.append(relink(c))
    # audit round 2 (C16-2): consecutive samples with the SAME timestamp -> time_diff == 0.0 in _get_box_velocity / box_velocity:
    # numpy returns inf / -inf / nan components without raising; compared per annotation with the model's `velocityPy` (op "vel").
    # Outside the schema (prev / next must go back / forward in time) but inside the model's `WellFormed`.
    for seed, stamps in ((11, [0, 0, 500_000, 500_000]), (12, [0, 500_000, 500_000, 1_000_000, 1_000_000])):
        c = gen_dataset(_r.Random(seed), n_samples=len(stamps))
        for s_, dt in zip(c["samples"], stamps):
            s_["timestamp"] = 1_600_000_000_000_000 + dt
        for x in c["sample_data"]:
            x["timestamp"] = next(s_["timestamp"] for s_ in c["samples"] if s_["token"] == x["sample_token"])
        for j in range(3):  # present throughout (moving / standing still) / in every other sample
            c["instances"].append({"token": f"w{j}", "category_token": c["categories"][0]["token"], "instance_name": ""})
            for i, s_ in enumerate(c["samples"]):
                if j == 2 and i % 2:
                    continue
                tr = [str(700 + 3 * i), str(-20 - i * i), "1/2"] if j != 1 else ["650", "-30", "1/2"]
                c["annotations"].append({"token": f"aw{j}{i}", "sample_token": s_["token"], "instance_token": f"w{j}",
                                         "visibility_token": c["visibility"][0]["token"] if c["visibility"] else "", "attribute_tokens": [],
                                         "translation": tr, "size": ["2", "4", "3/2"],
                                         "rotation": ["3/5", "0", "0", "4/5"], "num_lidar_pts": 5, "prev": "", "next": ""})
        c = relink(c)
        c["vel_direct"] = True
        cs.append(c)
    # the same direct per-annotation comparison on ordinary datasets
    for seed in (21, 22):
        c = gen_dataset(_r.Random(seed), n_samples=5)
        c["vel_direct"] = True
        cs.append(c)
    # F13 (fixed): visibility must be the Visibility member (not a string) — one annotation per level
    c = _fixed_case()
    c["visibility"] = [{"token": f"t{k}", "level": l} for k, l in enumerate(LEVELS)]
    c["annotations"] = []
    for k in range(len(LEVELS)):
        c["annotations"].append({"token": f"a{k}", "sample_token": "s0", "instance_token": "i0" if k == 0 else "i1" if k == 1 else f"j{k}",
                                 "visibility_token": f"t{k}", "attribute_tokens": [], "translation": [str(100 + k), "-50", "1"],
                                 "size": ["1", "2", "3/2"], "rotation": ID_ROT, "num_lidar_pts": k, "prev": "", "next": ""})
        if k >= 2:
            c["instances"].append({"token": f"j{k}", "category_token": "c1"})
    cs.append(relink(c))
    # one sample, no annotation at all; no visibility table
    c = _fixed_case()
    c["samples"] = c["samples"][:1]
    c["sample_data"] = [x for x in c["sample_data"] if x["sample_token"] == "s0"]
    c["annotations"] = []
    c["visibility"] = []
    cs.append(relink(c))
    # the two rejections the loader names
    c = _fixed_case()
    c["sample_data"] = [x for x in c["sample_data"] if x["calibrated_sensor_token"] == "csF"]
    c["configs"] = [["detection", "base_link", False], ["tracking", "map", True]]
    cs.append(c)
    c = _fixed_case()
    c["samples"], c["sample_data"], c["annotations"] = [], [], []
    c["configs"] = [["detection", "base_link", False], ["sensing", "map", False]]
    cs.append(c)
    # long track: 9 samples 0.5 s apart -> the history is capped at 6 and, with 1 s steps, cut by the 3.15 s window
    import random
    for step in (400_000, 1_000_000, 1_050_000):
        c = gen_dataset(random.Random(step), n_samples=9)
        for i, s in enumerate(c["samples"]):
            s["timestamp"] = 1_600_000_000_000_000 + i * step
        cs.append(c)
    # numeric type variant: the fixed dataset with every ego pose at integral coordinates (rotations as they are: tilted and
    # yawed), integer-valued numbers written as JSON integers -- all of them / every other one / none (12.0 stays a float)
    for mode in ("all", "alt", None):
        c = _fixed_case()
        for e in c["ego_poses"]:
            e["translation"] = [core.q(Fraction(round(float(Fraction(x))))) for x in e["translation"]]
        if mode:
            c["json_ints"] = mode
        cs.append(c)
    out, seen = [], set()
    for c in cs:
        k = json.dumps(c, sort_keys=True)
        if k not in seen:
            seen.add(k)
            out.append(c)
    return out


def generate(rng, tier):
    n = 60 if tier == "quick" else 600
    cases = []
    for k in range(n):
        r = rng.random()
        if r < 0.04:
            c = gen_dataset(rng, lidar_mode="none")
            c["configs"] = rng.sample(ALL_CONFIGS, 3)
        elif r < 0.12:
            c = gen_dataset(rng, max_samples=8, n_samples=rng.randint(7, 8))
        elif r < 0.30:
            c = gen_dataset(rng, family=CONTRACT_FAMILIES[k % len(CONTRACT_FAMILIES)])
        else:
            c = gen_dataset(rng)
        cases.append(c)
    return cases


# ----------------------------------------------------------------------------- writing the directory

def write_dataset(case, root):
    """the devkit's 13 tables (version folder `annotation`) for the abstract tables of the case"""
    global _JSON_INTS
    _JSON_INTS = case.get("json_ints") or False
    _INT_COUNT[0] = 0
    try:
        _write_dataset(case, root)
    finally:
        _JSON_INTS = False


def _write_dataset(case, root):
    d = os.path.join(root, "annotation")
    os.makedirs(d)
    os.makedirs(os.path.join(root, "maps"))
    open(os.path.join(root, "maps", "m.png"), "wb").close()
    S = case["samples"]
    # devkit behaviour (ASSUMPTIONS): a box centre that is an all-integer JSON list cannot be moved in place by a float ego
    # translation -- annotation translations are written as integers only in a dataset whose ego translations are all integral
    ann_ints = all(_is_integral(e["translation"]) for e in case["ego_poses"])
    chan_of_cs = {}
    sen = {s["token"]: s for s in case["sensors"]}
    for c in case["calibrated_sensors"]:
        chan_of_cs[c["token"]] = sen[c["sensor_token"]]["channel"]
    tables = {
        "category": [{"token": c["token"], "name": c["name"], "description": ""} for c in case["categories"]],
        "attribute": [{"token": a["token"], "name": a["name"], "description": ""} for a in case["attributes"]],
        "visibility": [{"token": v["token"], "level": v["level"], "description": ""} for v in case["visibility"]],
        "sensor": [dict(s) for s in case["sensors"]],
        "calibrated_sensor": [{"token": c["token"], "sensor_token": c["sensor_token"], "translation": _fl(c["translation"]),
                               "rotation": _fl(c["rotation"]), "camera_intrinsic": []} for c in case["calibrated_sensors"]],
        "ego_pose": [{"token": e["token"], "timestamp": 0, "translation": _fl(e["translation"]), "rotation": _fl(e["rotation"])}
                     for e in case["ego_poses"]],
        "log": [{"token": "log0", "logfile": "", "vehicle": "v", "date_captured": "2020-01-01", "location": "x"}],
        "map": [{"token": "map0", "category": "semantic_prior", "filename": "maps/m.png", "log_tokens": ["log0"]}],
        "scene": [{"token": "scene0", "log_token": "log0", "nbr_samples": len(S), "first_sample_token": S[0]["token"] if S else "",
                   "last_sample_token": S[-1]["token"] if S else "", "name": "scene", "description": ""}],
        "sample": [{"token": s["token"], "timestamp": s["timestamp"], "scene_token": "scene0",
                    "prev": S[i - 1]["token"] if i > 0 else "", "next": S[i + 1]["token"] if i + 1 < len(S) else ""}
                   for i, s in enumerate(S)],
        "sample_data": [{"token": x["token"], "sample_token": x["sample_token"], "ego_pose_token": x["ego_pose_token"],
                         "calibrated_sensor_token": x["calibrated_sensor_token"], "timestamp": x["timestamp"],
                         "fileformat": "pcd" if chan_of_cs[x["calibrated_sensor_token"]].startswith("LIDAR") else "jpg",
                         "is_key_frame": x["is_key_frame"], "height": 0, "width": 0,
                         "filename": f"data/{chan_of_cs[x['calibrated_sensor_token']]}/{x['token']}.bin", "prev": "", "next": ""}
                        for x in case["sample_data"]],
        "sample_annotation": [{"token": a["token"], "sample_token": a["sample_token"], "instance_token": a["instance_token"],
                               "visibility_token": a["visibility_token"], "attribute_tokens": list(a["attribute_tokens"]),
                               "translation": _fl(a["translation"], ann_ints), "size": _fl(a["size"]), "rotation": _fl(a["rotation"]),
                               "prev": a["prev"], "next": a["next"], "num_lidar_pts": a["num_lidar_pts"], "num_radar_pts": a["num_lidar_pts"] + 1}
                              for a in case["annotations"]],
    }
    insts = []
    for i in case["instances"]:
        mine = [a for a in case["annotations"] if a["instance_token"] == i["token"]]
        first = [a for a in mine if a["prev"] == ""]
        last = [a for a in mine if a["next"] == ""]
        insts.append({"token": i["token"], "category_token": i["category_token"], "instance_name": i.get("instance_name", ""),
                      "nbr_annotations": len(mine),
                      "first_annotation_token": first[0]["token"] if first else "", "last_annotation_token": last[0]["token"] if last else ""})
    tables["instance"] = insts

    def num(x):
        f = Fraction(x)
        return int(f) if f.denominator == 1 and f.numerator % 2 == 0 else float(f)  # even integers are written as JSON ints

    tables["object_ann"] = [{"token": o["token"], "sample_data_token": o["sample_data_token"], "instance_token": o["instance_token"],
                             "category_token": o["category_token"], "attribute_tokens": list(o["attribute_tokens"]),
                             "bbox": [num(v) for v in o["bbox"]], "mask": None} for o in case.get("object_anns", [])]
    tables["surface_ann"] = [{"token": "sf0", "sample_data_token": case["sample_data"][0]["token"] if case["sample_data"] else "",
                              "category_token": case["categories"][0]["token"] if case["categories"] else "", "mask": None}]
    for name, rows in tables.items():
        with open(os.path.join(d, name + ".json"), "w") as fh:
            json.dump(rows, fh)


# ----------------------------------------------------------------------------- the real loader

def _rotm(qt):
    import numpy as np

    return [[float(x) for x in row] for row in np.asarray(qt.rotation_matrix)]


def _vel(v):
    """velocity as the loader exposes it: None, or three floats; the devkit's all-nan vector is canonicalised to None"""
    import math

    if v is None:
        return None
    out = [float(x) for x in v]
    if all(math.isnan(x) for x in out):
        return None
    return out


def _canon_tlr(f):
    """the averaged traffic-light camera stored with the frame (CAM_TRAFFIC_LIGHT -> BASE_LINK), None if absent"""
    from perception_eval.common.schema import FrameID

    m = f.transforms.get((FrameID.CAM_TRAFFIC_LIGHT, FrameID.BASE_LINK))
    if m is None:
        return None
    return {"pos": [float(x) for x in m.position], "rot": _rotm(m.rotation)}


def _canon_frames_2d(frames, family):
    from perception_eval.common.label import AutowareLabel, TrafficLightLabel
    from perception_eval.common.schema import FrameID

    want = TrafficLightLabel if family == "traffic_light" else AutowareLabel
    out = []
    for f in frames:
        fr = {"t": f.unix_time, "name": getattr(f, "frame_name", None)}
        m = f.transforms.get((FrameID.BASE_LINK, FrameID.MAP))
        fr["ego2map"] = None if m is None else {"pos": [float(x) for x in m.position], "rot": _rotm(m.rotation)}
        fr["tlr2ego"] = _canon_tlr(f)
        objs = []
        for o in f.objects:
            lab = o.semantic_label
            objs.append({
                "uuid": o.uuid,
                "label": lab.label.name if isinstance(lab.label, want) else "other:" + repr(lab.label),
                "name": lab.name,
                "attrs": list(lab.attributes),
                "roi": None if o.roi is None else [int(o.roi.offset[0]), int(o.roi.offset[1]), int(o.roi.size[0]), int(o.roi.size[1])],
                "frame": getattr(o.frame_id, "name", repr(o.frame_id)),
                "time": o.unix_time,
                "vis": None if o.visibility is None else repr(o.visibility),
                "score": float(o.semantic_score),
            })
        fr["objects"] = objs
        out.append(fr)
    return out


def _canon_frames(frames):
    from perception_eval.common.label import AutowareLabel
    from perception_eval.common.schema import FrameID, Visibility

    out = []
    for f in frames:
        fr = {"t": f.unix_time, "name": getattr(f, "frame_name", None)}  # the name is informative only (not compared)
        fr["tlr2ego"] = _canon_tlr(f)
        m = f.transforms.get((FrameID.BASE_LINK, FrameID.MAP))
        if m is None:
            fr["ego2map"] = None
        else:
            fr["ego2map"] = {"pos": [float(x) for x in m.position], "rot": _rotm(m.rotation),
                             "matrix": [[float(x) for x in row] for row in m.matrix]}
        objs = []
        for o in f.objects:
            lab = o.semantic_label
            v = o.visibility
            d = {
                "uuid": o.uuid,
                "label": lab.label.name if isinstance(lab.label, AutowareLabel) else "other:" + repr(lab.label),
                "name": lab.name,
                "attrs": list(lab.attributes),
                "size": [float(x) for x in o.state.size],
                "pts": o.pointcloud_num,
                "vis": None if v is None else v.name if isinstance(v, Visibility) else "other:" + repr(v),
                "frame": getattr(o.frame_id, "name", repr(o.frame_id)),
                "time": o.unix_time,
                "pos": [float(x) for x in o.state.position],
                "rot": _rotm(o.state.orientation),
                "vel": _vel(o.state.velocity),
            }
            # the pose identity of the property, evaluated with the REAL transform objects stored with the frame
            try:
                p, r = f.transforms.transform((o.frame_id, FrameID.MAP), o.state.position, o.state.orientation)
                d["to_map"] = {"pos": [float(x) for x in p], "rot": _rotm(r)}
            except Exception as e:  # noqa
                d["to_map"] = {"err": type(e).__name__}
            if o.tracked_path is None:
                d["tracked"] = None
            else:
                d["tracked"] = [{"pos": [float(x) for x in s.position], "rot": _rotm(s.orientation),
                                 "size": [float(x) for x in s.size] if s.shape is not None else None,
                                 "vel": _vel(s.velocity)} for s in o.tracked_path]
            objs.append(d)
        fr["objects"] = objs
        out.append(fr)
    return out


def run_impl(case):
    import contextlib
    import io

    from perception_eval.common.dataset import load_all_datasets
    from perception_eval.common.evaluation_task import EvaluationTask
    from perception_eval.common.label import LabelConverter
    from perception_eval.common.schema import FrameID

    def err(e):
        return {"err": type(e).__name__, "mro": [c.__name__ for c in type(e).__mro__ if c not in (object, BaseException, Exception)]}

    root = tempfile.mkdtemp(prefix="c16_")
    results = []
    try:
        write_dataset(case, root)
        for task, frame, merge in case["configs"]:
            # set-up (public constructors) outside the try: only `load_all_datasets` - the call the property is about -
            # may turn an exception into a recorded outcome; canonicalising the frames is harness work
            et = EvaluationTask.from_value(task)
            conv = LabelConverter(et, bool(merge), "autoware")
            fid = FrameID.from_value(frame)
            try:
                with contextlib.redirect_stderr(io.StringIO()), contextlib.redirect_stdout(io.StringIO()):
                    frames = load_all_datasets([root], et, conv, fid)
            except Exception as e:
                results.append(err(e))
                continue
            results.append({"frames": _canon_frames(frames)})
        vel_direct = _vel_direct(case, root) if case.get("vel_direct") else None
        results2d = []
        for task, family, merge, frames in case.get("configs2d", []):
            et = EvaluationTask.from_value(task)
            conv = LabelConverter(et, bool(merge), family)
            try:
                fids = [FrameID.from_value(f) for f in frames]  # ids outside FrameID: a recorded rejection (2-D, correspondence only)
                with contextlib.redirect_stderr(io.StringIO()), contextlib.redirect_stdout(io.StringIO()):
                    loaded = load_all_datasets([root], et, conv, fids)
            except Exception as e:
                results2d.append(err(e))
                continue
            results2d.append({"frames": _canon_frames_2d(loaded, family)})
    finally:
        shutil.rmtree(root, ignore_errors=True)
    out = {"results": results, "results2d": results2d}
    if vel_direct is not None:
        out["vel_direct"] = vel_direct
    return out


def _fnum(x):
    """a float as JSON-able text-or-number: inf / -inf / nan as strings"""
    import math

    x = float(x)
    return "nan" if math.isnan(x) else "inf" if x == math.inf else "-inf" if x == -math.inf else x


def _vel_direct(case, root):
    """audit round 2: `_get_box_velocity` (the loader's) and the devkit's `box_velocity` called directly for EVERY annotation of the
    written dataset: token -> {"cur": None | 3 numbers/'inf'/'-inf'/'nan', "dev": likewise}"""
    import contextlib
    import io
    import warnings

    import numpy as np
    from nuscenes.nuscenes import NuScenes
    from perception_eval.common import dataset_utils

    # `_get_box_velocity` is a PRIVATE helper of /repo without a public equivalent: resolved by name; when it is gone
    # (renamed, inlined) the observation is dropped for the run (histogram `unobservable:_get_box_velocity`)
    gbv = getattr(dataset_utils, "_get_box_velocity", None)
    with contextlib.redirect_stderr(io.StringIO()), contextlib.redirect_stdout(io.StringIO()):
        nusc = NuScenes(version="annotation", dataroot=root, verbose=False)
    res = {}
    fns = [("dev", lambda t: nusc.box_velocity(t))]
    if gbv is not None:
        fns.insert(0, ("cur", lambda t: gbv(nusc, t)))
    with warnings.catch_warnings(), np.errstate(all="ignore"):
        warnings.simplefilter("ignore")
        for a in case["annotations"]:
            one = {}
            for key, fn in fns:
                try:
                    v = fn(a["token"])
                except Exception as e:  # noqa: BLE001
                    one[key] = {"err": type(e).__name__}
                    continue
                one[key] = None if v is None else [_fnum(x) for x in v]
            res[a["token"]] = one
    if gbv is None:
        res["_unobservable"] = "_get_box_velocity"
    return res


# ----------------------------------------------------------------------------- the model

def model_requests(case, out):
    keys = ["samples", "sensors", "calibrated_sensors", "ego_poses", "sample_data", "categories", "attributes",
            "visibility", "instances", "annotations"]
    tables = {k: case[k] for k in keys}
    # the float `1e-6 * timestamp` of _get_box_velocity / box_velocity, handed over exactly
    tables["samples"] = [dict(s_, secs=core.q(1e-6 * s_["timestamp"])) for s_ in case["samples"]]
    tables["object_anns"] = case.get("object_anns", [])
    req = dict(tables, op="load", configs=[{"task": t, "frame": f, "merge": bool(m)} for t, f, m in case["configs"]])
    req2 = dict(tables, op="load2d", configs=[{"task": t, "family": fam, "merge": bool(m), "frames": list(fr)}
                                              for t, fam, m, fr in case.get("configs2d", [])])
    reqs = [req, req2, dict(tables, op="tlr")]
    if case.get("vel_direct"):
        reqs.append(dict(tables, op="vel"))
    return reqs


def _qrot(qs):
    """rotation matrix (Fractions) of a rational quaternion, homogeneous form divided by the squared norm"""
    w, x, y, z = [Fraction(s) for s in qs]
    n = w * w + x * x + y * y + z * z
    if n == 0:
        return None
    return [[(w * w + x * x - y * y - z * z) / n, 2 * (x * y - w * z) / n, 2 * (x * z + w * y) / n],
            [2 * (x * y + w * z) / n, (w * w - x * x + y * y - z * z) / n, 2 * (y * z - w * x) / n],
            [2 * (x * z - w * y) / n, 2 * (y * z + w * x) / n, (w * w - x * x - y * y + z * z) / n]]


def _vclose(a, b, tol=1e-9):
    return len(a) == len(b) and all(abs(float(x) - float(y)) <= tol * max(1.0, abs(float(y))) for x, y in zip(a, b))


def _mclose(A, B, tol=1e-9):
    return A is not None and B is not None and all(_vclose(r, s, tol) for r, s in zip(A, B))


def _cmp_pose(tag, pos, rotm, mpos, mrot):
    if not _vclose(pos, [Fraction(x) for x in mpos]):
        return f"{tag}: position impl {pos} != model {[float(Fraction(x)) for x in mpos]}"
    if not _mclose(rotm, _qrot(mrot)):
        return f"{tag}: orientation impl {rotm} != model quaternion {mrot}"
    return None


def _vel_tol(case):
    """relative tolerance of the velocity comparison.  The code divides by `1e-6 * t_last - 1e-6 * t_first` (float
    seconds, t ~ 1.6e9 s, one ulp = 2.4e-7 s); the mathematically identical `1e-6 * (t_last - t_first)` differs from it by
    up to 2 ulp(t) ABSOLUTE, i.e. 2 ulp(t) / dt relative (4e-6 for dt = 0.1 s) - velocities are not in the property
    text, so every float spelling of the same quotient must pass: max(1e-9, 4 ulp(t) / smallest sample gap)."""
    import math

    ts = sorted({s_["timestamp"] for s_ in case["samples"]})
    if len(ts) < 2:
        return 1e-9
    gap = min(b - a for a, b in zip(ts, ts[1:])) * 1e-6
    return max(1e-9, 4 * math.ulp(1e-6 * ts[-1]) / gap)


def _vel_near_bound(case):
    """is some pair of samples exactly (within 1 us) 1.5 s or 3 s apart?  There the `time_diff > max_time_diff` decision of
    the velocity functions depends on the float spelling of the difference (not comparable: counted skip)"""
    ts = sorted({s_["timestamp"] for s_ in case["samples"]})
    return any(abs((b - a) - lim) <= 1 for i, a in enumerate(ts) for b in ts[i + 1:] for lim in (1_500_000, 3_000_000))


def _cmp_vel(tag, v, m, lenient=False, tol=1e-9):
    if lenient and m is not None and all(Fraction(x) == 0 for x in m) and (v is None or any(x != x or abs(x) == float("inf") for x in v)):
        # `vel_direct` case, division by a zero time difference: the load model (total division) says 0 where Python says
        # inf / nan (all-nan is canonicalised to None); the outcome itself is compared by _compare_vel_direct
        return None
    if (v is None) != (m is None):
        return f"{tag}: velocity impl {v} != model {m}"
    if v is not None and not _vclose(v, [Fraction(x) for x in m], tol):
        return f"{tag}: velocity impl {v} != model {[float(Fraction(x)) for x in m]}"
    return None


class _Soft:
    """first disagreement about something the property does not observe / an input outside its quantifier: the
    comparison goes on, and if nothing inside the property disagrees the case is a counted "skip" """

    def __init__(self):
        self.why = None
        self.kind = None

    def note(self, d, kind="other"):
        if d and self.why is None:
            self.why = d
            self.kind = kind


# reasons of the counted skips, for the evidence file only (`extra_evidence`); never read by a verdict
_SKIP_REASONS = {}


def _skip(kind):
    _SKIP_REASONS[kind] = _SKIP_REASONS.get(kind, 0) + 1
    return "skip"


def extra_evidence():
    return {"skipped_by_reason": dict(sorted(_SKIP_REASONS.items()))}


def _rejected_vs_loaded(tag, a, b):
    """raised-vs-returned only: the text names no exception class ("rejected" at most)"""
    if ("err" in a) != ("err" in b):
        return f"{tag}: impl {a.get('err', 'loads')} != model {b.get('err', 'loads')}"
    return None


def _compare_2d(case, out, resp):
    """2-D tasks are OUTSIDE the property's quantifier (detection / tracking / sensing): every disagreement here is soft"""
    mres = resp.get("results") if resp else None
    if mres is None or len(mres) != len(out["results2d"]):
        return f"model answered {resp}"
    for cfg, a, b in zip(case["configs2d"], out["results2d"], mres):
        tag = "2d:" + "/".join(map(str, cfg))
        if "err" in a or "err" in b:
            d = _rejected_vs_loaded(tag, a, b)
            if d:
                return d
            continue
        fa, fb = a["frames"], b["frames"]
        if len(fa) != len(fb):
            return f"{tag}: {len(fa)} frames != model {len(fb)}"
        for i, (x, y) in enumerate(zip(fa, fb)):
            t2 = f"{tag} frame {i}"
            if x["t"] != y["t"]:
                return f"{t2}: time impl {x['t']} != model {y['t']}"
            if (x["ego2map"] is None) != (y["ego2map"] is None):
                return f"{t2}: ego2map impl {x['ego2map']} != model {y['ego2map']}"
            if x["ego2map"] is not None:
                d = _cmp_pose(t2 + " ego2map", x["ego2map"]["pos"], x["ego2map"]["rot"], y["ego2map"]["pos"], y["ego2map"]["rot"])
                if d:
                    return d
            xo, yo = x["objects"], y["objects"]
            if len(xo) != len(yo):
                return f"{t2}: {len(xo)} objects != model {len(yo)}"
            # no order is stated: compare as a multiset keyed by (uuid, frame, roi)
            key = lambda o: (str(o["uuid"]), str(o["frame"]), str(o["roi"]))  # noqa: E731
            xo, yo = sorted(xo, key=key), sorted(yo, key=key)
            for j, (o, m) in enumerate(zip(xo, yo)):
                for k in ("uuid", "label", "name", "roi", "frame", "time"):
                    if o[k] != m[k]:
                        return f"{t2} object {j}: {k} impl {o[k]!r} != model {m[k]!r}"
                if sorted(o["attrs"]) != sorted(m["attrs"]):
                    return f"{t2} object {j}: attrs impl {o['attrs']!r} != model {m['attrs']!r}"
    return None


def _tlr_dots(case):
    """exact 4-D dot products of the later traffic-light cameras' calibrated rotations with the first one's"""
    rots = [[Fraction(v) for v in c["rotation"]] for c in _tlr_calibs(case)]
    return [sum(a * b for a, b in zip(rots[0], r)) for r in rots[1:]]


def _compare_tlr(case, out, resp):
    """the averaged traffic-light camera stored with every loaded frame that has transforms vs the model's
    (mean position, sum of the sign-aligned rotations): same rotation matrix, same position.  NOT an observable of the
    property (DESIGN section 6: left out) - every disagreement here is soft."""
    if resp is None or "tlr" not in resp:
        return None  # the model's _get_transforms fails: no frame with transforms exists
    m = resp["tlr"]
    frames = [("/".join(map(str, cfg)), i, fr) for cfg, res in zip(case["configs"], out["results"]) for i, fr in enumerate(res.get("frames", []))]
    frames += [("2d:" + "/".join(map(str, cfg)), i, fr) for cfg, res in zip(case.get("configs2d", []), out["results2d"])
               for i, fr in enumerate(res.get("frames", [])) if fr["ego2map"] is not None]
    for tag, i, fr in frames:
        x = fr["tlr2ego"]
        if (x is None) != (m is None):
            return f"{tag} frame {i}: averaged traffic-light camera impl {x} != model {m}"
        if x is not None:
            d = _cmp_pose(f"{tag} frame {i} averaged traffic-light camera", x["pos"], x["rot"], m["pos"], m["rot"])
            if d:
                return d
    return None


def compare(case, out, resps):
    """hard = a disagreement about what C16 states, on an input inside its quantifier -> reported;
    soft = everything else the model also describes (2-D tasks, fp_validation, the averaged traffic-light camera, the
    history window / cap, non-levels of visibility, the named rejections of ill-formed datasets, contract families,
    velocity decisions at the float-dependent bounds) -> the case is a counted "skip" when only such things differ"""
    if "results" not in out:
        return f"the real code raised {out.get('err')} outside load_all_datasets"
    soft = _Soft()
    d = _compare_main(case, out, resps, soft)
    if d:
        return _skip("contract-family:" + case["contract"]) if case.get("contract") in NOT_JUDGED else d
    if case.get("configs2d"):
        soft.note(_compare_2d(case, out, resps[1] if len(resps) > 1 else None), "2d-task")
    soft.note(_compare_tlr(case, out, resps[2] if len(resps) > 2 else None), "traffic-light-camera-average")
    if case.get("vel_direct"):
        d = _compare_vel_direct(case, out, resps[3] if len(resps) > 3 else None)
        if d:
            return d
    return _skip(soft.kind) if soft.why else None


def _compare_vel_direct(case, out, resp):
    """per annotation: Python's outcome of the two velocity functions against the model's `velocityPy`.  none <-> None / the all-nan
    vector; finite <-> three numbers within the velocity tolerance; div0 <-> three non-finite components, each inf / -inf / nan by the sign of the
    model's displacement component (`dev`: exactly; `cur`: its displacement went through a float matrix inverse, so the sign is
    compared only where the model's component is not within 1e-6 of 0)"""
    vd = out.get("vel_direct")
    if resp is None or "vel" not in resp or not isinstance(vd, dict):
        return f"velocity (direct): impl {'ok' if isinstance(vd, dict) else vd} / model {resp if resp is None or 'vel' not in resp else 'ok'}"
    toks = [a["token"] for a in case["annotations"]]
    if len(set(toks)) != len(toks):
        return None  # duplicate tokens: `nusc.get` answers the LAST record, the op lists every record
    tol = _vel_tol(case)
    near = _vel_near_bound(case)
    for row in resp["vel"]:
        tok = row["token"]
        for key in ("cur", "dev"):
            if key not in vd[tok]:
                continue  # unobservable (private helper gone)
            v, m = vd[tok][key], row[key]
            tag = f"velocity (direct) {key} of {tok}"
            if isinstance(v, dict) or (isinstance(m, dict) and "err" in m):
                if not (isinstance(v, dict) and isinstance(m, dict) and "err" in m):
                    return f"{tag}: impl {v} != model {m}"
                continue
            is_nan3 = v is not None and all(x == "nan" for x in v)
            if m is None:
                if not (v is None or (key == "dev" and is_nan3)):
                    if near:
                        return _skip("velocity-at-time-bound")
                    return f"{tag}: impl {v} != model no estimate"
                continue
            if isinstance(m, dict):  # division by a zero time difference
                if v is None or any(not isinstance(x, str) for x in v):
                    return f"{tag}: impl {v} != model division by zero {m['comps']}"
                for x, c, dcomp in zip(v, m["comps"], m["div0"]):
                    if key == "cur" and abs(float(Fraction(dcomp))) < 1e-6:
                        continue
                    if x != c:
                        return f"{tag}: impl {v} != model {m['comps']} (displacement {m['div0']})"
                continue
            if (v is None or is_nan3) and near:
                return _skip("velocity-at-time-bound")
            if v is None or any(isinstance(x, str) for x in v) or not _vclose(v, [Fraction(x) for x in m], tol):
                return f"{tag}: impl {v} != model {[float(Fraction(x)) for x in m]}"
    return None


def _by_uuid(objs):
    """objects of one frame keyed for an order-free comparison ("one object per annotation": a bijection, no order is
    stated); stable, so objects sharing a uuid (contract family dup-instance) keep their relative order"""
    return sorted(objs, key=lambda o: str(o["uuid"]))


def _compare_main(case, out, resps, soft):
    mres = resps[0].get("results")
    if mres is None or len(mres) != len(out["results"]):
        return f"model answered {resps[0]}"
    S = case["samples"]
    ill_formed = (not S) or any(_picked_lidar_safe(case, s_["token"]) is None for s_ in S)
    odd_levels = _unknown_levels(case)
    vtol = _vel_tol(case)
    vnear = _vel_near_bound(case)
    lenient = bool(case.get("vel_direct"))
    for cfg, a, b in zip(case["configs"], out["results"], mres):
        tag = "/".join(map(str, cfg))
        # inside the quantifier: detection / tracking / sensing on a well-formed dataset
        inq = cfg[0] in TASKS and not ill_formed
        if "err" in a or "err" in b:
            d = _rejected_vs_loaded(tag, a, b)
            if d:
                if not inq or odd_levels:
                    # the named rejections of ill-formed datasets, fp_validation, non-levels of visibility
                    soft.note(d, "acceptance:" + ("fp_validation" if cfg[0] not in TASKS else "ill-formed-dataset" if ill_formed else "visibility-non-level"))
                else:
                    return d
            continue
        d = _compare_config(case, cfg, tag, a, b, soft, odd_levels, vtol, vnear, lenient)
        if d:
            if not inq:
                soft.note(d, "fp_validation" if cfg[0] not in TASKS else "ill-formed-dataset")
            else:
                return d
    return None


def _picked_lidar_safe(case, tok):
    try:
        return _picked_lidar(case, tok)
    except KeyError:
        return "?"  # dangling references (contract families): not the "no lidar" shape


def _compare_config(case, cfg, tag, a, b, soft, odd_levels, vtol, vnear, lenient):
    vis_level = {v["token"]: v["level"] for v in case["visibility"]}
    ann_level = {}
    for an in case["annotations"]:
        ann_level.setdefault((an["sample_token"], an["instance_token"]), vis_level.get(an["visibility_token"]))
    fa, fb = a["frames"], b["frames"]
    if len(fa) != len(fb):
        return f"{tag}: {len(fa)} frames != model {len(fb)}"
    for i, (x, y) in enumerate(zip(fa, fb)):
        t2 = f"{tag} frame {i}"
        if x["t"] != y["t"]:  # (frame_name is not an observable of the property: not compared)
            return f"{t2}: time impl {x['t']} != model {y['t']}"
        if x["ego2map"] is None:
            return f"{t2}: no base_link->map transform stored"
        d = _cmp_pose(t2 + " ego2map", x["ego2map"]["pos"], x["ego2map"]["rot"], y["ego2map"]["pos"], y["ego2map"]["rot"])
        if d:
            return d
        if len(x["objects"]) != len(y["objects"]):
            return f"{t2}: {len(x['objects'])} objects != model {len(y['objects'])}"
        stok = case["samples"][i]["token"] if i < len(case["samples"]) else None
        for j, (o, m) in enumerate(zip(_by_uuid(x["objects"]), _by_uuid(y["objects"]))):
            t3 = f"{t2} object {o['uuid']}"
            for k in ("uuid", "label", "name", "pts", "frame", "time"):
                if o[k] != m[k]:
                    return f"{t3}: {k} impl {o[k]!r} != model {m[k]!r}"
            if sorted(o["attrs"]) != sorted(m["attrs"]):
                return f"{t3}: attrs impl {o['attrs']!r} != model {m['attrs']!r}"
            if o["vis"] != m["vis"]:
                d = f"{t3}: vis impl {o['vis']!r} != model {m['vis']!r}"
                if odd_levels and ann_level.get((stok, o["uuid"])) not in KNOWN_LEVELS:
                    soft.note(d, "visibility-non-level")  # not a visibility level: no claim
                else:
                    return d
            if not _vclose(o["size"], [Fraction(s) for s in m["size"]]):
                return f"{t3}: size impl {o['size']} != model {m['size']}"
            d = _cmp_pose(t3, o["pos"], o["rot"], m["pos"], m["rot"])
            if d:
                return d
            d = _cmp_vel(t3, o["vel"], m["vel"], lenient, vtol)
            if d:
                if vnear and (o["vel"] is None) != (m["vel"] is None):
                    soft.note(d, "velocity-at-time-bound")
                else:
                    return d
            if cfg[0] != "tracking":
                continue  # "tracking tasks additionally expose ..." - nothing is stated about a history elsewhere
            if (o["tracked"] is None) != (m["tracked"] is None):
                return f"{t3}: tracked impl {o['tracked']} != model {m['tracked']}"
            if o["tracked"] is not None:
                if len(o["tracked"]) != len(m["tracked"]):
                    # HOW FAR BACK the history reaches (devkit: < 3.15 s, at most 6 states) is not in the text
                    soft.note(f"{t3}: history length impl {len(o['tracked'])} != model {len(m['tracked'])}", "history-reach")
                for h, (p, r) in enumerate(zip(o["tracked"], m["tracked"])):
                    d = _cmp_pose(f"{t3} history {h}", p["pos"], p["rot"], r["pos"], r["rot"])
                    if d:
                        return d
                    if p["size"] is None or not _vclose(p["size"], [Fraction(s) for s in r["size"]]):
                        return f"{t3} history {h}: size impl {p['size']} != model {r['size']}"
                    d = _cmp_vel(f"{t3} history {h}", p["vel"], r["vel"], lenient, vtol)
                    if d:
                        if vnear and (p["vel"] is None) != (r["vel"] is None):
                            soft.note(d, "velocity-at-time-bound")
                        else:
                            return d
    return None


# ----------------------------------------------------------------------------- the oracle (independent of the model)

def _np_rot(qs):
    """numpy rotation matrix of the quaternion written to the dataset (floats, normalised)"""
    import numpy as np

    w, x, y, z = _fl(qs)
    n = w * w + x * x + y * y + z * z
    return np.array([[w * w + x * x - y * y - z * z, 2 * (x * y - w * z), 2 * (x * z + w * y)],
                     [2 * (x * y + w * z), w * w - x * x + y * y - z * z, 2 * (y * z - w * x)],
                     [2 * (x * z - w * y), 2 * (y * z + w * x), w * w - x * x - y * y + z * z]]) / n


def _label_infos(task, merge, family):
    """the (label member name, category name) pairs of a converter, read through the PUBLIC `LabelConverter(...).label_infos`
    (the module-private pair functions of label.py are not touched: renaming them must not concern this check)"""
    from perception_eval.common.evaluation_task import EvaluationTask
    from perception_eval.common.label import LabelConverter

    conv = LabelConverter(EvaluationTask.from_value(task), bool(merge), family)
    return [(getattr(i.label, "name", repr(i.label)), i.name) for i in conv.label_infos]


def _pairs(merge):
    return _label_infos("detection", merge, "autoware")


def _expected_label(name, merge, memo=None):
    """the label an annotation category must get. Independent of the code under test for every documented name:
    docs/en/perception/label.md (frozen in harness/props/c14.py) + the documented merging; the live table (public
    `LabelConverter.label_infos`) is consulted only for names the documentation does not list.  `memo`: a dict that lives
    for one oracle / branches call (the live tables are read once per call)"""
    from .c14 import DOC_NAME2LABEL, MERGE

    memo = {} if memo is None else memo

    def pairs(m):
        if ("pairs", bool(m)) not in memo:
            memo[("pairs", bool(m))] = _pairs(bool(m))
        return memo[("pairs", bool(m))]

    low = name.lower()
    doc = DOC_NAME2LABEL.get(low)
    if doc is not None and (doc != "UNKNOWN" or low in {n for _, n in pairs(False)}):
        return MERGE.get(doc, doc) if merge else doc
    for lab, n in pairs(merge):
        if low == n:
            return lab
    return "UNKNOWN"


KNOWN_LEVELS = {"full": "FULL", "most": "MOST", "partial": "PARTIAL", "none": "NONE", "not available": "UNAVAILABLE",
                "v0-40": "NONE", "v40-60": "PARTIAL", "v60-80": "MOST", "v80-100": "FULL"}


def _expected_visibility(level):
    """schema.Visibility's documented reading of a level string; None = not one of the documented visibility levels
    (the quantifier says "all visibility levels": strings such as 'v10-20', '', 'FULL', 'unknown' are not levels, the
    property makes no claim about them - today they load as UNAVAILABLE, which is compared with the model only)"""
    return KNOWN_LEVELS.get(level)


def _model_visibility(level):
    """what the unchanged code does (histogram only)"""
    return KNOWN_LEVELS.get(level, "UNAVAILABLE")


def _unknown_levels(case):
    """does an annotation refer to a visibility level outside the documented ones?"""
    vis = {v["token"]: v["level"] for v in case["visibility"]}
    return bool(vis) and any(vis.get(a["visibility_token"]) not in KNOWN_LEVELS for a in case["annotations"])


def _picked_lidar(case, sample_token):
    """the key-frame sample_data of the sample for LIDAR_TOP, else LIDAR_CONCAT (None: the sample has no lidar)"""
    sen = {s["token"]: s for s in case["sensors"]}
    cs = {c["token"]: c for c in case["calibrated_sensors"]}
    by = {}
    for x in case["sample_data"]:
        if x["sample_token"] == sample_token and x["is_key_frame"]:
            by[sen[cs[x["calibrated_sensor_token"]]["sensor_token"]]["channel"]] = x
    return by.get("LIDAR_TOP", by.get("LIDAR_CONCAT"))


NOT_JUDGED = {"dup-token", "dup-instance", "lidar-offset", "bad-channel", "stale-uuid"}


def _pairs_2d(task, family, merge):
    return _label_infos(task, merge, family)


def _expected_2d(case, cfg, s, chan=None):
    """the 2-D annotations of sample `s` on the requested cameras, in object_ann order, with the camera they belong to"""
    chan = chan or _channels(case)
    key = {}
    for x in case["sample_data"]:
        if x["sample_token"] == s["token"] and x["is_key_frame"]:
            key[chan[x["token"]]] = x["token"]
    found = {}
    for f in cfg[3]:
        if f.upper() in key:
            found[key[f.upper()]] = f.upper()
    return [(o, found[o["sample_data_token"]]) for o in case["object_anns"] if o["sample_data_token"] in found]


def oracle(case, out):
    """the statement of C16 on the loaded frames.  No claim (deliberately) about: the 2-D tasks and fp_validation (outside
    the quantifier "detection/tracking/sensing tasks"), the averaged traffic-light camera transform (not in the statement;
    only "loading a well-formed dataset does not raise" follows from it - fixed finding C16-N1), velocities, frame names,
    the order of the objects of a frame, how far back a tracking history reaches, a history on non-tracking tasks,
    visibility strings that are not visibility levels, ill-formed datasets (no sample / no lidar key frame)."""
    import numpy as np

    if case.get("contract") in NOT_JUDGED:
        return None
    if "results" not in out:
        return None  # not an output of run_impl (an exception escaped it: reported by run_check itself)
    S = case["samples"]
    inst = {i["token"]: i for i in case["instances"]}
    cat = {c["token"]: c for c in case["categories"]}
    att = {a["token"]: a for a in case["attributes"]}
    vis = {v["token"]: v for v in case["visibility"]}
    ego = {e["token"]: e for e in case["ego_poses"]}
    s_index = {s["token"]: i for i, s in enumerate(S)}
    s_time = {s["token"]: s["timestamp"] for s in S}
    memo = {}
    odd_levels = _unknown_levels(case)
    for cfg, res in zip(case["configs"], out["results"]):
        task, frame, merge = cfg
        tag = "/".join(map(str, cfg))
        if task == "fp_validation":
            continue  # outside the property's quantifier; compared with the model only
        if not S:
            # "one ground-truth frame per sample": no sample, no frame.  Rejecting the empty dataset (today:
            # DatasetLoadingError) is as good - the text names no exception class
            if "err" not in res and len(res["frames"]) != 0:
                return f"{tag}: {len(res['frames'])} frames loaded from a dataset without samples"
            continue
        if any(_picked_lidar(case, s["token"]) is None for s in S):
            continue  # no lidar key frame: outside the property's domain ("lidar calibrated at the ego origin"), no claim
        if "err" in res:
            if odd_levels:
                continue  # a visibility string that is no visibility level: not one of "all visibility levels", no claim
            return f"{tag}: loading a well-formed dataset raised {res['err']}"
        frames = res["frames"]
        if len(frames) != len(S):
            return f"{tag}: {len(frames)} frames for {len(S)} samples"
        for i, (s, fr) in enumerate(zip(S, frames)):
            t2 = f"{tag} frame {i}"
            if fr["t"] != s["timestamp"]:
                return f"{t2}: timestamp {fr['t']} != sample's {s['timestamp']} (order or time wrong)"
            anns = [a for a in case["annotations"] if a["sample_token"] == s["token"]]
            if len(fr["objects"]) != len(anns):
                return f"{t2}: {len(fr['objects'])} objects for {len(anns)} annotations"
            sd = _picked_lidar(case, s["token"])
            e = ego[sd["ego_pose_token"]]
            Re, te = _np_rot(e["rotation"]), np.array(_fl(e["translation"]))
            # the stored ego->map transform is the ego pose of the lidar key frame
            em = fr["ego2map"]
            if em is None:
                return f"{t2}: no base_link->map transform stored with the frame"
            M = np.eye(4)
            M[:3, :3], M[:3, 3] = Re, te
            if not np.allclose(np.array(em["matrix"]), M, rtol=0, atol=1e-9 * max(1.0, np.abs(te).max())):
                return f"{t2}: stored ego->map transform {em['matrix']} is not the lidar key frame's ego pose {M.tolist()}"
            # one object per annotation; the loader keeps the devkit's (= annotation table) order, the property
            # only asks for a bijection: match by instance id
            objs = {}
            for o in fr["objects"]:
                if o["uuid"] in objs:
                    return f"{t2}: two objects carry instance id {o['uuid']}"
                objs[o["uuid"]] = o
            for a in anns:
                o = objs.get(a["instance_token"])
                t3 = f"{t2} annotation {a['token']}"
                if o is None:
                    return f"{t3}: no object carries its instance id {a['instance_token']}"
                cname = cat[inst[a["instance_token"]]["category_token"]]["name"]
                want = _expected_label(cname, merge, memo)
                if o["label"] != want:
                    return f"{t3}: label {o['label']} for category {cname!r}, expected {want} (merge={merge})"
                wa = [att[t]["name"] for t in a["attribute_tokens"]]
                if sorted(o["attrs"]) != sorted(wa):  # "that annotation's ... attributes": no order stated
                    return f"{t3}: attributes {o['attrs']} != {wa}"
                if not _vclose(o["size"], _fl(a["size"]), 1e-12):
                    return f"{t3}: size {o['size']} != annotated (w,l,h) {_fl(a['size'])}"
                if o["pts"] != a["num_lidar_pts"]:
                    return f"{t3}: point count {o['pts']} != {a['num_lidar_pts']}"
                if case["visibility"]:
                    wv = _expected_visibility(vis[a["visibility_token"]]["level"])
                    if wv is not None and o["vis"] != wv:  # wv None: not a visibility level, no claim
                        return f"{t3}: visibility {o['vis']} != {wv} (level {vis.get(a['visibility_token'], {}).get('level')!r})"
                elif o["vis"] is not None:
                    return f"{t3}: visibility {o['vis']} although the dataset has no visibility table"
                if o["time"] != s["timestamp"] or o["frame"] != frame.upper():
                    return f"{t3}: object stamped {(o['time'], o['frame'])}, expected {(s['timestamp'], frame.upper())}"
                pa, Ra = np.array(_fl(a["translation"])), _np_rot(a["rotation"])
                scale = max(1.0, np.abs(pa).max())
                if frame == "map":
                    if not (np.allclose(o["pos"], pa, rtol=0, atol=1e-9 * scale) and np.allclose(o["rot"], Ra, rtol=0, atol=1e-9)):
                        return f"{t3}: map-frame pose {o['pos']} / {o['rot']} != annotated global pose {pa.tolist()} / {Ra.tolist()}"
                else:
                    wp, wr = Re.T @ (pa - te), Re.T @ Ra
                    if not (np.allclose(o["pos"], wp, rtol=0, atol=1e-9 * scale) and np.allclose(o["rot"], wr, rtol=0, atol=1e-9)):
                        return f"{t3}: ego-frame pose {o['pos']} / {o['rot']} != global pose moved by the inverse ego pose {wp.tolist()} / {wr.tolist()}"
                tm = o["to_map"]
                if "err" in tm or not (np.allclose(tm["pos"], pa, rtol=0, atol=1e-9 * scale) and np.allclose(tm["rot"], Ra, rtol=0, atol=1e-9)):
                    return f"{t3}: the frame's stored transforms map the object to {tm}, not onto the annotated global pose {pa.tolist()}"
                # "tracking tasks additionally expose the poses the same instance had in the preceding samples": the exposed
                # states are the instance's preceding annotations, nearest first, WITHOUT a gap (a prefix of them).  How far
                # back the loader looks (devkit: < 3 s + 0.15 s, at most 6 states) is not in the text; only that the nearest
                # one is there when it lies in the immediately preceding sample, at most 1 s back
                if task == "tracking":
                    if o["tracked"] is None:
                        return f"{t3}: tracking task exposes no history"
                    past = [b for b in case["annotations"] if b["instance_token"] == a["instance_token"] and s_index[b["sample_token"]] < i]
                    past.sort(key=lambda b: -s_index[b["sample_token"]])
                    if len(o["tracked"]) > len(past):
                        return f"{t3}: history has {len(o['tracked'])} states, the instance has only {len(past)} preceding annotations"
                    if past and not o["tracked"] and s_index[past[0]["sample_token"]] == i - 1 and s["timestamp"] - s_time[past[0]["sample_token"]] <= 1_000_000:
                        return f"{t3}: empty history although the instance is annotated in the preceding sample ({past[0]['token']})"
                    for h, b in zip(o["tracked"], past):
                        pb, Rb = np.array(_fl(b["translation"])), _np_rot(b["rotation"])
                        if not (np.allclose(h["pos"], pb, rtol=0, atol=1e-9 * scale) and np.allclose(h["rot"], Rb, rtol=0, atol=1e-9)
                                and (h["size"] is None or _vclose(h["size"], _fl(b["size"]), 1e-12))):
                            return f"{t3}: history state {h} is not the pose/size of the preceding annotation {b['token']}"
    return None


# ----------------------------------------------------------------------------- histogram, shrinking, search

def branches(case, out):
    br = []
    S, A = case["samples"], case["annotations"]
    if "results" not in out:
        return ["err:unexpected"]
    if not S:
        return ["err:no-samples"]
    for e in sorted({r.get("err") for r in out["results"] if "err" in r}):
        br.append(f"err:{e}")
    memo = {}
    if not A:
        br.append("trivial")
    br.append(f"samples:{len(S)}")
    vd = out.get("vel_direct")
    if isinstance(vd, dict):
        kinds = set()
        if vd.get("_unobservable"):
            kinds.add("unobservable:" + vd["_unobservable"])
        for tok_, one in vd.items():
            if tok_ == "_unobservable":
                continue
            for key in ("cur", "dev"):
                if key not in one:
                    continue
                v = one.get(key)
                kinds.add(f"vel-direct:{key}:" + ("none" if v is None or (isinstance(v, list) and all(x == "nan" for x in v))
                                                   else "err" if isinstance(v, dict)
                                                   else "div0" if any(isinstance(x, str) for x in v) else "finite"))
        br.extend(sorted(kinds))
    br.append(f"json-numbers:{case.get('json_ints') or 'floats'}")
    if case.get("json_ints") in ("all", True):
        picked = [_picked_lidar(case, s_["token"]) for s_ in S]
        egos = {e["token"]: e for e in case["ego_poses"]}
        pe = [egos[x["ego_pose_token"]] for x in picked if x is not None and x["ego_pose_token"] in egos]
        if any(_is_integral(e["translation"]) and not _is_integral(e["rotation"]) for e in pe):
            br.append("json-numbers:picked-ego-translation-all-int+rotation-fractional")
        if all(_is_integral(e["translation"]) for e in case["ego_poses"]) and any(_is_integral(a["translation"]) for a in A):
            br.append("json-numbers:annotation-translation-all-int")
        if any(_is_integral(a["size"]) for a in A):
            br.append("json-numbers:size-all-int")
    br.append(f"instances:{min(len(case['instances']), 6)}")
    chans = {s["channel"] for s in case["sensors"]}
    br.append("lidar:" + ("both" if {"LIDAR_TOP", "LIDAR_CONCAT"} <= chans else "top" if "LIDAR_TOP" in chans else "concat" if "LIDAR_CONCAT" in chans else "none"))
    br.append(f"sensors:{len(case['sensors'])}")
    tl = _tlr_calibs(case)
    br.append(f"tlr-cams:{min(len(tl), 3)}")
    if len(tl) >= 2:
        rots = [[Fraction(v) for v in c["rotation"]] for c in tl]
        for r, d in zip(rots[1:], _tlr_dots(case)):
            anti = all(a == -b for a, b in zip(rots[0], r))
            br.append("tlr:antipodal(q,-q)" if anti else "tlr:nearly-antipodal" if d < Fraction(-9, 10) else "tlr:negated" if d < 0
                      else "tlr:orthogonal" if d == 0 else "tlr:equal" if r == rots[0] else "tlr:near" if d > Fraction(9, 10) else "tlr:kept")
        if all(sum(r[k] for r in rots) == 0 for k in range(4)):
            br.append("tlr:plain-sum-zero")
        if len(rots) >= 3:
            dot = lambda a, b: sum(x * y for x, y in zip(a, b))  # noqa: E731
            r1 = rots[1] if dot(rots[0], rots[1]) >= 0 else [-v for v in rots[1]]
            if dot(rots[0], rots[2]) * dot(r1, rots[2]) < 0:
                br.append("tlr:first-vs-previous-differ")
    if any(fr.get("tlr2ego") is not None for res in out["results"] + out.get("results2d", []) for fr in res.get("frames", [])):
        br.append("tlr:average-stored")
    if any(not x["is_key_frame"] for x in case["sample_data"]):
        br.append("has-sweeps")
    br.append("visibility-table:" + ("empty" if not case["visibility"] else "present"))
    cat = {c["token"]: c["name"] for c in case["categories"]}
    inst = {i["token"]: cat[i["category_token"]] for i in case["instances"]}
    names = {inst[a["instance_token"]] for a in A}
    tbl = {n for _, n in memo.setdefault(("pairs", False), _pairs(False))}
    if any(n.lower() in tbl for n in names):
        br.append("category:in-table")
    if any(n.lower() in tbl and n != n.lower() for n in names):
        br.append("category:in-table-mixed-case")
    if any(n.lower() not in tbl for n in names):
        br.append("category:outside-table")
    if any(_expected_label(n, True, memo) != _expected_label(n, False, memo) for n in names):
        br.append("category:merge-sensitive")
    vis = {v["token"]: v["level"] for v in case["visibility"]}
    if vis:
        for a in A:
            br.append("vis:" + _model_visibility(vis[a["visibility_token"]]))
            if vis[a["visibility_token"]] not in LEVELS[:9]:
                br.append("vis:unknown-level")
    br = list(dict.fromkeys(br))
    if any(a["num_lidar_pts"] == 0 for a in A):
        br.append("pts:0")
    if any(len(a["attribute_tokens"]) >= 2 for a in A):
        br.append("attrs:2")
    if any(a["prev"] for a in A):
        br.append("instance-continues")
    order = {s["token"]: i for i, s in enumerate(S)}
    by = {}
    for a in A:
        by.setdefault(a["instance_token"], []).append(order[a["sample_token"]])
    if any(sorted(v) != list(range(min(v), max(v) + 1)) for v in by.values()):
        br.append("instance-reappears")
    if any(min(v) > 0 for v in by.values()):
        br.append("instance-appears-late")
    if any(max(v) < len(S) - 1 for v in by.values()):
        br.append("instance-disappears")
    if any(any(Fraction(x) != 0 for x in a["rotation"][1:3]) for a in A):
        br.append("rot:3d-object")
    if any(any(Fraction(x) != 0 for x in e["rotation"][1:3]) for e in case["ego_poses"]):
        br.append("rot:3d-ego")
    # the ego pose the loader actually uses (picked lidar key frame) has roll/pitch, in a base_link config that loaded
    egos = {e["token"]: e for e in case["ego_poses"]}
    try:
        picked = [_picked_lidar(case, s_["token"]) for s_ in S]
    except KeyError:
        picked = []
    if any(sd is not None and sd["ego_pose_token"] in egos and
           any(Fraction(x) != 0 for x in egos[sd["ego_pose_token"]]["rotation"][1:3]) for sd in picked):
        if any(cfg[1] == "base_link" and "frames" in r and any(f["objects"] for f in r["frames"])
               for cfg, r in zip(case["configs"], out["results"])):
            br.append("rot:3d-ego-picked-lidar/base_link-objects")
    if case.get("contract"):
        br.append("contract:" + case["contract"] + (":" + case["dup_table"] if case.get("dup_table") else ""))
    # devkit fact ANNS: some sample lists its annotations in another order than the instances
    io = {i["token"]: k for k, i in enumerate(case["instances"])}
    for s_ in S:
        ks = [io.get(a["instance_token"], -1) for a in A if a["sample_token"] == s_["token"]]
        if len(ks) >= 2 and ks != sorted(ks):
            br.append("contract:anns-order")
            break
    # velocities
    for r, cfg in zip(out["results"], case["configs"]):
        if "frames" not in r:
            continue
        if cfg[0] == "fp_validation":
            br.append("fp_validation:loaded")
        for f in r["frames"]:
            for o in f["objects"]:
                br.append("vel:some" if o["vel"] is not None else "vel:none")
                for h in (o["tracked"] or []):
                    br.append("tvel:some" if h["vel"] is not None else "tvel:nan")
    for r, cfg in zip(out["results"], case["configs"]):
        if cfg[0] == "fp_validation" and r.get("err") == "ValueError":
            br.append("fp_validation:rejected")
    by_tok = {a["token"]: a for a in A}
    s_time0 = {s_["token"]: s_["timestamp"] for s_ in S}
    for a in A:
        first = by_tok.get(a["prev"], a) if a["prev"] else a
        last = by_tok.get(a["next"], a) if a["next"] else a
        if first is last:
            br.append("vel:no-neighbour")
            continue
        dt = s_time0[last["sample_token"]] - s_time0[first["sample_token"]]
        both = bool(a["prev"]) and bool(a["next"])
        lim = 3_000_000 if both else 1_500_000
        br.append(("vel:centred" if both else "vel:one-sided") + (":at-bound" if dt == lim else ":beyond" if dt > lim else ":within"))
    if S and all(s_["timestamp"] % 15_625 == 0 for s_ in S):
        br.append("time:grid-exact")
    # 2-D
    for cfg, r in zip(case.get("configs2d", []), out.get("results2d", [])):
        task, fam, merge, frames = cfg
        br.append(f"2d:{task}/{fam}")
        br.append(f"2d:frames:{min(len(frames), 3)}")
        if "err" in r:
            br.append("2d:err:" + r["err"])
            continue
        objs = [o for f in r["frames"] for o in f["objects"]]
        if not objs:
            br.append("2d:no-objects")
        if any(f["ego2map"] is None for f in r["frames"]):
            br.append("2d:no-transform")
        if fam == "traffic_light" and task == "classification2d" and objs:
            br.append("2d:merged")
        if fam == "traffic_light" and task == "classification2d" and not case.get("contract"):
            pairs = _pairs_2d(task, fam, merge)
            cat = {c["token"]: c["name"] for c in case["categories"]}
            iname = {}
            for i_ in case["instances"]:
                iname.setdefault(i_["token"], i_.get("instance_name", ""))
            for s_ in S:
                groups = {}
                for a, _cam in _expected_2d(case, cfg, s_):
                    lab = next((l for l, n in pairs if cat[a["category_token"]].lower() == n), "UNKNOWN")
                    groups.setdefault(iname.get(a["instance_token"], "").split(":")[-1], []).append(lab)
                for labs in groups.values():
                    if len(labs) < 2:
                        br.append("2d:merge:single")
                    elif len(set(labs)) == 1:
                        br.append("2d:merge:agree")
                    elif len(set(labs)) > 2:
                        br.append("2d:merge:three-labels")
                    elif "UNKNOWN" in labs:
                        br.append("2d:merge:unknown-first" if labs[0] == "UNKNOWN" else "2d:merge:unknown-later")
                    else:
                        br.append("2d:merge:two-known")
        if any(o["roi"] is not None and (o["roi"][2] < 0 or o["roi"][3] < 0) for o in objs):
            br.append("2d:roi-negative-size")
        for o in objs:
            br.append("2d:label:" + ("UNKNOWN" if o["label"] == "UNKNOWN" else "FP" if o["label"] == "FP" else "known"))
    if any(Fraction(v) < 0 and Fraction(v).denominator != 1 for o in case.get("object_anns", []) for v in o["bbox"]):
        br.append("2d:bbox-negative-fraction")
    if case.get("object_anns"):
        br.append("2d:object_anns:" + str(min(len(case["object_anns"]), 5)))
    hl = set()
    for r, cfg in zip(out["results"], case["configs"]):
        if cfg[0] == "tracking" and "frames" in r:
            for f in r["frames"]:
                for o in f["objects"]:
                    if o["tracked"] is not None:
                        hl.add(len(o["tracked"]))
    for h in sorted(hl):
        br.append(f"history:{h}")
    # window / cap actually cutting a history
    s_time = {s["token"]: s["timestamp"] for s in S}
    for tok, idxs in by.items():
        idxs = sorted(idxs)
        if len(idxs) > 6:
            br.append("history:capped")
        ts = [S[i]["timestamp"] for i in idxs]
        if any(ts[k] - ts[j] >= 3_150_000 for j in range(len(ts)) for k in range(j + 1, min(j + 7, len(ts)))):
            br.append("history:window-cut")
        if any(ts[k] - ts[j] == 3_150_000 for j in range(len(ts)) for k in range(j + 1, len(ts))):
            br.append("history:window-exact")
    return list(dict.fromkeys(br))


def _drop_sample(case, k):
    c = copy.deepcopy(case)
    tok = c["samples"][k]["token"]
    del c["samples"][k]
    gone = {x["token"] for x in c["sample_data"] if x["sample_token"] == tok}
    c["object_anns"] = [o for o in c.get("object_anns", []) if o["sample_data_token"] not in gone]
    c["sample_data"] = [x for x in c["sample_data"] if x["sample_token"] != tok]
    c["annotations"] = [a for a in c["annotations"] if a["sample_token"] != tok]
    return relink(c)


def shrink(case):
    if len(case["configs"]) + len(case.get("configs2d", [])) > 1:
        for cfg in case["configs"]:
            c = copy.deepcopy(case)
            c["configs"], c["configs2d"] = [cfg], []
            yield c
        for cfg in case.get("configs2d", []):
            c = copy.deepcopy(case)
            c["configs"], c["configs2d"] = [], [cfg]
            yield c
    for k in range(len(case.get("object_anns", []))):
        c = copy.deepcopy(case)
        del c["object_anns"][k]
        yield c
    for cfg_i, cfg in enumerate(case.get("configs2d", [])):
        for k in range(len(cfg[3])):
            c = copy.deepcopy(case)
            del c["configs2d"][cfg_i][3][k]
            yield c
    for k in reversed(range(len(case["samples"]))):
        if len(case["samples"]) > 1:
            yield _drop_sample(case, k)
    for i in case["instances"]:
        c = copy.deepcopy(case)
        c["instances"] = [x for x in c["instances"] if x["token"] != i["token"]]
        c["annotations"] = [a for a in c["annotations"] if a["instance_token"] != i["token"]]
        c["object_anns"] = [o for o in c.get("object_anns", []) if o["instance_token"] != i["token"]]
        yield relink(c)
    for k in range(len(case["annotations"])):
        c = copy.deepcopy(case)
        del c["annotations"][k]
        yield relink(c)
    # drop sensors that the loader does not pick, sweeps, attributes
    used = {x["calibrated_sensor_token"] for x in case["sample_data"]}
    sen = {s["token"]: s for s in case["sensors"]}
    for cs in case["calibrated_sensors"]:
        if not sen[cs["sensor_token"]]["channel"].startswith("LIDAR"):
            c = copy.deepcopy(case)
            c["calibrated_sensors"] = [x for x in c["calibrated_sensors"] if x["token"] != cs["token"]]
            c["sensors"] = [x for x in c["sensors"] if x["token"] != cs["sensor_token"]]
            gone = {x["token"] for x in c["sample_data"] if x["calibrated_sensor_token"] == cs["token"]}
            c["object_anns"] = [o for o in c.get("object_anns", []) if o["sample_data_token"] not in gone]
            c["sample_data"] = [x for x in c["sample_data"] if x["calibrated_sensor_token"] != cs["token"]]
            yield c
    if any(not x["is_key_frame"] for x in case["sample_data"]):
        c = copy.deepcopy(case)
        c["sample_data"] = [x for x in c["sample_data"] if x["is_key_frame"]]
        yield c
    if any(a["attribute_tokens"] for a in case["annotations"]):
        c = copy.deepcopy(case)
        for a in c["annotations"]:
            a["attribute_tokens"] = []
        yield c
    # snap rotations to the identity, one table at a time
    for key in ("annotations", "ego_poses"):
        if any(x["rotation"] != ID_ROT for x in case[key]):
            c = copy.deepcopy(case)
            for x in c[key]:
                x["rotation"] = list(ID_ROT)
            yield c


def search(rng, st, disagreements):
    return ([gen_dataset(rng) for _ in range(30)] + [gen_dataset(rng, family=f) for f in ("multi-keyframe", "all-fp") for _ in range(5)]
            + [shape_tlr(rng, gen_dataset(rng, n_samples=2, tlr_rig=True), [rel]) for rel in TLR_RELATIONS + ["chain"] for _ in range(2)])
