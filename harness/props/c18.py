"""C18 — coordinate transforms compose and invert consistently.

Tie to the code: the REAL `HomogeneousMatrix` / `TransformDict` (perception_eval.common.transform) are
driven with rational unit quaternions (both signs; given as tuple, list, ndarray, Quaternion object,
3x3 or 4x4 rotation matrix, or through `from_matrix`), dyadic translations, chains of up to 5 frames,
inverses, and registry queries in every key spelling (member, lower-/upper-/mixed-case name; pair,
list or TransformKey object) with position-only, position+rotation and matrix arguments, positional
or keyword.  Every observable result (`.matrix`, `.position`, rotation as a rotation matrix, labels,
error kind) is compared with the Lean model `PEval.Transform`.

Two devices run through ALL streams:
* NUMERIC TYPE VARIANTS — about 40% of the matrices, probes and query arguments hand their numbers over in another numeric type
  than Python float: int tuples / lists, numpy int64 / int32 / float32 scalars and arrays, lists mixing ints and floats
  (translations are then drawn integral; rotations mostly stay arbitrary, i.e. an integer translation next to a fractional
  rotation; sometimes integer unit quaternions / integral rotation matrices so that the rotation changes type too; `from_matrix`
  with an int / float32 4x4 array where exact).  The mathematical value - hence the model request and the oracle's expectation - is the same.
* EVERY ACCESS PATH OF THE REGISTRY — wherever a registry is asked through `transform`, the same key (same spelling, same
  form) is also handed to every other key-taking method, enumerated from `dir(TransformDict)`: `get`, `[]`, `in` (if defined),
  `load_key`, and any public method the harness does not know whose first parameter is a key BY ITS SIGNATURE (named `key` or
  annotated with TransformKey), tried with the key as only argument on a deep copy.  Demanded ("accepts frame names or frame
  enums interchangeably as keys"): every spelling is answered like `TransformKey(member, member)`, a registered direction is
  found, and a matrix handed out for X-to-Y is the registered one (or the inverse of the registered Y-to-X).  Other unknown
  methods (say `add(matrix)`) are listed as `undriven` in the histogram and never judged.

Two further streams state that the objects answer from what they hold NOW:
* `regseq` — OPERATION SEQUENCES on one registry: `reg[key] = matrix` (new key, overwrite, overwrite of / registration of
  the reverse of a key that was answered through the inverse), `del reg[key]`, `copy.deepcopy(reg)` (the sequence goes
  on with the copy, the original is asked again at the end), arbitrary queries; after construction and after EVERY
  operation all ordered pairs of the frames in play (direct, inverse, identity, missing) are asked again.  The Lean
  model replays the sequence (`dictSet` / `dictDel` / `dictTransform` on the current list).
* `alias` — a transform built from the CALLER'S numpy arrays (position array; quaternion array, 3x3 or 4x4 rotation
  array; a 4x4 pose given to `from_matrix`, also as a view into a bigger array), observed, then the caller changes
  those arrays in place (translation advanced / overwritten / zeroed, rotation overwritten) and everything is observed
  again.

Oracle (independent of the model): the property evaluated on the real results with plain numpy
algebra on the 4x4 matrices written down from the case — inverse round trips return the probe,
composites are the numpy product of the inputs / equal the step-by-step transformation / are labelled
first.src -> last.dst, mismatched compositions are rejected (raise; the class is not stated), transforming a pose =
matrix product, and the registry's answer equals identity / registered matrix / numpy inverse of the reverse entry /
an exception according to the rule, with the frame name normalised by the harness's own table.  Not judged (the
statement is silent): exception classes, the number of entries of a registry, which of two registrations of one key at
construction counts, negative answers of get / [] / in, anything built on a name that is no frame, malformed calls.
For a sequence the rule is evaluated, after every step, on the contents written down from the case (dict of the
harness), and every answer must also equal the answer of a registry built on the spot from those contents; a registry
left behind by deepcopy keeps answering from its own contents.  For the aliasing stream the oracle states consistency
of the object with ITSELF: before the caller's change its matrix is the one written down from the case; afterwards the
round trips (transform then inverse, the registry's there-and-back, inv() composed with the object) must still return the
original, and every single result must be the product with one of the matrices the object can stand for (its own copy,
the changed buffer, a mixture, the matrix it presents).  Whether the library wrote into the caller's arrays is recorded only.
"""
from __future__ import annotations

import itertools
import math
import os
from fractions import Fraction

# 4x4 products only: BLAS worker threads are pure overhead (numpy is imported lazily, after this line)
for _v in ("OMP_NUM_THREADS", "OPENBLAS_NUM_THREADS", "MKL_NUM_THREADS"):
    os.environ.setdefault(_v, "1")

from harness import core

PROP = "C18"
EXHAUSTIVE = False
RULE = (
    "chains: 1..4 matrices over <=5 frames, each a rational unit quaternion (table of integer quadruples with square norm, "
    "squares u^2/|u|^2 of random integer quaternions, products; sign +/-; 7 input forms) and a dyadic translation, composed by "
    "dot / transform(matrix) / transform(matrix=), with injected frame mismatches and unknown frame names, probed with a "
    "random pose in 3 rotation forms, positional or keyword; operation sequences: a registry of 0..3 matrices over a pool of 2..4 "
    "frames, 2..6 operations (assign new/overwrite/reverse key, delete, deepcopy-and-continue, query), every ordered pair of the "
    "pool + 2 unregistered keys asked after every step, 9 forced shapes (set, del, copy-set, copy-del, ...); aliasing: a matrix "
    "built from caller-owned ndarrays (ctor with 5 rotation forms, from_matrix, from_matrix of a view), changed in place "
    "(pos/rot/both; iadd/assign/zero) between two full observations incl. dot on both sides and a registry round trip; "
    "registries: 0..4 matrices (duplicates, reverse pairs, X-to-X "
    "entries; list/tuple/single/None/__setitem__ construction) and <=6 queries each over all key spellings and forms and 7 "
    "argument kinds; plus every frame X-to-X in all 16 spelling pairs and every ordered pair of frames direct/inverse/missing. "
    "numeric type variants: 40% of matrices / probes / arguments carry their numbers as int, numpy int64/int32/float32 (scalars in tuples "
    "and lists, dtype of arrays, from_matrix arrays) or int-float mixtures, integral translations with arbitrary rotations; access paths: "
    "every registry query key (registry stream, every probe of every sequence step, one key with a non-frame name per sequence) also goes "
    "to get / [] / in / load_key and to every unknown method found by dir(TransformDict) whose first parameter is a key by signature. "
    "non-trivial = at least one matrix that is not the identity motion, or a registry query; distinct = distinct case JSON"
)
THEOREMS = [
    "PEval.C18." + t
    for t in [
        "rotate_mul", "rotMat_neg", "rotate_isometry",
        "inv_transform", "transform_inv", "inv_transform_pos", "transform_inv_pos", "inv_frames", "inv_unit", "inv_inv",
        "inv_dot_self", "self_dot_inv",
        "dot_two_steps", "dot_frames", "dot_mismatch_error", "dot_ok_iff", "dot_unit", "transformHM_eq_dot", "chain_steps",
        "transform_eq_matmul", "transformPos_eq_matmul", "dot_eq_matmul", "inv_matmul",
        "lookup_registered", "lookup_sound", "lookup_none_iff",
        "lookup_direct", "lookup_inverse", "lookup_identity_key", "frameOfArg_spelling", "transformKey_spelling",
        "mk_spelling", "lookup_identity", "lookup_missing_keyerror", "key_spelling_irrelevant", "key_unknown_name", "registry_roundtrip",
        "lookup_set", "lookup_erase", "dictDel_spec", "query_after_set_direct", "query_after_set_reverse", "query_after_set_other",
        "query_after_del", "query_after_del_falls_back",
        "get_spelling_irrelevant", "getitem_spelling_irrelevant", "contains_spelling_irrelevant", "getitem_eq_get", "contains_eq_get",
        "get_unknown_name", "transform_of_get_direct", "transform_of_get_reverse", "get_after_set", "get_after_del",
        # matrix input and the re-extracted quaternion: orientation results up to sign (audit C18-1)
        "signEq_equivalence", "rotMat_eq_iff", "extract_returns_representative", "ofMat3_signEq", "fromMatrix_signEq",
        "dotX_ok_iff", "dotX_mismatch_error", "dotX_refines", "invX_signEq", "transformPoseX_poseEq", "transformPoseMatX_poseEq",
        "X_sign_blind", "transform_eq_matmul_X", "inv_transform_X", "transform_inv_X", "inv_inv_X", "dot_two_steps_X",
        "transformX_refines", "dictTransformX_refines", "registry_roundtrip_X",
        "ratSqrt_exact", "extractTrace_contract", "extractTrace_representative",
        "extractG_ok_iff", "extractG_not_ok", "invX_G_breaks",
        # chains (C18-3), any case mixture (C18-4), a matrix stored under a foreign key (C18-5)
        "chain_ok_iff", "chain_ok", "chain_unit",
        "frameOfArg_case_insensitive", "frameOfArg_any_case", "key_case_irrelevant", "key_any_case",
        "kTransform_ofList", "kTransform_after_set", "kTransform_after_set_reverse",
    ]
]
TRUSTED = [
    "pyquaternion: Quaternion(matrix=R(q)) returns q or -q; rotation_matrix is the homogeneous formula of the normalised quaternion "
    "(the model receives the generating rational quaternion for every input form; results are compared as rotation matrices)",
    "numpy.linalg.inv / numpy.dot on 4x4 float matrices (model: exact rational inverse and product)",
    "FrameID table regenerated by the translator (PEval.Gen.frameID); str.lower() modelled on ASCII",
]
ASSUMPTIONS = [
    "rotation inputs are unit quaternions / proper rotation matrices (pyquaternion normalises other input; outside the property's quantifier)",
    "rotations are compared as rotation matrices, so q and -q agree (the sign returned by Quaternion(matrix=) is unspecified)",
    "float results are compared with exact rationals within 1e-9 (relative/absolute); translations are dyadic with |t| <= 1024",
    "keys whose components are neither str nor FrameID (None, int) are not generated",
    "numeric type variants are applied only where every number is exactly representable in the type (integers for the int types, "
    "float32-exact dyadics for float32); complex, Decimal, Fraction, bool and string numbers are not generated",
    "a name that is no frame is outside the quantifier (all key spellings OF FRAMES): matrices, keys and queries with such a name "
    "are generated (branch histogram) but neither judged nor compared",
    "exception classes are evidence only: 'is rejected' / 'raises' = any exception; malformed calls of transform (no / too many / "
    "unknown / contradictory arguments) are neither judged nor compared",
    "a key handed to the constructor twice with different matrices (which one counts is not stated; today the later) is neither "
    "judged nor compared until an assignment or deletion settles it; len(registry), get -> None / [] -> KeyError / in -> False for "
    "a direction registered only the other way round are not demanded (a registry may keep inverses)",
    "reg[key] = m is generated only with a key naming m's own frames (any spelling), as the constructor registers it",
    "only numpy arrays handed to the constructor / from_matrix are changed in place (not the internals of a Quaternion object, "
    "not the attributes of the transform); after the change only the oracle's self-consistency clauses apply (no comparison with the model)",
]

SPELLINGS = ("member", "lower", "upper", "mixed")
INPUTS = ("tuple", "list", "ndarray", "quatobj", "mat3", "mat4", "from_matrix")
ROT_FORMS = ("tuple", "quatobj", "mat3")
MALFORMED = ("noargs", "toomany", "unknownkw", "posandmat")
# NUMERIC TYPE VARIANTS: the same numbers handed over in another numeric type (the mathematical value, and with it the
# model request and the oracle's expectation, is unchanged).  A variant applies where every number is exactly
# representable in the type; otherwise the numbers stay Python floats.
NUMS = ("float", "int", "i64", "i32", "f32", "mixed")
INT_NUMS = ("int", "i64", "i32")
POS_FORMS = ("tuple", "list", "ndarray")


# ----------------------------------------------------------------------------- rational rotations

def _F(s):
    return Fraction(s)


def _rotmat_exact(q):
    w, x, y, z = q
    return [
        [w * w + x * x - y * y - z * z, 2 * (x * y - w * z), 2 * (x * z + w * y)],
        [2 * (x * y + w * z), w * w - x * x + y * y - z * z, 2 * (y * z - w * x)],
        [2 * (x * z - w * y), 2 * (y * z + w * x), w * w - x * x - y * y + z * z],
    ]


def _qmul(p, q):
    return (
        p[0] * q[0] - p[1] * q[1] - p[2] * q[2] - p[3] * q[3],
        p[0] * q[1] + p[1] * q[0] + p[2] * q[3] - p[3] * q[2],
        p[0] * q[2] - p[1] * q[3] + p[2] * q[0] + p[3] * q[1],
        p[0] * q[3] + p[1] * q[2] - p[2] * q[1] + p[3] * q[0],
    )


_TABLE = None


def _quat_table():
    """all integer quadruples with entries in [-4, 4] whose norm is an integer, normalised"""
    global _TABLE
    if _TABLE is None:
        seen = {}
        for a, b, c, d in itertools.product(range(-4, 5), repeat=4):
            n2 = a * a + b * b + c * c + d * d
            n = math.isqrt(n2)
            if n2 > 0 and n * n == n2:
                seen[(Fraction(a, n), Fraction(b, n), Fraction(c, n), Fraction(d, n))] = None
        _TABLE = sorted(seen)
    return _TABLE


def _rand_quat(rng):
    mode = rng.choice(["table", "table", "square", "square", "product", "identity", "halfturn"])
    if mode == "table":
        q = rng.choice(_quat_table())
    elif mode == "square":
        while True:
            u = tuple(rng.randint(-6, 6) for _ in range(4))
            n = sum(c * c for c in u)
            if n:
                break
        s = _qmul(u, u)
        q = tuple(Fraction(c, n) for c in s)
    elif mode == "product":
        q = _qmul(rng.choice(_quat_table()), rng.choice(_quat_table()))
    elif mode == "identity":
        q = (Fraction(1), Fraction(0), Fraction(0), Fraction(0))
    else:
        v = rng.choice([(1, 0, 0), (0, 1, 0), (0, 0, 1), (3, 4, 0), (0, -3, 4), (2, 3, 6), (1, 2, 2), (-2, 6, 3), (4, 4, 7)])
        n = math.isqrt(sum(c * c for c in v))
        q = (Fraction(0),) + tuple(Fraction(c, n) for c in v)
    if rng.random() < 0.5:
        q = tuple(-c for c in q)
    assert sum(c * c for c in q) == 1
    return [core.q(c) for c in q]


def _rand_num(rng, p=0.4):
    return rng.choice(NUMS[1:]) if rng.random() < p else "float"


def _rand_pos(rng, num="float"):
    """a dyadic translation; for the integer types an integral one, for `mixed` some components integral"""
    if rng.random() < 0.1:
        return [0.0, 0.0, 0.0]
    hi = rng.choice([4, 64, 64, 1024])
    if num in INT_NUMS:
        return [float(rng.randint(-hi, hi)) for _ in range(3)]
    if num == "mixed":
        return [float(rng.randint(-hi, hi)) if rng.random() < 0.6 else core.dyadic(rng, -hi, hi, 8) for _ in range(3)]
    return [core.dyadic(rng, -hi, hi, 8) for _ in range(3)]


_UNIT_INT_QUATS = [(1, 0, 0, 0), (0, 1, 0, 0), (0, 0, 1, 0), (0, 0, 0, 1)]
_HALF_QUATS = [(a, b, c, d) for a in (1, -1) for b in (1, -1) for c in (1, -1) for d in (1, -1)]


def _rand_quat_num(rng, num):
    """mostly any rotation (its numbers stay floats next to, say, an integer translation); sometimes one whose numbers are
    representable in the requested type too: integer unit quaternions, (+-1 +-1 +-1 +-1)/2 (integral rotation matrix)"""
    if num != "float" and rng.random() < 0.25:
        if rng.random() < 0.6:
            q = rng.choice(_UNIT_INT_QUATS)
            q = tuple(-c for c in q) if rng.random() < 0.5 else q
            return [core.q(Fraction(c)) for c in q]
        return [core.q(Fraction(c, 2)) for c in rng.choice(_HALF_QUATS)]
    return _rand_quat(rng)


def _num_scalars(vals, num):
    """the numbers `vals` (floats) as scalars of the numeric type `num`; None when one of them is not exactly representable"""
    import numpy as np

    vals = [float(v) for v in vals]
    if num == "float":
        return vals
    if num == "mixed":
        return [int(v) if v == int(v) else v for v in vals]
    if num in INT_NUMS:
        if any(v != int(v) or abs(v) >= 2 ** 31 for v in vals):
            return None
        ty = {"int": int, "i64": np.int64, "i32": np.int32}[num]
        return [ty(int(v)) for v in vals]
    if num == "f32":
        if any(float(np.float32(v)) != v for v in vals):
            return None
        return [np.float32(v) for v in vals]
    raise ValueError(num)


def _num_array(a, num):
    """the float array `a` with the dtype of `num` (the array itself when not exactly representable)"""
    import numpy as np

    dt = {"int": np.int64, "i64": np.int64, "i32": np.int32, "f32": np.float32}.get(num)
    if dt is None:
        return a
    b = a.astype(dt)
    return b if np.array_equal(b.astype(float), a) else a


def _seq_arg(vals, form, num="float"):
    """three or four numbers as tuple / list / ndarray in the numeric type `num`"""
    import numpy as np

    sc = _num_scalars(vals, num)
    if sc is None:
        sc = [float(v) for v in vals]
    if form == "list":
        return list(sc)
    if form == "ndarray":
        return _num_array(np.array([float(v) for v in vals]), num)
    return tuple(sc)


def _frames():
    from perception_eval.common.schema import FrameID

    return [m.name for m in FrameID.__members__.values()]


def _norm_name(name, sp):
    """harness's own normalisation of a spelled frame: member name or None (unknown)"""
    return None if sp == "bad" else name


def _rand_sp(rng, bad=0.0):
    if rng.random() < bad:
        return "bad"
    return rng.choice(SPELLINGS)


def _rand_mat(rng, src, dst, bad=0.0):
    num = _rand_num(rng)
    return {
        "pos": _rand_pos(rng, num),
        "q": _rand_quat_num(rng, num),
        "num": num,
        "input": rng.choice(INPUTS),
        "src": src,
        "src_sp": _rand_sp(rng, bad),
        "dst": dst,
        "dst_sp": _rand_sp(rng, bad),
    }


def _rand_probe(rng):
    num = _rand_num(rng)
    return {
        "pos": _rand_pos(rng, num),
        "q": _rand_quat_num(rng, num),
        "num": num,
        "pform": rng.choice(POS_FORMS),
        "rot_form": rng.choice(ROT_FORMS),
        "call": rng.choice(["args", "kw"]),
    }


# ----------------------------------------------------------------------------- building real objects

def _frame_arg(name, sp):
    from perception_eval.common.schema import FrameID

    m = FrameID[name]
    if sp == "member":
        return m
    if sp == "lower":
        return m.value
    if sp == "upper":
        return m.value.upper()
    if sp == "mixed":
        t = m.value.title()
        return t if t != m.value else m.value.upper()
    return m.value + "_x"  # "bad": no frame has this name


def _model_arg(name, sp):
    a = _frame_arg(name, sp)
    return {"str": a} if isinstance(a, str) else {"member": a.name}


def _spec_matrix(spec):
    """the 4x4 float matrix the spec denotes (exact rationals, each entry rounded once)"""
    import numpy as np

    q = [_F(s) for s in spec["q"]]
    m = np.eye(4)
    R = _rotmat_exact(q)
    for i in range(3):
        for j in range(3):
            m[i, j] = float(R[i][j])
        m[i, 3] = float(spec["pos"][i])
    return m


def _rot_arg(qs, form, num="float"):
    import numpy as np
    from pyquaternion import Quaternion

    q = [_F(s) for s in qs]
    qf = tuple(float(c) for c in q)
    if form in ("tuple", "list", "ndarray"):
        return _seq_arg(qf, form, num)
    if form == "quatobj":
        return Quaternion(_seq_arg(qf, "tuple", num))
    R = np.array([[float(c) for c in row] for row in _rotmat_exact(q)])
    if form == "mat3":
        return _num_array(R, num)
    m = np.eye(4)
    m[:3, :3] = R
    return _num_array(m, num)  # mat4


def _build_thunk(spec):
    """the arguments are prepared here (harness code: an error propagates as an infrastructure error); the returned thunk
    is nothing but the library call"""
    from perception_eval.common.transform import HomogeneousMatrix

    src = _frame_arg(spec["src"], spec["src_sp"])
    dst = _frame_arg(spec["dst"], spec["dst_sp"])
    inp = spec["input"]
    num = spec.get("num", "float")
    if inp == "from_matrix":
        arr = _num_array(_spec_matrix(spec), num)
        return lambda: HomogeneousMatrix.from_matrix(arr, src, dst)
    pos = _seq_arg(spec["pos"], "tuple" if inp in ("tuple", "quatobj") else "list" if inp == "list" else "ndarray", num)
    rot = _rot_arg(spec["q"], inp, num)
    return lambda: HomogeneousMatrix(pos, rot, src, dst)


def _build(spec):
    return _build_thunk(spec)()


def _fname(f):
    from perception_eval.common.schema import FrameID

    return f.name if isinstance(f, FrameID) else repr(f)


def _hm(A):
    return {
        "mat": A.matrix.tolist(),
        "pos": [float(c) for c in A.position],
        "rot": A.rotation.rotation_matrix.tolist(),
        "src": _fname(A.src),
        "dst": _fname(A.dst),
    }


def _rot_canon(r):
    """rotation result / echoed rotation argument -> 3x3 list"""
    import numpy as np
    from pyquaternion import Quaternion

    if isinstance(r, Quaternion):
        return r.rotation_matrix.tolist()
    a = np.array(r, dtype=float)
    if a.ndim == 2:
        return a[:3, :3].tolist()
    return Quaternion(a).rotation_matrix.tolist()


def _canon_result(r):
    import numpy as np
    from pyquaternion import Quaternion
    from perception_eval.common.transform import HomogeneousMatrix

    if isinstance(r, HomogeneousMatrix):
        return _hm(r)
    if isinstance(r, tuple) and len(r) == 2 and not np.isscalar(r[0]):
        d = {"pos": [float(c) for c in r[0]], "rot": _rot_canon(r[1])}
        if isinstance(r[1], Quaternion):
            d["qnorm"] = float(r[1].norm)     # an orientation RESULT is a unit quaternion (judged on the round trips only)
        return d
    return {"pos": [float(c) for c in r]}


def _call_transform(obj, key, kind, pos, rot, mat, call):
    """obj.transform([key,] ...) in the requested argument kind and call style"""
    pre = () if key is None else (key,)
    if kind == "pos":
        return obj.transform(*pre, pos) if call == "args" else obj.transform(*pre, position=pos)
    if kind == "pose":
        return obj.transform(*pre, pos, rot) if call == "args" else obj.transform(*pre, position=pos, rotation=rot)
    if kind == "mat":
        return obj.transform(*pre, mat) if call == "args" else obj.transform(*pre, matrix=mat)
    if kind == "noargs":
        return obj.transform(*pre)
    if kind == "toomany":
        return obj.transform(*pre, pos, rot, pos)
    if kind == "unknownkw":
        return obj.transform(*pre, pose=pos)
    if kind == "posandmat":
        return obj.transform(*pre, position=pos, matrix=mat)
    raise ValueError(kind)


def _try(f):
    """the library call `f` -> canonical result, or {"err": class name} when it raised.  The class name is EVIDENCE (branch
    histogram): the property says "is rejected" / "raises", so oracle and comparison only distinguish raised from returned.
    The canonicalisation is harness code and stays outside the `try`."""
    try:
        r = f()
    except Exception as e:  # noqa
        return {"err": type(e).__name__}
    return _canon_result(r)


def _pose_matrix(pos, qs):
    return _spec_matrix({"pos": pos, "q": qs})


def _probe_args(probe):
    """position and rotation of a probe / query argument as handed to the real code"""
    num = probe.get("num", "float")
    return _seq_arg(probe["pos"], probe.get("pform", "tuple"), num), _rot_arg(probe["q"], probe["rot_form"], num)


def _info(A, probe):
    """everything observed of one real matrix (plus the oracle's raw material)"""
    p, r = _probe_args(probe)
    call = probe["call"]
    try:
        I = A.inv()
    except Exception as e:  # noqa
        return {"m": _hm(A), "inv_err": type(e).__name__}
    d = {"m": _hm(A), "inv": _hm(I)}
    d["tf_pos"] = _try(lambda: _call_transform(A, None, "pos", p, None, None, call))
    d["tf_pose"] = _try(lambda: _call_transform(A, None, "pose", p, r, None, call))

    def rt(first, second):
        a = _call_transform(first, None, "pose", p, r, None, call)
        return _call_transform(second, None, "pose", a[0], a[1], None, call)

    d["rt1"] = _try(lambda: rt(A, I))
    d["rt2"] = _try(lambda: rt(I, A))

    def rtp(first, second):
        return _call_transform(second, None, "pos", _call_transform(first, None, "pos", p, None, None, call), None, None, call)

    d["rt1_pos"] = _try(lambda: rtp(A, I))
    d["rt2_pos"] = _try(lambda: rtp(I, A))
    return d


# ----------------------------------------------------------------------------- cases

def corpus():
    one = ["1", "0", "0", "0"]
    q5 = ["1/5", "2/5", "2/5", "4/5"]
    q7n = ["-2/7", "-3/7", "-6/7", "0"]
    half = ["0", "3/5", "4/5", "0"]

    def mat(pos, q, src, dst, inp="tuple", ssp="member", dsp="member"):
        return {"pos": pos, "q": q, "input": inp, "src": src, "src_sp": ssp, "dst": dst, "dst_sp": dsp}

    def qry(src, ssp, dst, dsp, arg, form="tuple", call="args"):
        return {"src": src, "src_sp": ssp, "dst": dst, "dst_sp": dsp, "form": form, "call": call, "arg": arg}

    ppos = {"kind": "pos", "pos": [1.0, 2.0, 3.0]}
    ppose = {"kind": "pose", "pos": [1.0, 2.0, 3.0], "q": q5, "rot_form": "tuple"}
    ego2map = mat([1.0, -2.0, 0.5], q5, "BASE_LINK", "MAP")
    cam2ego = mat([2.0, 2.0, 2.0], q7n, "CAM_FRONT", "BASE_LINK", "mat3", "lower", "upper")
    probe = {"pos": [1.0, 0.0, -0.25], "q": half, "rot_form": "quatobj", "call": "args"}
    cs = []
    # F14 (fixed): X-to-X with differently spelled components must be the identity, not a KeyError
    cs.append({"kind": "registry", "init": "list", "mats": [ego2map], "queries": [
        qry("MAP", "upper", "MAP", "lower", ppos), qry("MAP", "upper", "MAP", "lower", ppose),
        qry("MAP", "lower", "MAP", "member", ppos, "key"), qry("CAM_BACK", "mixed", "CAM_BACK", "upper", ppos, "list")]})
    cs.append({"kind": "registry", "init": "none", "mats": [], "queries": [
        qry("MAP", "upper", "MAP", "lower", ppos), qry("MAP", "member", "BASE_LINK", "member", ppos)]})
    # direct / inverse / missing / matrix argument (docstring examples)
    cs.append({"kind": "registry", "init": "single", "mats": [ego2map], "queries": [
        qry("BASE_LINK", "member", "MAP", "member", ppos, "key"), qry("MAP", "lower", "BASE_LINK", "upper", ppose, "tuple", "kw"),
        qry("MAP", "member", "CAM_FRONT", "member", ppos),
        qry("BASE_LINK", "lower", "MAP", "lower", {"kind": "mat", **mat([0.0, 1.0, 0.0], half, "MAP", "LIDAR_TOP")}),
        qry("BASE_LINK", "lower", "MAP", "lower", {"kind": "mat", **mat([0.0, 1.0, 0.0], half, "BASE_LINK", "LIDAR_TOP")}),
        qry("MAP", "lower", "BASE_LINK", "lower", {"kind": "noargs"}), qry("MAP", "lower", "MAP", "lower", {"kind": "noargs"})]})
    # duplicates: the later registration wins
    cs.append({"kind": "registry", "init": "list", "mats": [ego2map, mat([0.0, 0.0, 8.0], one, "BASE_LINK", "MAP")],
               "queries": [qry("BASE_LINK", "member", "MAP", "member", ppos), qry("MAP", "member", "BASE_LINK", "member", ppos)]})
    # chains: docstring example (pure translations), rotations of both signs, half turns, a mismatch
    cs.append({"kind": "chain", "mats": [mat([2.0, 2.0, 2.0], one, "CAM_FRONT", "BASE_LINK"), mat([1.0, 1.0, 1.0], one, "BASE_LINK", "MAP")],
               "via": ["dot"], "probe": probe})
    cs.append({"kind": "chain", "mats": [cam2ego, ego2map], "via": ["tf"], "probe": probe})
    cs.append({"kind": "chain", "mats": [ego2map, cam2ego], "via": ["dot"], "probe": probe})
    cs.append({"kind": "chain", "mats": [mat([0.0, 0.0, 0.0], half, "MAP", "MAP", "mat4"), mat([1.0, 0.0, 0.0], ["0", "0", "0", "-1"], "MAP", "BASE_LINK", "from_matrix")],
               "via": ["tf_kw"], "probe": probe})
    cs.append({"kind": "chain", "mats": [mat([0.0, 0.0, 0.0], one, "MAP", "BASE_LINK", "tuple", "bad")], "via": [], "probe": probe})
    # numeric type variants: an ego pose standing at integer coordinates with a tilted rotation, handed over as int tuple, int list,
    # numpy int / float32 array, 4x4 int array (quarter turn), probed with int / float32 / mixed positions
    quarter = ["1/2", "1/2", "1/2", "1/2"]
    for inp, num, q in (("tuple", "int", q5), ("list", "int", q7n), ("ndarray", "i64", q5), ("ndarray", "i32", half), ("ndarray", "f32", q7n),
                        ("quatobj", "mixed", q5), ("from_matrix", "i64", quarter), ("mat3", "i32", quarter), ("mat4", "f32", quarter)):
        for pnum, pform in (("int", "tuple"), ("f32", "ndarray"), ("mixed", "list")):
            cs.append({"kind": "chain", "mats": [dict(mat([12.0, -7.0, 0.0], q, "BASE_LINK", "MAP", inp), num=num),
                                                 dict(mat([1.0, 2.0, 3.0], q7n, "MAP", "LIDAR_TOP", "tuple"), num=pnum)],
                       "via": ["dot"], "probe": dict(probe, pos=[1.0, 0.0, -2.0], num=pnum, pform=pform)})
    cs.append({"kind": "registry", "init": "single", "mats": [dict(ego2map, pos=[12.0, -7.0, 0.0], num="int")], "queries": [
        qry("BASE_LINK", "upper", "MAP", "upper", dict(ppos, num="int", pform="list")),
        qry("MAP", "upper", "BASE_LINK", "member", dict(ppose, num="i32", pform="ndarray"), "list"),
        qry("MAP", "bad", "BASE_LINK", "member", ppos)]})
    # a registry answers from its CURRENT contents: the ego pose of the next frame is registered under the same key
    # after map->base_link was asked (answered through the inverse), then the key is deleted; the same on a deep copy
    ego2map2 = mat([25.0, 3.0, 0.75], q7n, "BASE_LINK", "MAP", "quatobj", "lower", "lower")
    map2ego = mat([-3.0, 0.5, 0.0], half, "MAP", "BASE_LINK")

    def pk(a, b, asp="member", bsp="member", form="tuple", call="args"):
        return {"src": a, "src_sp": asp, "dst": b, "dst_sp": bsp, "form": form, "call": call}

    pks = [pk("BASE_LINK", "BASE_LINK", "lower", "upper"), pk("BASE_LINK", "MAP", "lower", "lower"), pk("MAP", "BASE_LINK", "member", "lower", "key"),
           pk("MAP", "MAP"), pk("BASE_LINK", "CAM_FRONT"), pk("CAM_FRONT", "MAP", "upper", "mixed", "list", "kw")]

    def st(m, form="tuple"):
        return {"op": "set", "mat": m, "src_sp": "lower", "dst_sp": "lower", "form": form}

    def dl(a, b, form="tuple"):
        return {"op": "del", "src": a, "src_sp": "member", "dst": b, "dst_sp": "member", "form": form}

    cs.append({"kind": "regseq", "init": "single", "mats": [ego2map], "ops": [st(ego2map2), dl("BASE_LINK", "MAP")], "probes": pks, "parg": ppose})
    cs.append({"kind": "regseq", "init": "list", "mats": [ego2map], "ops": [{"op": "copy"}, st(ego2map2, "key"), {"op": "copy"}, dl("BASE_LINK", "MAP", "key"),
               st(map2ego, "list"), dl("MAP", "BASE_LINK"), dl("MAP", "BASE_LINK")], "probes": pks, "parg": ppos})
    cs.append({"kind": "regseq", "init": "none", "mats": [], "ops": [st(ego2map), st(map2ego), dl("BASE_LINK", "MAP"), st(ego2map2),
               {"op": "query", **pk("MAP", "BASE_LINK", "upper", "upper"), "arg": {"kind": "mat", **mat([0.0, 1.0, 0.0], half, "BASE_LINK", "LIDAR_TOP")}}],
               "probes": pks, "parg": ppose})
    # a transform agrees with itself whatever the caller later does with the arrays it passed in: one 4x4 ego pose
    # advanced in place for the next frame; a position buffer reused; rotation arrays overwritten
    post, pre = mat([0.5, 0.0, 2.0], half, "MAP", "LIDAR_TOP"), mat([2.0, 2.0, 2.0], q7n, "CAM_FRONT", "BASE_LINK")
    a0 = mat([100.0, 50.0, 1.0], q5, "BASE_LINK", "MAP", "ndarray", "lower", "lower")

    def al(build, what, how, pos, q=one):
        return {"kind": "alias", "mats": [], "mat": a0, "build": build, "mut": {"what": what, "how": how, "pos": pos, "q": q},
                "post": post, "pre": pre, "probe": probe}

    cs.append(al({"how": "from_matrix"}, "pos", "iadd", [102.0, 51.5, 1.0]))
    cs.append(al({"how": "ctor", "rot_form": "tuple"}, "pos", "zero", [0.0, 0.0, 0.0]))
    cs.append(al({"how": "ctor", "rot_form": "quat_array"}, "both", "assign", [5.0, 6.0, 7.0], q7n))
    cs.append(al({"how": "ctor", "rot_form": "mat3"}, "rot", "assign", [0.0, 0.0, 0.0], half))
    cs.append(al({"how": "ctor", "rot_form": "mat4"}, "both", "iadd", [-8.0, 0.25, 3.0], half))
    cs.append(al({"how": "from_matrix_view"}, "both", "assign", [1.0, 2.0, 3.0], q7n))
    return cs


def _gen_chain(rng, frames):
    n = rng.choice([1, 2, 2, 3, 3, 4, 4])
    if rng.random() < 0.8:
        fs = rng.sample(frames, n + 1)
    else:
        pool = rng.sample(frames, 2)
        fs = [rng.choice(pool) for _ in range(n + 1)]  # repeated frames, X-to-X matrices
    mats = []
    for i in range(n):
        mats.append(_rand_mat(rng, fs[i], fs[i + 1], bad=0.01))
    if n > 1 and rng.random() < 0.2:  # injected mismatch
        i = rng.randrange(1, n)
        if rng.random() < 0.5:
            mats[i]["src"], mats[i]["dst"] = mats[i]["dst"], mats[i]["src"]
        else:
            mats[i]["src"] = rng.choice(frames)
    return {"kind": "chain", "mats": mats, "via": [rng.choice(["dot", "tf", "tf_kw"]) for _ in range(n - 1)], "probe": _rand_probe(rng)}


def _rand_arg(rng, frames, dst_name):
    r = rng.random()
    num = _rand_num(rng)
    if r < 0.35:
        return {"kind": "pos", "pos": _rand_pos(rng, num), "num": num, "pform": rng.choice(POS_FORMS)}
    if r < 0.7:
        return {"kind": "pose", "pos": _rand_pos(rng, num), "q": _rand_quat_num(rng, num), "num": num, "pform": rng.choice(POS_FORMS),
                "rot_form": rng.choice(ROT_FORMS)}
    if r < 0.93:
        src = dst_name if rng.random() < 0.75 else rng.choice(frames)
        return {"kind": "mat", **_rand_mat(rng, src, rng.choice(frames))}
    return {"kind": rng.choice(MALFORMED)}


def _gen_registry(rng, frames):
    pool = rng.sample(frames, rng.choice([2, 3, 3, 4]))
    n = rng.choice([0, 1, 1, 2, 2, 3, 4])
    mats = []
    for _ in range(n):
        if mats and rng.random() < 0.25:  # duplicate key or reverse pair of an earlier entry
            prev = rng.choice(mats)
            s, d = (prev["src"], prev["dst"]) if rng.random() < 0.5 else (prev["dst"], prev["src"])
        else:
            s, d = rng.choice(pool), rng.choice(pool)
        mats.append(_rand_mat(rng, s, d, bad=0.005))
    init = "none" if n == 0 and rng.random() < 0.5 else rng.choice(["list", "tuple", "setitem"] + (["single"] if n == 1 else []))
    queries = []
    for _ in range(rng.randint(1, 6)):
        r = rng.random()
        if mats and r < 0.5:
            m = rng.choice(mats)
            s, d = (m["src"], m["dst"]) if rng.random() < 0.5 else (m["dst"], m["src"])
        elif r < 0.65:
            s = d = rng.choice(pool)
        else:
            s, d = rng.choice(pool + [rng.choice(frames)]), rng.choice(pool)
        queries.append({"src": s, "src_sp": _rand_sp(rng, 0.03), "dst": d, "dst_sp": _rand_sp(rng, 0.03),
                        "form": rng.choice(["tuple", "list", "key"]), "call": rng.choice(["args", "kw"]),
                        "arg": _rand_arg(rng, frames, d)})
    return {"kind": "registry", "init": init, "mats": mats, "queries": queries}


ALIAS_BUILDS = ("ctor", "ctor", "from_matrix", "from_matrix_view")
ALIAS_ROT = ("tuple", "quatobj", "quat_array", "mat3", "mat4")  # rotation argument next to a position ndarray


def _rand_probe_keys(rng, pool, outside):
    """every ordered pair of the pool (X-to-X included) and two keys nothing is registered for"""
    pairs = [(a, b) for a in pool for b in pool] + [(pool[0], outside), (outside, pool[-1])]
    ks = [{"src": a, "src_sp": rng.choice(SPELLINGS), "dst": b, "dst_sp": rng.choice(SPELLINGS),
           "form": rng.choice(["tuple", "list", "key"]), "call": rng.choice(["args", "kw"])} for a, b in pairs]
    # and a key with a name that is no frame (pair or list: a TransformKey cannot be made of it)
    a, b = rng.choice(pairs)
    bad = rng.randrange(2)
    ks.append({"src": a, "src_sp": "bad" if bad == 0 else rng.choice(SPELLINGS), "dst": b, "dst_sp": "bad" if bad == 1 else rng.choice(SPELLINGS),
               "form": rng.choice(["tuple", "list"]), "call": rng.choice(["args", "kw"])})
    return ks


def _gen_regseq(rng, frames, force=None):
    """one registry and a sequence of assignments / deletions / deep copies / queries; after every
    step the whole probe set (all pairs of the pool) is asked again"""
    pool = rng.sample(frames, rng.choice([2, 3, 3, 3, 3, 4]))
    outside = rng.choice([f for f in frames if f not in pool])
    mats = []
    for _ in range(rng.choice([0, 1, 1, 1, 2, 2, 3])):
        if mats and rng.random() < 0.25:
            prev = rng.choice(mats)
            s, d = (prev["src"], prev["dst"]) if rng.random() < 0.5 else (prev["dst"], prev["src"])
        else:
            s, d = rng.sample(pool, 2) if rng.random() < 0.9 else [rng.choice(pool)] * 2
        mats.append(_rand_mat(rng, s, d))
    init = "none" if not mats and rng.random() < 0.5 else rng.choice(["list", "tuple", "setitem"] + (["single"] if len(mats) == 1 else []))
    keys = []
    for m in mats:
        if _spec_key(m) not in keys:
            keys.append(_spec_key(m))
    ops = []
    plan = list(force) if force else [None] * rng.randint(2, 6)
    for want in plan:
        r = rng.random()
        kind = want or ("set" if r < 0.5 else "del" if r < 0.7 else "copy" if r < 0.82 else "query")
        if kind == "del" and not keys and rng.random() < 0.8:
            kind = "set"
        if kind == "set":
            c = rng.random()
            only = [k for k in keys if (k[1], k[0]) not in keys and k[0] != k[1]]
            if only and c < 0.45:      # overwrite a key whose reverse is answered through the inverse
                s, d = rng.choice(only)
            elif only and c < 0.6:     # register the reverse of such a key: direct answer replaces the inverse
                d, s = rng.choice(only)
            elif keys and c < 0.7:     # overwrite any key
                s, d = rng.choice(keys)
            else:                      # (mostly) a new key
                s, d = rng.sample(pool, 2) if rng.random() < 0.93 else [rng.choice(pool)] * 2
            ops.append({"op": "set", "mat": _rand_mat(rng, s, d), "src_sp": rng.choice(SPELLINGS), "dst_sp": rng.choice(SPELLINGS),
                        "form": rng.choice(["tuple", "list", "key"])})
            if (s, d) not in keys:
                keys.append((s, d))
        elif kind == "del":
            if keys and rng.random() < 0.88:
                s, d = rng.choice(keys)
            else:
                s, d = rng.choice(pool), rng.choice(pool)  # possibly not registered
            ops.append({"op": "del", "src": s, "src_sp": rng.choice(SPELLINGS), "dst": d, "dst_sp": rng.choice(SPELLINGS),
                        "form": rng.choice(["tuple", "list", "key"])})
            if (s, d) in keys:
                keys.remove((s, d))
        elif kind == "copy":
            ops.append({"op": "copy"})
        else:
            if keys and rng.random() < 0.6:
                s, d = rng.choice(keys)
                if rng.random() < 0.6:
                    s, d = d, s
            else:
                s, d = rng.choice(pool + [outside]), rng.choice(pool)
            ops.append({"op": "query", "src": s, "src_sp": _rand_sp(rng, 0.03), "dst": d, "dst_sp": _rand_sp(rng, 0.03),
                        "form": rng.choice(["tuple", "list", "key"]), "call": rng.choice(["args", "kw"]),
                        "arg": _rand_arg(rng, frames, d)})
    num = _rand_num(rng)
    if rng.random() < 0.7:
        parg = {"kind": "pose", "pos": _rand_pos(rng, num), "q": _rand_quat_num(rng, num), "num": num, "pform": rng.choice(POS_FORMS),
                "rot_form": rng.choice(ROT_FORMS)}
    else:
        parg = {"kind": "pos", "pos": _rand_pos(rng, num), "num": num, "pform": rng.choice(POS_FORMS)}
    return {"kind": "regseq", "init": init, "mats": mats, "ops": ops, "probes": _rand_probe_keys(rng, pool, outside), "parg": parg}


def _gen_alias(rng, frames):
    """a transform built from the caller's numpy arrays, which the caller then changes in place"""
    w, x, y, z = rng.sample(frames, 4)
    how = rng.choice(ALIAS_BUILDS)
    build = {"how": how}
    if how == "ctor":
        build["rot_form"] = rng.choice(ALIAS_ROT)
    can_rot = how != "ctor" or build["rot_form"] in ("quat_array", "mat3", "mat4")
    what = rng.choice(["pos", "pos", "rot", "both"]) if can_rot else "pos"
    mhow = rng.choice(["iadd", "iadd", "assign", "zero"])
    spec = _rand_mat(rng, x, y)
    spec["input"] = "ndarray"
    while True:
        mut = {"what": what, "how": mhow, "pos": [0.0, 0.0, 0.0] if mhow == "zero" else _rand_pos(rng, spec["num"]), "q": _rand_quat(rng)}
        moved = what in ("pos", "both") and mut["pos"] != spec["pos"]
        turned = what in ("rot", "both") and [abs(_F(c)) for c in mut["q"]] != [abs(_F(c)) for c in spec["q"]]
        if moved or turned:
            break
        if mhow == "zero":
            spec["pos"] = [float(rng.randint(1, 64)) if spec["num"] in INT_NUMS else core.dyadic(rng, 1, 64, 8) for _ in range(3)]
    return {"kind": "alias", "mats": [], "mat": spec, "build": build, "mut": mut, "post": dict(_rand_mat(rng, y, z), input="tuple"),
            "pre": dict(_rand_mat(rng, w, x), input="tuple"), "probe": _rand_probe(rng)}


def _systematic(rng, frames, tier):
    """every frame X-to-X in all spelling pairs; every ordered pair direct / inverse / missing"""
    cs = []
    for x in frames:
        others = [f for f in frames if f != x]
        mats = [_rand_mat(rng, rng.choice(others), x), _rand_mat(rng, x, x)] if rng.random() < 0.7 else []
        qs = []
        for a in SPELLINGS:
            for b in SPELLINGS:
                qs.append({"src": x, "src_sp": a, "dst": x, "dst_sp": b, "form": rng.choice(["tuple", "list", "key"]),
                           "call": rng.choice(["args", "kw"]), "arg": _rand_arg(rng, frames, x)})
        cs.append({"kind": "registry", "init": "list", "mats": mats, "queries": qs})
    pairs = [(x, y) for x in frames for y in frames if x != y]
    if tier == "quick":
        pairs = rng.sample(pairs, 120)
    for x, y in pairs:
        z = rng.choice([f for f in frames if f not in (x, y)])
        qs = []
        for s, d in [(x, y), (y, x), (x, z), (z, y)]:
            qs.append({"src": s, "src_sp": rng.choice(SPELLINGS), "dst": d, "dst_sp": rng.choice(SPELLINGS),
                       "form": rng.choice(["tuple", "list", "key"]), "call": rng.choice(["args", "kw"]),
                       "arg": _rand_arg(rng, frames, d)})
        cs.append({"kind": "registry", "init": rng.choice(["list", "single", "setitem"]), "mats": [_rand_mat(rng, x, y)], "queries": qs})
    return cs


def generate(rng, tier):
    frames = _frames()
    n = 1500 if tier == "quick" else 10000
    cases = _systematic(rng, frames, tier)
    for _ in range(n):
        cases.append(_gen_chain(rng, frames))
        cases.append(_gen_registry(rng, frames))
    cases.extend(_sequences_and_aliases(rng, frames, 400 if tier == "quick" else 3000))
    return cases


def _sequences_and_aliases(rng, frames, n):
    cases = []
    # the shapes that must occur: ask, modify, ask again (directly and on a deep copy)
    shapes = [("set",), ("del",), ("copy", "set"), ("copy", "del"), ("set", "copy", "set"), ("set", "del"), ("del", "set"),
              ("query", "set", "query"), ("copy", "copy", "set")]
    for sh in shapes:
        for _ in range(6):
            cases.append(_gen_regseq(rng, frames, force=sh))
    for _ in range(n):
        cases.append(_gen_regseq(rng, frames))
        cases.append(_gen_alias(rng, frames))
    return cases


# ----------------------------------------------------------------------------- implementation

def _build_all(specs):
    mats = []
    for i, s in enumerate(specs):
        th = _build_thunk(s)
        try:
            mats.append(th())
        except Exception as e:  # noqa
            return None, {"err": type(e).__name__, "at": i}
    return mats, None


def _construct_registry(init, mats, specs):
    from perception_eval.common.transform import TransformDict, TransformKey

    if init == "none":
        return TransformDict(None) if not mats else TransformDict(mats)
    if init == "single" and len(mats) == 1:
        return TransformDict(mats[0])
    if init == "tuple":
        return TransformDict(tuple(mats))
    if init == "setitem":
        td = TransformDict()
        for i, (m, s) in enumerate(zip(mats, specs)):
            k = (_frame_arg(s["src"], "upper" if i % 2 else "member"), _frame_arg(s["dst"], "lower"))
            td[TransformKey(*k) if i % 3 == 0 else k] = m
        return td
    return TransformDict(mats)


def _mk_key(src, ssp, dst, dsp, form):
    from perception_eval.common.transform import TransformKey

    ks, kd = _frame_arg(src, ssp), _frame_arg(dst, dsp)
    return TransformKey(ks, kd) if form == "key" else ([ks, kd] if form == "list" else (ks, kd))


def _answer(td, qd, mats):
    """td.transform(key, ...) for one query description"""
    a = qd["arg"]
    num = a.get("num", "float")
    pos = _seq_arg(a["pos"], a.get("pform", "tuple"), num) if "pos" in a and a["kind"] != "mat" else (1.0, 2.0, 3.0)
    rot = _rot_arg(a["q"], a["rot_form"], num) if a["kind"] == "pose" else (1.0, 0.0, 0.0, 0.0)
    mat = None
    if a["kind"] == "mat":
        th = _build_thunk(a)
        try:
            mat = th()
        except Exception as e:  # noqa
            return {"arg_err": type(e).__name__}
    elif a["kind"] == "posandmat":
        mat = mats[0] if mats else None

    def run():
        key = _mk_key(qd["src"], qd["src_sp"], qd["dst"], qd["dst_sp"], qd["form"])
        return _call_transform(td, key, a["kind"], pos, rot, mat, qd["call"])

    return _try(run)


# ----------------------------------------------------------------------------- every access path of the registry

# A registry is asked not only through `transform`: the statement says it "accepts frame names or frame enums
# interchangeably as keys", so every public method that takes a KEY must read it the same way (TransformKey / pair / list;
# member, lower-, upper-, mixed-case name).  The paths are ENUMERATED FROM THE CLASS: the known lookups, plus any other
# public method whose FIRST PARAMETER IS A KEY BY ITS SIGNATURE (named `key`, or annotated with TransformKey /
# TransformKeyType).  Such a method is tried with the key as its only argument on a deep copy and must treat every spelling
# like the canonical TransformKey(member, member).  Any other unknown public method (e.g. a convenience `add(matrix)`) is
# `undriven`: recorded in the histogram, never judged.
LOOKUP_RULES = ("get", "__getitem__", "__contains__", "load_key")
_NO_KEY_PATHS = {"keys", "items", "values", "__iter__", "__len__", "__repr__", "__str__", "__bool__", "copy", "__copy__", "__deepcopy__",
                 "__reduce__", "__reduce_ex__", "__getstate__", "__setstate__", "__eq__", "__ne__", "__hash__", "__init__",
                 "__init_subclass__", "__class_getitem__", "__sizeof__", "__reversed__", "clear", "popitem", "update"}
_DRIVEN_ELSEWHERE = {"transform", "__setitem__", "__delitem__"}  # queries and the set / del operations of the sequences
_PATHS = None


def _takes_one_key(fn):
    """is `fn` (a function found on the class) a method of exactly one required argument that is a key by signature?"""
    import inspect

    try:
        ps = list(inspect.signature(fn).parameters.values())
    except (TypeError, ValueError):
        return False
    if ps and ps[0].name in ("self", "cls"):
        ps = ps[1:]
    req = [q for q in ps if q.default is inspect.Parameter.empty
           and q.kind in (inspect.Parameter.POSITIONAL_ONLY, inspect.Parameter.POSITIONAL_OR_KEYWORD)]
    if len(req) != 1 or not ps or ps[0] is not req[0]:
        return False
    ann = ps[0].annotation
    ann = "" if ann is inspect.Parameter.empty else (ann if isinstance(ann, str) else getattr(ann, "__name__", repr(ann)))
    return ps[0].name == "key" or "TransformKey" in ann


def _registry_paths():
    """(lookups with a rule, unknown key-taking methods, unknown methods that are not driven) among the public callables
    of TransformDict"""
    global _PATHS
    if _PATHS is None:
        from perception_eval.common.transform import TransformDict

        base = set(dir(object))
        known, generic, undriven = [], [], []
        for n in dir(TransformDict):
            if n in base or n.startswith("_TransformDict__") or not callable(getattr(TransformDict, n, None)):
                continue
            if n in LOOKUP_RULES:
                known.append(n)
            elif n not in _NO_KEY_PATHS and n not in _DRIVEN_ELSEWHERE:
                (generic if _takes_one_key(getattr(TransformDict, n)) else undriven).append(n)
        _PATHS = (known, generic, undriven)
    return _PATHS


def _canon_look(r):
    from perception_eval.common.transform import HomogeneousMatrix, TransformKey

    if isinstance(r, HomogeneousMatrix):
        return _hm(r)
    if r is None:
        return {"none": True}
    if isinstance(r, bool):
        return {"bool": r}
    if isinstance(r, TransformKey):
        return {"key": [_fname(r.src), _fname(r.dst)]}
    try:
        return _canon_result(r)
    except Exception:  # noqa
        return {"other": repr(r)[:80]}


def _look_call(reg, name, key):
    if name == "get":
        return reg.get(key)
    if name == "__getitem__":
        return reg[key]
    if name == "__contains__":
        return key in reg
    if name == "load_key":
        from perception_eval.common.transform import TransformKey

        return reg.load_key(key.src, key.dst) if isinstance(key, TransformKey) else reg.load_key(*key)
    return getattr(reg, name)(key)


def _lookups(reg, qd):
    """the answers of every lookup path to one key description: {path: {"spelled": answer to the key as spelled,
    "canonical": answer to TransformKey(member, member)}}; unknown key-taking methods run on deep copies"""
    import copy

    known, generic, _ = _registry_paths()
    bad = _norm_name(qd["src"], qd["src_sp"]) is None or _norm_name(qd["dst"], qd["dst_sp"]) is None

    def ask(r, name, canonical):
        def run():
            if canonical:
                key = _mk_key(qd["src"], "member", qd["dst"], "member", "key")
            else:
                key = _mk_key(qd["src"], qd["src_sp"], qd["dst"], qd["dst_sp"], qd["form"])
            return _look_call(r, name, key)
        try:
            res = run()
        except Exception as e:  # noqa
            return {"err": type(e).__name__}
        return _canon_look(res)

    out = {}
    for name in known:
        out[name] = {"spelled": ask(reg, name, False), "canonical": None if bad else ask(reg, name, True)}
    for name in generic:  # unknown key-taking method: the spelled key on one deep copy, the canonical key on another
        res = []
        for canonical in (False, True):
            if canonical and bad:
                res.append(None)
                continue
            r2 = copy.deepcopy(reg)
            ans = ask(r2, name, canonical)
            try:
                after = sorted([_fname(k.src), _fname(k.dst)] for k in r2.keys())
            except Exception:  # noqa
                after = None
            res.append({"ans": ans, "keys_after": after})
        out["?" + name] = {"spelled": res[0], "canonical": res[1]}
    return out


def _same_look(a, b):
    """two answers of one access path are the same answer: both raised (any class), or equal values (matrices 1e-9)"""
    if a is None or b is None:
        return a is b
    if "ans" in a and "ans" in b:
        return a.get("keys_after") == b.get("keys_after") and _same_look(a["ans"], b["ans"])
    if "err" in a or "err" in b:
        return "err" in a and "err" in b
    if "mat" in a or "mat" in b:
        return "mat" in a and "mat" in b and _close_list(a["mat"], b["mat"]) and (a["src"], a["dst"]) == (b["src"], b["dst"])
    return a == b


def _check_lookups(qd, look, table, amb=()):
    """"accepts frame names or frame enums interchangeably as keys": every access path answers the key as spelled exactly
    as it answers TransformKey(member, member); and a matrix it hands out for X-to-Y is the registered X-to-Y (or, from a
    registry that also keeps inverses, the inverse of the registered Y-to-X).  NOT demanded (the statement is silent):
    `get` -> None / `[]` -> KeyError / `in` -> False for a direction that is only registered the other way round, the
    number of entries, exception classes."""
    import numpy as np

    s, t = _norm_name(qd["src"], qd["src_sp"]), _norm_name(qd["dst"], qd["dst_sp"])
    if s is None or t is None:
        return None       # a name that is no frame: outside "all key spellings"
    if (s, t) in amb or (t, s) in amb:
        return None       # registered twice at construction: which one counts is not stated
    where = f"key ({qd['src']}:{qd['src_sp']}, {qd['dst']}:{qd['dst_sp']}) given as {qd['form']}"
    for name, ans in look.items():
        sp, ca = ans["spelled"], ans["canonical"]
        if not _same_look(sp, ca):
            return (f"{name.lstrip('?')}({where}) = {_short(sp)} but with TransformKey(member, member) {_short(ca)}")
        if name.startswith("?") or "mat" not in sp:
            continue
        if (s, t) in table:
            M = table[(s, t)]
        elif (t, s) in table:
            M = np.linalg.inv(table[(t, s)])
        else:
            continue
        if name in ("get", "__getitem__") and (not _close_list(sp["mat"], M) or (sp["src"], sp["dst"]) != (s, t)):
            return f"{name}({where}) = {_short(sp)}, but {s}->{t} stands for the matrix {M.tolist()}"
    # a registered direction is found by the lookups (through any spelling)
    if (s, t) in table:
        for name in ("get", "__getitem__"):
            if name in look and "mat" not in look[name]["spelled"]:
                return f"{name}({where}) = {_short(look[name]['spelled'])}, but {s}->{t} is registered"
        if "__contains__" in look and look["__contains__"]["spelled"].get("bool") is not True:
            return f"{where} in registry = {_short(look['__contains__']['spelled'])}, but {s}->{t} is registered"
    return None


# ----------------------------------------------------------------------------- operation sequences on one registry

def _spec_key(spec):
    return (spec["src"], spec["dst"])


def _seq_contents(case):
    """what the registry holds after construction and after every operation, written down from the
    case alone: a list (one entry per step) of dicts (src, dst) -> matrix spec.  `reg[key] = m` puts m
    under its key, `del reg[key]` removes the key (nothing happens when it is absent), `deepcopy` and
    queries change nothing."""
    cur = {}
    for sp in case["mats"]:
        cur[_spec_key(sp)] = sp
    steps = [dict(cur)]
    for op in case["ops"]:
        if op["op"] == "set":
            cur[_spec_key(op["mat"])] = op["mat"]
        elif op["op"] == "del":
            cur.pop((op["src"], op["dst"]), None)
        steps.append(dict(cur))
    return steps


def _probe_queries(case):
    return [dict(pq, arg=case["parg"]) for pq in case["probes"]]


def _len(reg):
    """number of entries the registry reports (evidence only: the statement does not say how many entries a registry
    holds -- one that also stores inverses holds more)"""
    try:
        return len(reg)
    except Exception:  # noqa
        return None


def _ambiguous(specs):
    """keys handed to the constructor more than once with different matrices: which registration counts is not stated
    by the property (today the later one), so queries about them (either direction) are neither judged nor compared"""
    seen, amb = {}, set()
    for sp in specs:
        k = _spec_key(sp)
        if k in seen and (seen[k]["pos"], seen[k]["q"]) != (sp["pos"], sp["q"]):
            amb.add(k)
        seen.setdefault(k, sp)
    return amb


def _seq_ambiguous(case):
    """`_ambiguous` after construction and after every operation: an assignment or a deletion of the key settles it"""
    amb = set(_ambiguous(case["mats"]))
    steps = [set(amb)]
    for op in case["ops"]:
        if op["op"] == "set":
            amb.discard(_spec_key(op["mat"]))
        elif op["op"] == "del":
            amb.discard((op["src"], op["dst"]))
        steps.append(set(amb))
    return steps


def _run_regseq(case, mats):
    import copy

    from perception_eval.common.transform import TransformDict

    try:
        td = _construct_registry(case["init"], mats, case["mats"])
    except Exception as e:  # noqa
        return {"err": type(e).__name__, "at": -1}
    probes = _probe_queries(case)
    contents = _seq_contents(case)

    ref = {"cont": None, "answers": None}

    def observe(reg, cont, res):
        # the same questions to a registry built on the spot from what is registered now (the reference answers are
        # kept as long as the contents stay the same)
        if ref["cont"] != cont:
            fresh = TransformDict([_build(sp) for sp in cont.values()])
            ref["cont"], ref["answers"] = cont, [_answer(fresh, qd, mats) for qd in probes]
        return {"res": res, "probes": [_answer(reg, qd, mats) for qd in probes], "fresh": ref["answers"], "len": _len(reg),
                "look": [_lookups(reg, qd) for qd in probes]}

    steps = [observe(td, contents[0], None)]
    olds = []
    for i, op in enumerate(case["ops"]):
        res = None
        try:
            if op["op"] == "set":
                sp = op["mat"]
                td[_mk_key(sp["src"], op["src_sp"], sp["dst"], op["dst_sp"], op["form"])] = _build(sp)
            elif op["op"] == "del":
                del td[_mk_key(op["src"], op["src_sp"], op["dst"], op["dst_sp"], op["form"])]
            elif op["op"] == "copy":
                olds.append((td, contents[i + 1]))
                td = copy.deepcopy(td)
            else:
                res = _answer(td, op, mats)
        except Exception as e:  # noqa
            res = {"err": type(e).__name__}
        steps.append(observe(td, contents[i + 1], res))
    # the registries left behind by deepcopy still answer from THEIR contents
    return {"steps": steps, "olds": [observe(o, c, None) for o, c in olds]}


# ----------------------------------------------------------------------------- caller-owned arrays changed in place

def _alias_follow_spec(case):
    """the spec the caller's arrays denote after the in-place change"""
    spec, mut = case["mat"], case["mut"]
    sp = dict(spec)
    if mut["what"] in ("pos", "both"):
        sp["pos"] = list(mut["pos"])
    if mut["what"] in ("rot", "both"):
        sp["q"] = list(mut["q"])
    return sp


def _run_alias(case):
    import numpy as np
    from perception_eval.common.transform import HomogeneousMatrix, TransformDict

    spec, b, mut, probe = case["mat"], case["build"], case["mut"], case["probe"]
    src, dst = _frame_arg(spec["src"], spec["src_sp"]), _frame_arg(spec["dst"], spec["dst_sp"])
    M0 = _spec_matrix(spec)
    M1 = _spec_matrix(_alias_follow_spec(case))
    q1 = [float(_F(c)) for c in _alias_follow_spec(case)["q"]]
    bufs = {}
    # ---- the caller's arrays and the transform made from them
    if b["how"] == "ctor":
        # the caller's position buffer in the numeric type of the spec (when the new position is representable in it too)
        bufs["pos"] = np.array(spec["pos"], dtype=float)
        if mut["what"] not in ("pos", "both") or _num_scalars(mut["pos"], spec.get("num", "float")) is not None:
            bufs["pos"] = _num_array(bufs["pos"], spec.get("num", "float"))
        rf = b["rot_form"]
        if rf == "quat_array":
            bufs["rot"] = np.array([float(_F(c)) for c in spec["q"]])
        elif rf == "mat3":
            bufs["rot"] = M0[:3, :3].copy()
        elif rf == "mat4":
            bufs["rot"] = np.eye(4)
            bufs["rot"][:3, :3] = M0[:3, :3]
        rot = bufs["rot"] if "rot" in bufs else _rot_arg(spec["q"], rf)
        A = HomogeneousMatrix(bufs["pos"], rot, src, dst)
        pos_view = bufs["pos"]
    elif b["how"] == "from_matrix":
        bufs["mat"] = M0.copy()
        A = HomogeneousMatrix.from_matrix(bufs["mat"], src, dst)
        pos_view = bufs["mat"][:3, 3]
    else:  # a 4x4 slice of a bigger array of poses
        bufs["stack"] = np.stack([np.eye(4), M0.copy(), np.eye(4)])
        A = HomogeneousMatrix.from_matrix(bufs["stack"][1], src, dst)
        pos_view = bufs["stack"][1][:3, 3]
    B, C = _build(case["post"]), _build(case["pre"])
    written = {k: v.copy() for k, v in bufs.items()}
    p, r = _probe_args(probe)

    def observe():
        d = _info(A, probe)
        d["post"] = _try(lambda: B.dot(A))
        d["post_tf"] = _try(lambda: A.transform(B))
        d["pre"] = _try(lambda: A.dot(C))
        d["pre_tf"] = _try(lambda: C.transform(matrix=A))
        d["inv_dot"] = _try(lambda: A.inv().dot(A))
        d["dot_inv"] = _try(lambda: A.dot(A.inv()))
        reg = TransformDict(A)
        d["reg_fwd"] = _try(lambda: reg.transform((src, dst), p, r))

        def back():
            f = reg.transform((src, dst), p, r)
            return reg.transform((dst, src), f[0], f[1])

        d["reg_rt"] = _try(back)
        return d

    out = {"before": observe()}
    intact = all(np.array_equal(bufs[k], written[k]) for k in bufs)
    # ---- the caller goes on using its arrays
    if mut["what"] in ("pos", "both"):
        new = np.array(mut["pos"], dtype=float)
        if mut["how"] == "iadd":
            pos_view += (new - np.array(spec["pos"], dtype=float)).astype(pos_view.dtype)
        elif mut["how"] == "zero":
            pos_view *= 0
        else:
            pos_view[:] = new
    if mut["what"] in ("rot", "both"):
        if b["how"] == "ctor":
            if b["rot_form"] == "quat_array":
                bufs["rot"][:] = q1
            else:
                bufs["rot"][:3, :3] = M1[:3, :3]
        elif b["how"] == "from_matrix":
            bufs["mat"][:3, :3] = M1[:3, :3]
        else:
            bufs["stack"][1][:3, :3] = M1[:3, :3]
    written = {k: v.copy() for k, v in bufs.items()}
    out["after"] = observe()
    out["inputs_intact"] = bool(intact and all(np.array_equal(bufs[k], written[k]) for k in bufs))
    return out


def run_impl(case):
    import numpy as np

    if case["kind"] == "alias":
        return _run_alias(case)
    mats, err = _build_all(case["mats"])
    if err:
        return err
    if case["kind"] == "chain":
        probe = case["probe"]
        out = {"mats": [_info(A, probe) for A in mats], "comps": []}
        # step-by-step transformation of the probe (oracle material)
        p, r = _probe_args(probe)
        steps = []
        cur = (p, r)
        try:
            for A in mats:
                cur = A.transform(cur[0], cur[1])
                steps.append({"pos": [float(c) for c in cur[0]], "rot": _rot_canon(cur[1])})
        except Exception as e:  # noqa
            steps.append({"err": type(e).__name__})
        out["steps"] = steps
        acc = mats[0] if mats else None
        for m, via in zip(mats[1:], case["via"]):
            try:
                if via == "dot":
                    acc = m.dot(acc)
                elif via == "tf":
                    acc = acc.transform(m)
                else:
                    acc = acc.transform(matrix=m)
            except Exception as e:  # noqa
                out["comps"].append({"err": type(e).__name__})
                break
            out["comps"].append(_info(acc, probe))
        return out
    if case["kind"] == "registry":
        try:
            td = _construct_registry(case["init"], mats, case["mats"])
        except Exception as e:  # noqa
            return {"err": type(e).__name__, "at": -1}
        answers = [_answer(td, qd, mats) for qd in case["queries"]]
        return {"answers": answers, "len": _len(td), "look": [_lookups(td, qd) for qd in case["queries"]]}
    if case["kind"] == "regseq":
        return _run_regseq(case, mats)
    raise ValueError(case["kind"])


# ----------------------------------------------------------------------------- model side

def _model_mat(spec):
    return {"pos": [core.q(c) for c in spec["pos"]], "q": list(spec["q"]),
            "src": _model_arg(spec["src"], spec["src_sp"]), "dst": _model_arg(spec["dst"], spec["dst_sp"])}


def _model_targ(a):
    if a["kind"] == "pos":
        return {"kind": "pos", "pos": [core.q(c) for c in a["pos"]]}
    if a["kind"] == "pose":
        return {"kind": "pose", "pos": [core.q(c) for c in a["pos"]], "q": list(a["q"])}
    if a["kind"] == "mat":
        return {"kind": "mat", **_model_mat(a)}
    return {"kind": a["kind"]}


def _model_query(qd):
    return {"src": _model_arg(qd["src"], qd["src_sp"]), "dst": _model_arg(qd["dst"], qd["dst_sp"])}


def _model_probe(pr):
    return {"pos": [core.q(c) for c in pr["pos"]], "q": list(pr["q"])}


def _alias_after_spec(case, out):
    """which matrix the real object presents after the caller changed its arrays: the one it was built
    from, the one the arrays denote now, or a mixture of the two (None: none of them)"""
    import numpy as np

    try:
        M = np.array(out["after"]["m"]["mat"], dtype=float)
    except Exception:  # noqa
        return None, "none"
    spec, fol = case["mat"], _alias_follow_spec(case)
    cands = [("kept", spec), ("follows", fol), ("mixed", dict(spec, pos=fol["pos"])), ("mixed", dict(spec, q=fol["q"]))]
    for name, sp in cands:
        if M.shape == (4, 4) and _close_list(M, _spec_matrix(sp)):
            return sp, name
    return None, "none"


def model_requests(case, out):
    if case["kind"] == "alias":
        if "before" not in out:
            return []
        reqs = [{"op": "chain", "mats": [_model_mat(case["mat"])], "via": [], "probe": _model_probe(case["probe"])}]
        sp, _ = _alias_after_spec(case, out)
        if sp is not None:
            reqs.append({"op": "chain", "mats": [_model_mat(sp)], "via": [], "probe": _model_probe(case["probe"])})
        return reqs
    mats = [_model_mat(s) for s in case["mats"]]
    if case["kind"] == "chain":
        return [{"op": "chain", "mats": mats, "via": ["dot" if v == "dot" else "tf" for v in case["via"]],
                 "probe": _model_probe(case["probe"])}]
    if case["kind"] == "regseq":
        ops = []
        for op in case["ops"]:
            if op["op"] == "set":
                sp = op["mat"]  # the model keys a matrix by its labels: hand them over in the spelling of the key
                ops.append({"op": "set", "mat": dict(_model_mat(sp), src=_model_arg(sp["src"], op["src_sp"]),
                                                     dst=_model_arg(sp["dst"], op["dst_sp"]))})
            elif op["op"] == "del":
                ops.append({"op": "del", **_model_query(op)})
            elif op["op"] == "copy":
                ops.append({"op": "copy"})
            else:
                ops.append({"op": "query", **_model_query(op), "arg": _model_targ(op["arg"])})
        return [{"op": "regseq", "mats": mats, "ops": ops, "probes": [_model_query(pq) for pq in case["probes"]],
                 "parg": _model_targ(case["parg"]), "paths": _registry_paths()[0]}]
    qs = [dict(_model_query(qd), arg=_model_targ(qd["arg"])) for qd in case["queries"]]
    return [{"op": "registry", "mats": mats, "queries": qs, "paths": _registry_paths()[0]}]


def _num_eq(a, b):
    return core.close(float(a), float(core.unq(b)) if isinstance(b, str) else float(b))


def _cmp(impl, model, path=""):
    """compare what the model states (its keys) with the implementation's canonical result"""
    if isinstance(model, dict):
        if not isinstance(impl, dict):
            return f"{path}: impl {impl!r} vs model {model!r}"
        if ("err" in model) != ("err" in impl):
            return f"{path}: impl {_short(impl)} vs model {_short(model)}"
        if "err" in model:
            return None     # both raised: the property names no exception class ("is rejected", "raises")
        for k, v in model.items():
            if k == "id":
                continue
            if k not in impl:
                return f"{path}.{k}: missing in impl result {_short(impl)} (model {_short(model)})"
            d = _cmp(impl[k], v, f"{path}.{k}")
            if d:
                return d
        return None
    if isinstance(model, list):
        if not isinstance(impl, list) or len(impl) != len(model):
            return f"{path}: impl {_short(impl)} vs model {_short(model)}"
        for i, (a, b) in enumerate(zip(impl, model)):
            d = _cmp(a, b, f"{path}[{i}]")
            if d:
                return d
        return None
    if isinstance(impl, (int, float)) and not isinstance(impl, bool):
        try:
            return None if _num_eq(impl, model) else f"{path}: impl {impl!r} vs model {model} (= {float(core.unq(model))!r})"
        except Exception:
            return f"{path}: impl {impl!r} vs model {model!r}"
    return None if impl == model else f"{path}: impl {impl!r} vs model {model!r}"


def _short(x):
    s = repr(x)
    return s if len(s) < 300 else s[:300] + "…"


def _look_pair(impl_look, model_look):
    """the access-path answers that are comparable: what the implementation answered to the key AS SPELLED against the
    model's answer, only where the model's answer is positive (a registered matrix, the normalised key).  The model's
    negative answers (`get` -> None, `[]` -> KeyError for a direction registered only the other way round) are one
    admissible behaviour, not part of the statement."""
    il, ml = {}, {}
    for name, m in model_look.items():
        if name in impl_look and ("mat" in m or "key" in m):
            il[name], ml[name] = impl_look[name]["spelled"], m
    return il, ml


def _prune_obs(probes, amb, impl, model):
    """one observation of a registry (answers to `probes`, access paths) restricted to the judged queries"""
    keep = [i for i, qd in enumerate(probes) if _judged(qd, amb)]
    i2, m2 = {}, {}
    for key in ("answers", "probes"):
        if key in model:
            i2[key] = [impl[key][i] for i in keep]
            m2[key] = [model[key][i] for i in keep]
    if "look" in model:
        pairs = [_look_pair(impl["look"][i], model["look"][i]) for i in keep]
        i2["look"], m2["look"] = [a for a, _ in pairs], [b for _, b in pairs]
    return i2, m2


def compare(case, out, resps):
    """real code vs Lean model on what the property observes, inside its quantifier.  Not compared: anything built on a
    frame name that is no frame, malformed calls, keys registered twice at construction, exception classes (raised vs
    returned only), the number of entries of a registry, negative answers of get / [] / in, and a transform after the
    caller changed the arrays it was built from (the oracle states what must still hold there)."""
    if out.get("unexpected"):
        return None
    if case["kind"] == "alias":
        resp = resps[0]
        if "mats" not in resp:
            return f"before: model rejected the matrix: {_short(resp)}"
        return _cmp(out["before"], dict(resp["mats"][0]), "before")
    specs = case["mats"]
    if any(_norm_name(s_["src"], s_["src_sp"]) is None or _norm_name(s_["dst"], s_["dst_sp"]) is None for s_ in specs):
        return "skip"
    r = dict(resps[0])
    r.pop("id", None)
    if case["kind"] == "chain":
        return _cmp(out, r)
    amb = _ambiguous(specs)
    if "err" in out and "at" in out:
        if amb:
            return "skip"
        return _cmp(out, r)
    if case["kind"] == "registry":
        return _cmp(*_prune_obs(case["queries"], amb, out, r))
    # regseq
    if "steps" not in r:
        return _cmp(out, r)
    ambs = _seq_ambiguous(case)
    probes = _probe_queries(case)
    for j, (io, mo) in enumerate(zip(out["steps"], r["steps"])):
        i2, m2 = _prune_obs(probes, ambs[j], io, mo)
        op = case["ops"][j - 1] if j else None
        if op is not None and op["op"] == "query" and _judged(op, ambs[j]):
            i2["res"], m2["res"] = io["res"], mo.get("res")   # (assignments / deletions: judged by the oracle only)
        d = _cmp(i2, m2, f".steps[{j}]")
        if d:
            return d
    ci = [i + 1 for i, op in enumerate(case["ops"]) if op["op"] == "copy"]
    for j, (io, mo, i) in enumerate(zip(out["olds"], r.get("olds", []), ci)):
        d = _cmp(*_prune_obs(probes, ambs[i], io, mo), f".olds[{j}]")
        if d:
            return d
    return None


# ----------------------------------------------------------------------------- oracle

def _close_list(a, b):
    import numpy as np

    a, b = np.array(a, dtype=float), np.array(b, dtype=float)
    if a.shape != b.shape:
        return False
    return all(core.close(x, y) for x, y in zip(a.ravel().tolist(), b.ravel().tolist()))


def _pose_of_matrix(M):
    return {"pos": M[:3, 3].tolist(), "rot": M[:3, :3].tolist()}


def _pose_close(res, want):
    return "err" not in res and _close_list(res["pos"], want["pos"]) and ("rot" not in want or _close_list(res["rot"], want["rot"]))


def _check_info(tag, d, M, src, dst, probe_pose, G):
    """group laws for one real matrix whose intended 4x4 matrix is M (numpy), labelled src->dst"""
    import numpy as np

    if "inv_err" in d:
        return f"{tag}.inv() raised {d['inv_err']} (.matrix = {d['m']['mat']}, expected {M.tolist()})"
    m, inv = d["m"], d["inv"]
    if (m["src"], m["dst"]) != (src, dst):
        return f"{tag}: labelled {m['src']}->{m['dst']}, expected {src}->{dst}"
    if (inv["src"], inv["dst"]) != (dst, src):
        return f"{tag}.inv(): labelled {inv['src']}->{inv['dst']}, expected {dst}->{src}"
    if not _close_list(m["mat"], M):
        return f"{tag}: .matrix {m['mat']} is not the homogeneous matrix {M.tolist()}"
    # transforming a pose agrees with multiplying the homogeneous matrices
    want = _pose_of_matrix(M @ G)
    if not _pose_close(d["tf_pose"], want):
        return f"{tag}.transform(p, r) = {d['tf_pose']} but matrix product gives {want}"
    if not _pose_close(d["tf_pos"], {"pos": want["pos"]}):
        return f"{tag}.transform(p) = {d['tf_pos']} but matrix product gives {want['pos']}"
    # transform then inverse / inverse then transform return the original position and orientation
    for k, what in (("rt1", "inv().transform(transform(p, r))"), ("rt2", "transform(inv().transform(p, r))")):
        if not _pose_close(d[k], probe_pose):
            return f"{tag}: {what} = {d[k]}, original pose {probe_pose}"
        # "returns the original position and orientation": the original orientation is a unit quaternion, so q or -q it is
        if "qnorm" in d[k] and abs(d[k]["qnorm"] - 1.0) > 1e-9:
            return f"{tag}: {what} returns a quaternion of norm {d[k]['qnorm']} (the original orientation is a unit quaternion)"
    for k, what in (("rt1_pos", "inv().transform(transform(p))"), ("rt2_pos", "transform(inv().transform(p))")):
        if not _pose_close(d[k], {"pos": probe_pose["pos"]}):
            return f"{tag}: {what} = {d[k]}, original position {probe_pose['pos']}"
    # the inverse's matrix times the matrix is the identity
    if not _close_list(np.array(inv["mat"]) @ np.array(m["mat"]), np.eye(4)):
        return f"{tag}: inv().matrix · matrix is not the identity"
    return None


def oracle(case, out):
    import numpy as np

    if case["kind"] == "alias":
        return _oracle_alias(case, out)
    specs = case["mats"]
    names = [(_norm_name(s["src"], s["src_sp"]), _norm_name(s["dst"], s["dst_sp"])) for s in specs]
    bad = next((i for i, (a, b) in enumerate(names) if a is None or b is None), None)
    if out.get("unexpected"):
        return f"the real code raised {out.get('err')} outside the anticipated places: {_short(out)}"
    if bad is not None:
        # a name that is no frame is outside the quantifier ("all key spellings" of frames): whether such a matrix is
        # rejected (today: ValueError) or accepted is not stated, and nothing built on it is judged
        return None
    amb = _ambiguous(specs) if case["kind"] in ("registry", "regseq") else set()
    if "err" in out and "answers" not in out and "mats" not in out and "steps" not in out:
        if out.get("at") == -1 and amb:
            return None     # the registry refused a key registered twice: not stated either way
        return f"constructing the matrices failed: {out}"
    Ms = [_spec_matrix(s) for s in specs]
    if case["kind"] == "chain":
        pr = case["probe"]
        G = _pose_matrix(pr["pos"], pr["q"])
        probe_pose = _pose_of_matrix(G)
        for i, d in enumerate(out["mats"]):
            f = _check_info(f"M{i}", d, Ms[i], names[i][0], names[i][1], probe_pose, G)
            if f:
                return f
        # composition
        accM, acc_src, acc_dst = (Ms[0], names[0][0], names[0][1]) if Ms else (None, None, None)
        comps = out["comps"]
        for i in range(1, len(specs)):
            if i - 1 >= len(comps):
                return f"composite {i} missing"
            c = comps[i - 1]
            if names[i][0] != acc_dst:  # "composition with mismatched frames is rejected" = raises (any exception class)
                if "err" not in c:
                    return f"composing {names[i][0]}->{names[i][1]} after {acc_src}->{acc_dst} was not rejected: {_short(c)}"
                return None
            if "err" in c:
                return f"composing {names[i][0]}->{names[i][1]} after {acc_src}->{acc_dst} raised {c['err']}"
            accM = Ms[i] @ accM
            acc_dst = names[i][1]
            f = _check_info(f"C{i}", c, accM, acc_src, acc_dst, probe_pose, G)
            if f:
                return f
            # composite = transforming in two (i+1) steps, on the real matrices
            step = out["steps"][i] if i < len(out["steps"]) else {"err": "missing"}
            if "err" in step or not _pose_close(c["tf_pose"], step):
                return f"C{i}.transform(p, r) = {c['tf_pose']} but step by step gives {step}"
        return None
    if case["kind"] == "regseq":
        return _oracle_regseq(case, out)
    # registry
    answers = out["answers"]
    table = {}
    for k, M in zip(names, Ms):
        table[k] = M  # (keys registered twice with different matrices are in `amb`: not judged)
    for qd, ans in zip(case["queries"], answers):
        f = _check_query(qd, ans, table, amb)
        if f:
            return f
    for qd, look in zip(case["queries"], out.get("look", [])):
        f = _check_lookups(qd, look, table, amb)
        if f:
            return f"registered: {sorted(table)}: {f}"
    return None


def _judged(qd, amb=()):
    """is this registry query inside the property's quantifier?  Unknown frame names, malformed calls (no / too many /
    unknown / contradictory arguments), a matrix argument with an unknown frame name and keys registered twice at
    construction are not: neither judged by the oracle nor compared with the model"""
    s, t = _norm_name(qd["src"], qd["src_sp"]), _norm_name(qd["dst"], qd["dst_sp"])
    a = qd["arg"]
    if s is None or t is None or a["kind"] in MALFORMED:
        return False
    if a["kind"] == "mat" and (_norm_name(a["src"], a["src_sp"]) is None or _norm_name(a["dst"], a["dst_sp"]) is None):
        return False
    return (s, t) not in amb and (t, s) not in amb


def _check_query(qd, ans, table, amb=()):
    """the registry rule for one query, `table` = what is registered at the time: (src, dst) -> 4x4 numpy matrix"""
    import numpy as np

    s, t = _norm_name(qd["src"], qd["src_sp"]), _norm_name(qd["dst"], qd["dst_sp"])
    a = qd["arg"]
    where = f"transform(({qd['src']}:{qd['src_sp']}, {qd['dst']}:{qd['dst_sp']}), {a['kind']})"
    if not _judged(qd, amb) or "arg_err" in ans:
        return None  # unknown names / malformed calls / ambiguous registrations: not constrained by the property
    if a["kind"] == "mat":
        ns, nd = _norm_name(a["src"], a["src_sp"]), _norm_name(a["dst"], a["dst_sp"])
        N = _spec_matrix(a)
    if s == t:  # input unchanged
        if a["kind"] == "pos":
            want = {"pos": list(a["pos"])}
        elif a["kind"] == "pose":
            want = _pose_of_matrix(_pose_matrix(a["pos"], a["q"]))
        else:
            want = {"mat": N.tolist(), "src": ns, "dst": nd}
    else:
        if (s, t) in table:
            T = table[(s, t)]
        elif (t, s) in table:
            T = np.linalg.inv(table[(t, s)])
        else:   # "raises when neither direction is registered" (any exception class)
            if "err" not in ans:
                return f"{where}: neither direction registered, expected an exception, got {_short(ans)}"
            return None
        if a["kind"] == "pos":
            want = {"pos": (T @ np.array(list(a["pos"]) + [1.0]))[:3].tolist()}
        elif a["kind"] == "pose":
            want = _pose_of_matrix(T @ _pose_matrix(a["pos"], a["q"]))
        else:
            if ns != t:  # the argument does not start where the transform ends: "mismatched frames is rejected"
                if "err" not in ans:
                    return f"{where}: matrix {ns}->{nd} does not connect to {s}->{t}, expected a rejection, got {_short(ans)}"
                return None
            want = {"mat": (N @ T).tolist(), "src": s, "dst": nd}
    if "err" in ans:
        return f"{where}: raised {ans['err']}, expected {_short(want)}"
    if "mat" in want:
        if "mat" not in ans or not _close_list(ans["mat"], want["mat"]) or (ans["src"], ans["dst"]) != (want["src"], want["dst"]):
            return f"{where}: got {_short(ans)}, expected {_short(want)}"
    elif "mat" in ans or ("rot" in want) != ("rot" in ans) or not _pose_close(ans, want):
        return f"{where}: got {_short(ans)}, expected {_short(want)}"
    return None


def _describe_op(op):
    if op is None:
        return "construction"
    if op["op"] == "set":
        sp = op["mat"]
        return f"reg[({sp['src']}:{op['src_sp']}, {sp['dst']}:{op['dst_sp']})] = matrix"
    if op["op"] == "del":
        return f"del reg[({op['src']}:{op['src_sp']}, {op['dst']}:{op['dst_sp']})]"
    if op["op"] == "copy":
        return "reg = copy.deepcopy(reg)"
    return f"a query ({op['src']}, {op['dst']})"


def _oracle_regseq(case, out):
    """after every operation the registry answers every question the way the rule says for what is
    registered NOW (numpy algebra on the matrices written down from the case), and the way a registry
    built on the spot from the same contents answers"""
    contents = _seq_contents(case)
    ambs = _seq_ambiguous(case)
    probes = _probe_queries(case)
    steps = out["steps"]
    if len(steps) != len(contents):
        raise RuntimeError(f"c18: {len(steps)} steps observed, {len(contents)} expected")

    def check_obs(obs, cont, when, amb):
        table = {k: _spec_matrix(sp) for k, sp in cont.items()}
        for qd, look in zip(probes, obs.get("look", [])):
            f = _check_lookups(qd, look, table, amb)
            if f:
                return f"{when} (registered now: {sorted(table)}): {f}"
        for qd, ans, fresh in zip(probes, obs["probes"], obs["fresh"]):
            f = _check_query(qd, ans, table, amb)
            if f:
                return f"{when} (registered now: {sorted(table)}): {f}"
            if not _judged(qd, amb):
                continue
            d = _cmp(ans, fresh)
            if d:
                return (f"{when}: transform(({qd['src']}, {qd['dst']})) = {_short(ans)} but a registry freshly built from the "
                        f"current contents {sorted(table)} answers {_short(fresh)}")
        return None

    history = []
    for i, (obs, cont) in enumerate(zip(steps, contents)):
        op = case["ops"][i - 1] if i else None
        history.append(_describe_op(op))
        when = "after " + "; ".join(history[-3:])
        res = obs["res"]
        if op is not None:
            if op["op"] == "set" and res is not None:
                return f"{when}: the assignment raised {res}"
            if op["op"] == "del" and res is not None and (op["src"], op["dst"]) in contents[i - 1]:
                return f"{when}: deleting a registered key raised {res}"
            if op["op"] == "query":
                f = _check_query(op, res, {k: _spec_matrix(sp) for k, sp in cont.items()}, ambs[i])
                if f:
                    return f"{when}: {f}"
        f = check_obs(obs, cont, when, ambs[i])
        if f:
            return f
    # registries left behind by deepcopy: unaffected by what happened to the copy
    ci = [i + 1 for i, op in enumerate(case["ops"]) if op["op"] == "copy"]
    if len(ci) != len(out["olds"]):
        raise RuntimeError(f"c18: {len(out['olds'])} registries left behind, {len(ci)} expected")
    for j, (obs, i) in enumerate(zip(out["olds"], ci)):
        f = check_obs(obs, contents[i], f"the original of deepcopy #{j}, asked after the copy went through {len(case['ops']) - i} more operations", ambs[i])
        if f:
            return f
    return None


def _oracle_alias(case, out):
    """a transform built from the caller's numpy arrays.  BEFORE the caller touches them: the full property with the
    matrix written down from the case.  AFTER the caller changed them in place the statement does not say which matrix the
    object stands for (its own copy, the changed buffer, a mixture): what it does say still has to hold for the object as
    it is -- transform followed by the inverse (and the registry's there-and-back) returns the original pose, inv() composed
    with the object is the identity, labels are kept -- and every single result (transform, dot on either side, the
    registry's answer) must be the product with ONE of the matrices the object can stand for.  Whether the library wrote
    into the caller's arrays is recorded (`alias:inputs-written`), not judged: the statement is silent about it."""
    import numpy as np

    if out.get("unexpected"):
        return f"the real code raised {out.get('err')} outside the anticipated places: {_short(out)}"
    spec, pr = case["mat"], case["probe"]
    src, dst = _norm_name(spec["src"], spec["src_sp"]), _norm_name(spec["dst"], spec["dst_sp"])
    zf, wf = case["post"]["dst"], case["pre"]["src"]
    MB, MC = _spec_matrix(case["post"]), _spec_matrix(case["pre"])
    G = _pose_matrix(pr["pos"], pr["q"])
    probe_pose = _pose_of_matrix(G)
    mut = case["mut"]
    eye = np.eye(4)
    for phase in ("before", "after"):
        d = out[phase]
        tag = "A" if phase == "before" else f"A (after the caller changed its {mut['what']} array(s) in place, {mut['how']})"
        if phase == "before":
            cands = [_spec_matrix(spec)]
            f = _check_info(tag, d, cands[0], src, dst, probe_pose, G)
            if f:
                return f
        else:
            fol = _alias_follow_spec(case)
            cands = [_spec_matrix(spec), _spec_matrix(fol), _spec_matrix(dict(spec, pos=fol["pos"])), _spec_matrix(dict(spec, q=fol["q"]))]
            M = np.array(d["m"]["mat"], dtype=float)
            if M.shape == (4, 4):
                cands.append(M)
            if "inv_err" in d:
                return f"{tag}.inv() raised {d['inv_err']}"
            if (d["m"]["src"], d["m"]["dst"]) != (src, dst) or (d["inv"]["src"], d["inv"]["dst"]) != (dst, src):
                return f"{tag}: labelled {d['m']['src']}->{d['m']['dst']}, inverse {d['inv']['src']}->{d['inv']['dst']}; expected {src}->{dst}"
            for k, what in (("rt1", "inv().transform(transform(p, r))"), ("rt2", "transform(inv().transform(p, r))")):
                if not _pose_close(d[k], probe_pose):
                    return f"{tag}: {what} = {d[k]}, original pose {probe_pose}"
            for k, what in (("rt1_pos", "inv().transform(transform(p))"), ("rt2_pos", "transform(inv().transform(p))")):
                if not _pose_close(d[k], {"pos": probe_pose["pos"]}):
                    return f"{tag}: {what} = {d[k]}, original position {probe_pose['pos']}"
            if not any(_pose_close(d["tf_pose"], _pose_of_matrix(c @ G)) for c in cands):
                return f"{tag}.transform(p, r) = {d['tf_pose']} is the matrix product with none of the matrices the object can stand for"
            if not any(_pose_close(d["tf_pos"], {"pos": _pose_of_matrix(c @ G)["pos"]}) for c in cands):
                return f"{tag}.transform(p) = {d['tf_pos']} is the matrix product with none of the matrices the object can stand for"
        for k, mk, ws, wd, what in (
            ("post", lambda c: MB @ c, src, zf, "B.dot(A)"), ("post_tf", lambda c: MB @ c, src, zf, "A.transform(B)"),
            ("pre", lambda c: c @ MC, wf, dst, "A.dot(C)"), ("pre_tf", lambda c: c @ MC, wf, dst, "C.transform(matrix=A)"),
            ("inv_dot", lambda c: eye, src, src, "A.inv().dot(A)"), ("dot_inv", lambda c: eye, dst, dst, "A.dot(A.inv())"),
        ):
            c = d[k]
            if "err" in c:
                return f"{tag}: {what} raised {c['err']}"
            if "mat" not in c or (c["src"], c["dst"]) != (ws, wd):
                return f"{tag}: {what} is labelled {c.get('src')}->{c.get('dst')}, expected {ws}->{wd}"
            if not any(_close_list(c["mat"], mk(cand)) for cand in cands):
                return f"{tag}: {what}.matrix = {c['mat']} but the matrix product of A with the other matrix is {mk(cands[-1]).tolist()}"
        if not any(_pose_close(d["reg_fwd"], _pose_of_matrix(c @ G)) for c in cands):
            return f"{tag}: TransformDict(A).transform((src, dst), p, r) = {d['reg_fwd']}, A gives {_pose_of_matrix(cands[-1] @ G)}"
        if not _pose_close(d["reg_rt"], probe_pose):
            return f"{tag}: registry src->dst then dst->src (inverse of the registered A) = {d['reg_rt']}, original pose {probe_pose}"
    return None


# ----------------------------------------------------------------------------- bookkeeping

def _num_applied(spec):
    """the numeric type the numbers of a spec / probe / argument were really handed over in: position[+rotation]"""
    num = spec.get("num", "float")
    if num == "float":
        return "float"
    pos_ok = _num_scalars(spec["pos"], num) is not None
    rot_ok = "q" in spec and _num_scalars([float(_F(c)) for c in spec["q"]], num) is not None
    return f"{num}:" + ("pos+rot" if pos_ok and rot_ok else "pos" if pos_ok else "rot" if rot_ok else "not-representable")


def _is_identity(spec):
    return all(c == 0 for c in spec["pos"]) and [abs(_F(c)) for c in spec["q"]] == [1, 0, 0, 0]


def _rule(s, t, keys):
    if s is None or t is None:
        return "bad-name"
    if s == t:
        return "identity"
    if (s, t) in keys:
        return "direct"
    if (t, s) in keys:
        return "inverse"
    return "missing"


def _branches_regseq(case, out):
    br = [f"seq:init:{case['init']}:n={len(case['mats'])}", f"seq:ops={len(case['ops'])}", f"seq:probe-arg:{case['parg']['kind']}",
          f"seq:pool={int(math.isqrt(max(0, len(case['probes']) - 2)))}"]
    contents = _seq_contents(case)
    copied = False
    asked_inverse = set()  # keys that have been answered through the inverse of the reverse entry so far
    for i, obs in enumerate(out["steps"]):
        keys = contents[i]
        if i:
            op = case["ops"][i - 1]
            prev = contents[i - 1]
            res = obs["res"]
            tag = "-on-copy" if copied else ""
            if op["op"] == "set":
                k = _spec_key(op["mat"])
                rev = (k[1], k[0])
                how = "self-loop" if k[0] == k[1] else ("overwrite" if k in prev else "new")
                if k[0] != k[1]:
                    how += "+reverse-registered" if rev in prev else "+reverse-absent"
                br.append(f"seq:set{tag}:{how}")
                if rev in asked_inverse and rev not in prev and k in prev:
                    br.append(f"seq:stale-risk{tag}:overwrite-after-inverse-answer")
                if k in asked_inverse:
                    br.append(f"seq:stale-risk{tag}:direct-registered-after-inverse-answer")
                br.append(f"seq:key-form:set:{op['form']}")
            elif op["op"] == "del":
                k = (op["src"], op["dst"])
                rev = (k[1], k[0])
                if k in prev:
                    br.append(f"seq:del{tag}:present:" + ("reverse-stays" if rev in prev and rev != k else "pair-gone"))
                    if rev in asked_inverse and rev not in prev:
                        br.append(f"seq:stale-risk{tag}:delete-after-inverse-answer")
                else:
                    br.append(f"seq:del{tag}:absent:{(res or {}).get('err', 'ok')}")
                br.append(f"seq:key-form:del:{op['form']}")
            elif op["op"] == "copy":
                copied = True
                br.append("seq:deepcopy")
            else:
                r = _rule(_norm_name(op["src"], op["src_sp"]), _norm_name(op["dst"], op["dst_sp"]), keys)
                br.append(f"seq:query:{r}:{op['arg']['kind']}:{res.get('err') or res.get('arg_err') or 'ok'}")
        for pq, ans in zip(case["probes"], obs["probes"]):
            r = _rule(_norm_name(pq["src"], pq["src_sp"]), _norm_name(pq["dst"], pq["dst_sp"]), keys)
            br.append(f"seq:probe:{r}:{ans.get('err', 'ok')}")
            if r == "inverse":
                asked_inverse.add((pq["src"], pq["dst"]))
    for _ in out["olds"]:
        br.append("seq:original-of-copy-asked-at-the-end")
    return br


def _branches_alias(case, out):
    b, mut = case["build"], case["mut"]
    br = [f"alias:build:{b['how']}" + (f":{b['rot_form']}" if b["how"] == "ctor" else ""), f"alias:change:{mut['what']}:{mut['how']}",
          f"probe:{case['probe']['rot_form']}:{case['probe']['call']}"]
    if "after" in out:
        br.append(f"alias:after:matrix-{_alias_after_spec(case, out)[1]}")
        try:
            fol = _alias_follow_spec(case)
            if mut["what"] in ("pos", "both"):
                br.append("alias:after:position-attribute-" + ("follows-buffer" if _close_list(out["after"]["m"]["pos"], fol["pos"]) else "kept"))
        except Exception:  # noqa
            pass
        br.append("alias:inputs-intact" if out.get("inputs_intact") else "alias:inputs-written")
    else:
        br.append("alias:run-failed")
    return br


def branches(case, out):
    br = []
    k = case["kind"]
    if k == "alias":
        return _branches_alias(case, out)
    if k == "regseq" and "steps" in out:
        return _branches_regseq(case, out)
    if out.get("unexpected"):
        return ["unexpected-exception", "trivial"]
    if "err" in out and "answers" not in out and "mats" not in out:
        return [f"{k}:construct-err:{out['err']}"]
    for s in case["mats"]:
        br.append(f"input:{s['input']}")
        br.append(f"num:matrix:{_num_applied(s)}")
        first = next(c for c in (_F(c) for c in s["q"]) if c != 0)
        br.append("qsign:" + ("neg" if first < 0 else "pos"))
        br.append(f"frame-spelling:{s['src_sp']}")
        if _F(s["q"][0]) == 0:
            br.append("rotation:half-turn")
    if k == "chain":
        br.append(f"num:probe:{_num_applied(case['probe'])}:{case['probe'].get('pform', 'tuple')}")
        br.append(f"chain:n={len(case['mats'])}")
        br.append(f"probe:{case['probe']['rot_form']}:{case['probe']['call']}")
        for v, c in zip(case["via"], out["comps"]):
            br.append(f"compose:{v}:{c.get('err', 'ok')}")
        if len(out["comps"]) == len(case["mats"]) - 1 and out["comps"] and "err" not in out["comps"][-1]:
            br.append(f"chain-complete:frames={len(case['mats']) + 1}")
        if all(_is_identity(s) for s in case["mats"]):
            br.append("trivial")
        return br
    br.append(f"registry:n={len(case['mats'])}:{case['init']}")
    keys = [(s["src"], s["dst"]) for s in case["mats"]]
    if len(set(keys)) < len(keys):
        br.append("registry:duplicate-key")
    if any((b, a) in keys for a, b in keys if a != b):
        br.append("registry:both-directions")
    looks = out.get("look") or [{}] * len(case["queries"])
    for qi, (qd, ans) in enumerate(zip(case["queries"], out["answers"])):
        s, t = _norm_name(qd["src"], qd["src_sp"]), _norm_name(qd["dst"], qd["dst_sp"])
        if s is None or t is None:
            rule = "bad-name"
        elif s == t:
            rule = "identity"
        elif (s, t) in keys:
            rule = "direct"
        elif (t, s) in keys:
            rule = "inverse"
        else:
            rule = "missing"
        res = ans.get("err") or ans.get("arg_err") or "ok"
        br.append(f"query:{rule}:{qd['arg']['kind']}:{res}")
        if "pos" in qd["arg"] and qd["arg"]["kind"] != "mat":
            br.append(f"num:query-arg:{_num_applied(qd['arg'])}")
        for name, both in looks[qi].items():
            ans = both["spelled"]
            ans = ans.get("ans", ans) if isinstance(ans, dict) else {}
            br.append(f"path:{name}:{rule}:" + ("err:" + ans["err"] if "err" in ans else "matrix" if "mat" in ans else "none" if "none" in ans
                                               else "key" if "key" in ans else str(ans.get("bool", "generic"))))
        br.append(f"key-form:{qd['form']}")
        br.append(f"key-spelling:{qd['src_sp']}/{qd['dst_sp']}")
        br.append(f"call:{qd['call']}")
    br += [f"path:?{n}:undriven(no-key-parameter)" for n in _registry_paths()[2]]
    if out.get("len") is not None and out["len"] != len(set(keys)):
        br.append("registry:len-differs-from-distinct-keys")
    if _ambiguous(case["mats"]):
        br.append("registry:key-registered-twice(not-judged)")
    if not case["queries"]:
        br.append("trivial")
    return br


def _shrink_new(case):
    import copy

    one = ["1", "0", "0", "0"]
    if case["kind"] == "regseq":
        for i in reversed(range(len(case["ops"]))):
            c = copy.deepcopy(case); del c["ops"][i]; yield c
        for i in range(len(case["mats"])):
            c = copy.deepcopy(case); del c["mats"][i]
            if c["init"] == "single" or (c["init"] == "none" and c["mats"]):
                c["init"] = "list"
            yield c
        if len(case["probes"]) > 1:
            for i in range(len(case["probes"])):
                c = copy.deepcopy(case); del c["probes"][i]; yield c
        if case["init"] not in ("list", "none"):
            c = copy.deepcopy(case); c["init"] = "list"; yield c
        if case["parg"]["kind"] == "pose":
            c = copy.deepcopy(case); c["parg"] = dict({k: v for k, v in case["parg"].items() if k not in ("q", "rot_form")}, kind="pos"); yield c
        if case["parg"].get("num", "float") != "float":
            c = copy.deepcopy(case); c["parg"]["num"] = "float"; yield c
        specs = [("mats", i) for i in range(len(case["mats"]))] + [("ops", i) for i, op in enumerate(case["ops"]) if op["op"] == "set"]
        for where, i in specs:
            sp = case[where][i] if where == "mats" else case[where][i]["mat"]
            for key, val in (("q", one), ("input", "tuple"), ("num", "float"), ("src_sp", "member"), ("dst_sp", "member")):
                if sp.get(key, val) != val:
                    c = copy.deepcopy(case)
                    (c[where][i] if where == "mats" else c[where][i]["mat"])[key] = val
                    yield c
        for where in ("ops", "probes"):
            for i, op in enumerate(case[where]):
                for key, val in (("src_sp", "member"), ("dst_sp", "member"), ("form", "tuple"), ("call", "args")):
                    if key in op and op[key] != val:
                        c = copy.deepcopy(case); c[where][i][key] = val; yield c
        return
    # alias
    for name in ("mat", "post", "pre"):
        for key, val in (("q", one), ("pos", [0.0, 0.0, 0.0]), ("num", "float"), ("src_sp", "member"), ("dst_sp", "member")):
            if case[name].get(key, val) != val and not (name == "mat" and key == "pos" and case["mut"]["how"] == "zero"):
                c = copy.deepcopy(case); c[name][key] = val; yield c
    if case["mut"]["what"] == "both":
        for w in ("pos", "rot"):
            c = copy.deepcopy(case); c["mut"]["what"] = w; yield c
    if case["mut"]["how"] != "assign" and case["mut"]["what"] != "rot":
        c = copy.deepcopy(case); c["mut"]["how"] = "assign"; yield c
    for key, val in (("q", one), ("pos", [1.0, 0.0, 0.0]), ("rot_form", "tuple"), ("call", "args"), ("num", "float"), ("pform", "tuple")):
        if case["probe"].get(key, val) != val:
            c = copy.deepcopy(case); c["probe"][key] = val; yield c


def shrink(case):
    import copy

    one = ["1", "0", "0", "0"]
    if case["kind"] in ("regseq", "alias"):
        yield from _shrink_new(case)
        return
    if case["kind"] == "chain":
        n = len(case["mats"])
        if n > 1:
            c = copy.deepcopy(case); c["mats"] = c["mats"][:-1]; c["via"] = c["via"][: n - 2]; yield c
            c = copy.deepcopy(case); c["mats"] = c["mats"][1:]; c["via"] = c["via"][1:]; yield c
        for i in range(n):
            for key, val in (("q", one), ("pos", [0.0, 0.0, 0.0]), ("input", "tuple"), ("num", "float"), ("src_sp", "member"), ("dst_sp", "member")):
                if case["mats"][i].get(key, val) != val:
                    c = copy.deepcopy(case); c["mats"][i][key] = val; yield c
        for key, val in (("q", one), ("pos", [1.0, 0.0, 0.0]), ("rot_form", "tuple"), ("call", "args"), ("num", "float"), ("pform", "tuple")):
            if case["probe"].get(key, val) != val:
                c = copy.deepcopy(case); c["probe"][key] = val; yield c
        for i, v in enumerate(case["via"]):
            if v != "dot":
                c = copy.deepcopy(case); c["via"][i] = "dot"; yield c
        return
    for i in range(len(case["queries"])):
        if len(case["queries"]) > 1:
            c = copy.deepcopy(case); del c["queries"][i]; yield c
    for i in range(len(case["mats"])):
        c = copy.deepcopy(case); del c["mats"][i]
        if c["init"] == "single" or (c["init"] == "none" and c["mats"]):
            c["init"] = "list"
        yield c
    for i in range(len(case["mats"])):
        for key, val in (("q", one), ("pos", [0.0, 0.0, 0.0]), ("input", "tuple"), ("num", "float"), ("src_sp", "member"), ("dst_sp", "member")):
            if case["mats"][i].get(key, val) != val:
                c = copy.deepcopy(case); c["mats"][i][key] = val; yield c
    if case["init"] not in ("list", "none"):
        c = copy.deepcopy(case); c["init"] = "list"; yield c
    for i, qd in enumerate(case["queries"]):
        for key, val in (("src_sp", "member"), ("dst_sp", "member"), ("form", "tuple"), ("call", "args")):
            if qd[key] != val:
                c = copy.deepcopy(case); c["queries"][i][key] = val; yield c
        a = qd["arg"]
        if a["kind"] in ("pose", "mat") and a.get("q") != one:
            c = copy.deepcopy(case); c["queries"][i]["arg"]["q"] = one; yield c
        if a["kind"] == "pose":
            c = copy.deepcopy(case); c["queries"][i]["arg"] = {k: v for k, v in a.items() if k not in ("q", "rot_form")}
            c["queries"][i]["arg"]["kind"] = "pos"; yield c
        if a.get("num", "float") != "float":
            c = copy.deepcopy(case); c["queries"][i]["arg"]["num"] = "float"; yield c


def search(rng, st, disagreements):
    frames = _frames()
    cases = _systematic(rng, frames, "thorough")
    for _ in range(2000):
        cases.append(_gen_chain(rng, frames))
        cases.append(_gen_registry(rng, frames))
    cases.extend(_sequences_and_aliases(rng, frames, 1500))
    return cases
