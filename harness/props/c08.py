"""C08 — Loosening a matching threshold never loses a TP and never lowers AP.

One REAL result set (real `get_object_results` pairing of a generated scene, or a long ranking of real
`DynamicObjectWithPerceptionResult`s) is evaluated under a threshold list `t` and under a looser list `t'`
(distance modes: larger, IoU modes: smaller, per label): `get_positive_objects` / `get_negative_objects`,
`Map` (per-label `Ap.ap`, APH, mAP, mAPH), and frame + scene level through the real manager configured with
both lists.  Correspondence: the Lean model reproduces every one of these outputs.  Oracle: the two real
runs compared pairwise (TP ids kept, TP count up, FN count down, every AP/APH/mAP/mAPH not lower and
defined iff it was).
"""
from __future__ import annotations

from fractions import Fraction

from .. import core
from . import c04 as base

PROP = "C08"
EXHAUSTIVE = False
RULE = (
    "scene: random multi-label scenes (0-6 ground truths incl. non-target, unknown and false_positive labels, estimates at "
    "dyadic offsets so that scores fall exactly on thresholds, label swaps, GT-less estimates, confidence ties) paired by "
    "the real matcher; long: rankings of 7-400 real results with heavy confidence ties; x 4 matching modes x 3 label "
    "policies x an ordered pair of per-label threshold lists (t, looser t'; equal entries included; in 30% of the pairs entries "
    "at the ends of the mode's scale: float('inf') / 1e300 / 1e-300 / 5e-324 / 0 for the distances, 0 / 5e-324 / 1e-300 / 1 for "
    "the IoUs, on the loose side, the tight side or both; in 30% of the scenes Map is handed its dicts with permuted keys); "
    "manager: 1-3 frames (critical-filter / pass-fail label lists in another order than the evaluation config in half of them) "
    "through PerceptionEvaluationManager configured with both lists (frame and scene level); pair2d: 2-D objects with and "
    "without ROI (no matching method). Non-trivial = at least one result; distinct = distinct canonical JSON."
)
THEOREMS = [
    "PEval.C08." + t
    for t in [
        "looser_distance", "looser_iou", "isBetter_mono", "isResultCorrect_mono", "isResultCorrect_mono_of_ok",
        "isResultCorrect_antitone_fp_label", "tp_never_lost", "tp_count_mono", "fn_count_antitone", "apSpec_mono",
        "kind_mono_threshold", "ap_mono_threshold", "aph_mono_threshold", "map_mono_threshold", "frame_map_mono_threshold",
        # thresholds in EThr = numbers + float("inf") (PEval/Model/APExt.lean)
        "inf_is_loosest_distance", "inf_rejected_by_iou", "isResultCorrect_at_inf", "looserE_inf", "looserE_numbers",
        "ext_agrees_on_numbers", "isResultCorrect_mono_ext", "tp_never_lost_ext", "fn_count_antitone_ext",
        "ap_mono_threshold_ext", "aph_mono_threshold_ext", "map_mono_threshold_ext", "frame_map_mono_threshold_ext",
        # for the code's decision tables (harness/dt_match.py)
        "table_isResultCorrect_mono", "table_status_tp_mono",
        # appended: the looser run returns whenever the tighter one does (valid looser thresholds); pass/fail accounting and
        # composed pipeline; ALLOW_ANY instance; stored changes C08_J / C08_G refuted as defective model variants
        "ap_mono_threshold_total", "map_mono_threshold_total", "frame_map_mono_threshold_total", "tp_fn_mono_total",
        "looser_iou_invalid_raises", "passfail_tp_fn_mono", "passfail_frame_tp_fn_mono", "pipeline_tp_fn_mono",
        "allow_any_instance", "tpMono_isResultCorrect", "mono_fails_C08J", "apMono_apOfKinds", "apMono_fails_C08G",
    ]
] + (
    ["PEval.KernelBetter.better_table_check", "PEval.KernelBetter.better_code_table_eq_model", "PEval.KernelBetter.better_eq_skeleton", "PEval.KernelBetter.better_code_table_eq_isBetterThan", "PEval.KernelBetter.better_code_table_eq_isBetterThan_matcher", "PEval.KernelBetter.table_distance_direction", "PEval.KernelBetter.table_iou_direction", "PEval.KernelBetter.table_equal_not_better", "PEval.KernelBetter.table_none_not_better", "PEval.KernelBetter.table_better_mono", "PEval.MatchKernels.valBetter_consistent", "PEval.MatchKernels.forbIoU_consistent"]
    + ["PEval.KernelStatus.labelCorrect_table_check", "PEval.KernelStatus.resultCorrect_table_check", "PEval.KernelStatus.status_table_check", "PEval.KernelStatus.labelCorrect_code_table_eq_model", "PEval.KernelStatus.resultCorrect_code_table_eq_model", "PEval.KernelStatus.status_code_table_eq_model", "PEval.KernelStatus.resultCorrect_eq_skeleton", "PEval.KernelStatus.status_eq_skeleton", "PEval.KernelStatus.resultCorrect_eq_skeleton_passfail", "PEval.KernelStatus.status_eq_skeleton_passfail", "PEval.KernelStatus.labelCorrect_code_table_eq_isLabelCorrect", "PEval.KernelStatus.resultCorrect_code_table_eq_isResultCorrect", "PEval.KernelStatus.status_code_table_eq_getStatus", "PEval.KernelStatus.resultCorrect_code_table_eq_passfail", "PEval.KernelStatus.status_code_table_eq_passfail", "PEval.KernelStatus.table_status_tp_sound", "PEval.KernelStatus.table_status_no_gt", "PEval.MatchKernels.valAP_consistent", "PEval.MatchKernels.valPF_consistent"]
)
TRUSTED = list(base.TRUSTED) + [
    "decision-table translator (harness/dtable.py, harness/dt_match.py): the symbolic stubs stand for the objects, labels, "
    "matching methods and thresholds of the tabulated kernels and answer every query of the REAL function from the recorded "
    "valuation only; anything else the code touches is a leak (table marked untranslatable, no alarm); `a is b` of the "
    "modules under test is routed through __dt_is__ (recompiled from the current source)",
    "membership of a ground truth in `non_candidates` (DynamicObject.__eq__: time, label, position, orientation) is "
    "modelled by harness id equality; generated ground truths of one frame are pairwise distinct under __eq__",
]
ASSUMPTIONS = [
    "decision tables: Boolean and order atoms are treated as independent (over-approximation of the input space, sound for "
    "'table = model'); enum arguments (policy, matching mode) are enumerated over the members of the current source; "
    "an untranslatable source (histogram key table:untranslatable) leaves the correspondence as the only tie",
    "ordinary (non false_positive-labelled) ground truth, as the property states: AP / mAP monotonicity is checked for "
    "labels other than false_positive (an FP-labelled ground truth is ignored by every other label's AP); the TP / FN "
    "statements are checked on all inputs (an FP-labelled ground truth never yields a TP or an FN)",
    "both threshold lists are valid for the mode (IoU thresholds in [0,1]); invalid ones (incl. float('inf') for an IoU) and 2-D "
    "results without a matching method for the mode are outside the quantifier: where the model raises there, whatever the real "
    "code does (which class it raises, or that it returns) is no claim and the case is counted as skipped.  Exception classes are "
    "never compared; inside the quantifier a raise of the real code is a disagreement, and 'tight run returns, looser run raises' "
    "is an oracle failure (every TP / the AP is lost)",
    "TP / FP / TN / FN id lists are compared as sets (the statement orders none of them); of an Ap only its value is observed "
    "(tp_list / fp_list are C04's subject)",
    "each case builds its real objects anew (the shared object caches of the C04 module are emptied per case), as its replay does",
    "float('inf') is a legal distance threshold (the validators accept any Real) and counts as looser than every number; "
    "matching scores are finite",
]

LABELS, LID, MODES = base.LABELS, base.LID, base.MODES


def _loosen(rng, mode, thrs):
    out = []
    for t in thrs:
        t = base.tf(t)
        d = rng.choice([0.0, 0.25, 0.5, 1.0, 3.0]) if mode in ("center", "plane") else rng.choice([0.0, 0.125, 0.25, 0.5])
        out.append(base.spell(t + d if mode in ("center", "plane") else max(0.0, t - d)))
    return out


# extreme but legal values: the tight end and the loose end of each mode's scale (float("inf") spelled "inf", see c04)
TIGHT = {"center": [0.0, 5e-324, 1e-300], "plane": [0.0, 5e-324, 1e-300], "iou2d": [1.0], "iou3d": [1.0]}
LOOSE = {"center": [base.INF, 1e300], "plane": [base.INF, 1e300], "iou2d": [0.0, 5e-324, 1e-300], "iou3d": [0.0, 5e-324, 1e-300]}


def _looser1(mode, a, b):
    a, b = base.tf(a), base.tf(b)
    return b >= a if mode in ("center", "plane") else b <= a


def _extreme_pair(rng, mode, thrs, thrs2, p=0.3):
    """with probability p some entries of the ordered pair become extreme values: the loose side the loosest values of the
    mode (inf / 1e300, resp. 0 / 5e-324 / 1e-300), the tight side the tightest, or both sides extremes of the same end
    (1e300 -> inf, 5e-324 -> 1e-300, inf -> inf ...); every entry pair stays ordered"""
    thrs, thrs2 = list(thrs), list(thrs2)
    if rng.random() >= p:
        return thrs, thrs2
    for _ in range(rng.choice([1, 1, 2])):
        i = rng.randrange(len(thrs))
        how = rng.choice(["loose", "loose", "tight", "both-ends", "same-end-loose", "same-end-tight"])
        if how in ("loose", "both-ends"):
            thrs2[i] = rng.choice(LOOSE[mode])
        if how in ("tight", "both-ends"):
            thrs[i] = rng.choice(TIGHT[mode])
        if how == "same-end-loose":
            thrs[i], thrs2[i] = rng.choice(LOOSE[mode]), rng.choice(LOOSE[mode])
        if how == "same-end-tight":
            thrs[i], thrs2[i] = rng.choice(TIGHT[mode]), rng.choice(TIGHT[mode])
        if not _looser1(mode, thrs[i], thrs2[i]):
            thrs[i], thrs2[i] = thrs2[i], thrs[i]
    return thrs, thrs2


def _spice(rng, mode, thrs, thrs2):
    """threshold values that are legal but rarely written: exactly 0 (the loosest IoU / the tightest distance) and
    integer-typed numbers (set_thresholds accepts any Real); the pair stays ordered (thrs2 at least as loose)"""
    thrs, thrs2 = _extreme_pair(rng, mode, thrs, thrs2)
    if rng.random() < 0.2:
        i = rng.randrange(len(thrs))
        if mode in ("center", "plane"):
            thrs[i] = 0.0  # nothing is closer than 0: every result of that label is FP under the tight list
        else:
            thrs2[i] = 0.0
    if rng.random() < 0.2:
        as_int = lambda v: int(v) if v != base.INF and abs(v) < 1e6 and float(v).is_integer() else v  # noqa
        which = rng.choice(["tight", "loose", "both"])
        if which in ("tight", "both"):
            thrs = [as_int(v) for v in thrs]
        if which in ("loose", "both"):
            thrs2 = [as_int(v) for v in thrs2]
    return thrs, thrs2


def _pair_scene(rng):
    k = rng.randint(1, 4)
    pool = ["car", "bicycle", "pedestrian", "motorbike"]
    targets = rng.sample(pool, k)
    if rng.random() < 0.05:
        targets[rng.randrange(k)] = "false_positive"  # outside the oracle's AP domain, inside the correspondence
    mode = rng.choice(MODES)
    thrs = base._thr(rng, mode, k)
    thrs, thrs2 = _spice(rng, mode, thrs, _loosen(rng, mode, thrs))
    c = {"kind": "pair", "src": "scene", "targets": targets, "policy": rng.choice(["DEFAULT", "DEFAULT", "ALLOW_UNKNOWN", "ALLOW_ANY"]),
         "mode": mode, "thrs": thrs, "thrs2": thrs2,
         "frame": base._scene(rng, [t for t in targets if t != "false_positive"] or ["car"])}
    if rng.random() < 0.3:
        c["dperm"] = rng.randrange(1 << 16)  # Map is handed its dicts with the keys in another order
    return c


def _pair_long(rng, nmax):
    c = base._long_case(rng, nmax)
    c.pop("nested", None)
    thrs, thrs2 = _spice(rng, c["mode"], c["thrs"], _loosen(rng, c["mode"], c["thrs"]))
    return {"kind": "pair", "src": "items", "targets": c["targets"], "mode": c["mode"], "thrs": thrs,
            "thrs2": thrs2, "items": c["items"], "G": c["G"]}


def _pair_manager(rng):
    k = rng.randint(1, 4)
    targets = rng.sample(["car", "bicycle", "pedestrian", "motorbike"], k)
    fam = {}
    for m in MODES:
        t = base._thr(rng, m, k)
        fam[m] = list(_spice(rng, m, t, _loosen(rng, m, t)))
    crit, pf = base._label_orders(rng, targets)
    return {"kind": "pair", "src": "manager", "targets": targets, "policy": rng.choice(["DEFAULT", "ALLOW_UNKNOWN", "ALLOW_ANY"]),
            "fam": fam, "frames": [base._scene(rng, targets, 5) for _ in range(rng.randint(1, 3))], "crit": crit, "pf": pf}


def _pair_2d(rng):
    c = base._rank2d_case(rng)
    mode = c["mode"]
    return {"kind": "pair", "src": "items", "twod": True, "targets": c["targets"], "mode": mode, "thrs": c["thrs"],
            "thrs2": _loosen(rng, mode, c["thrs"]), "items": c["items"], "G": c["G"]}


def _corpus():
    # one estimate at distance exactly 1.0 from its ground truth: FP/FN at t=1.0 (strict), TP at t'=1.25
    fr = {"est": [{"l": "car", "x": 1.0, "y": 0.0, "z": 0.0, "k": 0, "c": 0.5, "id": 0, "ge": "e"}],
          "gt": [{"l": "car", "x": 0.0, "y": 0.0, "z": 0.0, "k": 0, "id": 0, "ge": "g"},
                 {"l": "car", "x": 30.0, "y": 0.0, "z": 0.0, "k": 0, "id": 1, "ge": "g"}]}
    cs = [{"kind": "pair", "src": "scene", "targets": ["car"], "policy": "DEFAULT", "mode": "center", "thrs": [1.0], "thrs2": [1.25], "frame": fr}]
    # IoU: identical boxes have IoU 1.0: never better than t = 1.0, better than t' = 0.75
    fr2 = {"est": [{"l": "car", "x": 0.0, "y": 0.0, "z": 0.0, "k": 0, "c": 0.5, "id": 0, "ge": "e"}], "gt": fr["gt"][:1]}
    cs.append({"kind": "pair", "src": "scene", "targets": ["car"], "policy": "DEFAULT", "mode": "iou3d", "thrs": [1.0], "thrs2": [0.75], "frame": fr2})
    # false_positive-labelled ground truth: matched FP at the loose threshold, TN at the tight one (documented reversal)
    fr3 = {"est": [{"l": "car", "x": 1.0, "y": 0.0, "z": 0.0, "k": 0, "c": 0.5, "id": 0, "ge": "e"}],
           "gt": [{"l": "false_positive", "x": 0.0, "y": 0.0, "z": 0.0, "k": 0, "id": 0, "ge": "g"}]}
    cs.append({"kind": "pair", "src": "scene", "targets": ["car"], "policy": "DEFAULT", "mode": "center", "thrs": [1.0], "thrs2": [2.0], "frame": fr3})
    # invalid IoU threshold in both lists
    cs.append({"kind": "pair", "src": "scene", "targets": ["car"], "policy": "DEFAULT", "mode": "iou2d", "thrs": [1.5], "thrs2": [0.5], "frame": fr2})
    # the ends of the scales, all four modes: two cars (one 0.5 m off, one exactly on its ground truth) and a pedestrian 1 m off
    fr4 = {"est": [{"l": "car", "x": 0.5, "y": 0.0, "z": 0.0, "k": 1, "c": 0.75, "id": 0, "ge": "e"},
                   {"l": "car", "x": 30.0, "y": 0.0, "z": 0.0, "k": 0, "c": 0.5, "id": 1, "ge": "e"},
                   {"l": "pedestrian", "x": 0.0, "y": 21.0, "z": 0.0, "k": 0, "c": 0.625, "id": 2, "ge": "e"}],
           "gt": fr["gt"] + [{"l": "pedestrian", "x": 0.0, "y": 20.0, "z": 0.0, "k": 0, "id": 2, "ge": "g"}]}
    I = base.INF
    for mode in ("center", "plane"):
        for t, t2 in [([1.0, 0.5], [I, I]), ([1e300, 2.0], [I, 1e300]), ([I, I], [I, I]), ([0.0, 5e-324], [1e-300, 0.75]),
                      ([5e-324, 0.0], [0.5, I]), ([2.0, 2.0], [1e300, I])]:
            cs.append({"kind": "pair", "src": "scene", "targets": ["car", "pedestrian"], "policy": "DEFAULT", "mode": mode,
                       "thrs": t, "thrs2": t2, "frame": fr4})
    for mode in ("iou2d", "iou3d"):
        for t, t2 in [([1.0, 1.0], [0.0, 0.0]), ([0.5, 0.125], [5e-324, 0.0]), ([1e-300, 1.0], [5e-324, 1e-300]), ([0.0, 0.0], [0.0, 0.0]),
                      ([I, 0.5], [0.5, 0.5]), ([1e300, 0.5], [1.0, 0.5])]:
            cs.append({"kind": "pair", "src": "scene", "targets": ["car", "pedestrian"], "policy": "DEFAULT", "mode": mode,
                       "thrs": t, "thrs2": t2, "frame": fr4})
    return cs


TABLE_KEYS = ["better", "labelCorrect", "resultCorrect", "status"]
_NOTED = []


def _table_note():
    try:
        from .. import dt_match

        return dt_match.table_note(TABLE_KEYS)
    except Exception as e:  # noqa: BLE001 - the table machinery must never fail a check
        return "table:untranslatable", {"error": f"{type(e).__name__}: {e}"}


def table_witnesses():
    """cases realising the valuations on which a regenerated decision table (is_better_than, is_result_correct, get_status)
    and its model skeleton differ (empty on an unchanged tree); they are run FIRST"""
    try:
        from .. import dt_match

        return dt_match.witness_cases(["status", "resultCorrect", "better"], dt_match.realise_c08)
    except Exception:  # noqa: BLE001
        return []


def extra_evidence():
    key, info = _table_note()
    return {"decision_tables": info, "decision_tables_status": key}


def generate(rng, tier):
    ns, nl, nm, n2 = (2500, 100, 20, 100) if tier == "quick" else (20000, 800, 200, 800)
    cases = table_witnesses() + [_pair_scene(rng) for _ in range(ns)]
    cases += [_pair_long(rng, 400 if i % 3 == 0 else 60) for i in range(nl)]
    cases += [_pair_manager(rng) for _ in range(nm)]
    cases += [_pair_2d(rng) for _ in range(n2)]
    return cases


# ----------------------------------------------------------------------------- the real code

class HarnessSetupError(RuntimeError):
    """building the inputs of a case failed (config, manager, sample data, real objects): an infrastructure error of the check,
    raised from harness code so that it is never mistaken for an exception of the calls the property is about"""


def _setup(what, fn, *a, **kw):
    try:
        return fn(*a, **kw)
    except Exception as e:  # noqa: BLE001
        raise HarnessSetupError(f"{what}: {type(e).__name__}: {e}") from e


def _fresh_objects():
    """every case builds its real objects anew, exactly as its stored replay does in a fresh process: the shared object caches
    of the C04 module (one DynamicObject / result object per descriptor for the whole run) are emptied per case, so that state
    a changed library keeps ON the objects (memoised decisions, mutated fields) cannot leak from one case into the next"""
    for name in ("_OBJ", "_RES", "_DESC"):
        d = getattr(base, name, None)
        if isinstance(d, dict):
            d.clear()


def _posneg(results, gts, targets, mode, thrs):
    """`get_positive_objects` / `get_negative_objects` under one threshold list (the calls of `observe_at`): ids, or 'raised'"""
    E = base.env()
    thrs = base.tfl(thrs)
    try:
        tp, fp = E["get_positive_objects"](results, targets, E["MODE"][mode], list(thrs))
    except Exception as e:  # noqa: BLE001  (the class name is kept for the log only)
        pos = {"err": type(e).__name__}
    else:
        pos = {"tp": [base._uid(r.estimated_object) for r in tp], "fp": [base._uid(r.estimated_object) for r in fp]}
    try:
        tn, fn = E["get_negative_objects"](gts, results, targets, E["MODE"][mode], list(thrs))
    except Exception as e:  # noqa: BLE001
        neg = {"err": type(e).__name__}
    else:
        neg = {"tn": [base._uid(g) for g in tn], "fn": [base._uid(g) for g in fn]}
    return {"pos": pos, "neg": neg}


def _ap8(a):
    """what C08 observes of one Ap: its value (`Ap.ap`; inf / nan -> None = undefined)"""
    return {"ap": base.fnum(a.ap)}


def _map_out8(m, mode, thrs):
    """what C08 observes of one Map: per-label AP / APH values, mAP, mAPH (the tp/fp lists of an Ap are C04's subject)"""
    return {"mode": mode, "thrs": [float(t) for t in thrs], "aps": [_ap8(a) for a in m.aps], "aphs": [_ap8(a) for a in m.aphs],
            "map": base.fnum(m.map), "maph": base.fnum(m.maph)}


def _map(results, gts, targets, mode, thrs, twod=False, G=None, dperm=None):
    E = base.env()
    thrs = base.tfl(thrs)
    rd = E["divide_objects"](results, targets)
    nd = E["divide_objects_to_num"](gts, targets)
    if G is not None:  # rankings: a free ground-truth count for the first target
        nd[targets[0]] = G
    if dperm is not None:  # the same dicts with their keys inserted in another order (both runs alike)
        import random
        for k, d in enumerate((rd, nd)):
            ks = list(d.keys())
            random.Random(dperm + k).shuffle(ks)
            items = [(x, d[x]) for x in ks]
            d.clear()
            d.update(items)
    try:  # the call of `observe_at` ("Ap.ap / Map.map for a results set evaluated under t and under a looser t'")
        m = E["Map"](rd, nd, targets, E["MODE"][mode], list(thrs), is_detection_2d=twod)
    except Exception as e:  # noqa: BLE001
        return {"err": type(e).__name__}
    return _map_out8(m, mode, thrs)


def _run_manager(case, targets):
    E = base.env()
    from perception_eval.common.dataset import FrameGroundTruth
    from perception_eval.common.transform import HomogeneousMatrix
    from perception_eval.evaluation.result.perception_frame_config import CriticalObjectFilterConfig, PerceptionPassFailConfig

    cfg, mgr = _setup("manager", base._manager, case["targets"], case["fam"], case["policy"])
    crit = _setup("critical object filter config", CriticalObjectFilterConfig, cfg, list(case.get("crit") or case["targets"]),
                  max_x_position_list=[150.0] * len(targets), max_y_position_list=[150.0] * len(targets))
    pf = _setup("pass/fail config", PerceptionPassFailConfig, cfg, list(case.get("pf") or case["targets"]),
                matching_threshold_list=[2.0] * len(targets))
    out = {"frames": [], "frame_maps": [], "frame_pn": []}
    for i, fr in enumerate(case["frames"]):
        ests = _setup("estimated objects", lambda: [base.mk_obj(o) for o in fr["est"]])
        gts = _setup("ground-truth objects", lambda: [base.mk_obj(o) for o in fr["gt"]])
        fgt = _setup("ground-truth frame", lambda: FrameGroundTruth(
            100, str(i), gts, transforms=[HomogeneousMatrix((0, 0, 0), (1, 0, 0, 0), E["FrameID"].BASE_LINK, E["FrameID"].MAP)]))
        r = mgr.add_frame_result(100, fgt, ests, crit, pf)  # frame level (exceptions of the real pipeline propagate)
        kept = r.frame_ground_truth.objects
        out["frames"].append({"res": [base.describe(x) for x in r.object_results],
                              "gts": [{"id": base._uid(g), "l": LID[g.semantic_label.label.value]} for g in kept]})
        out["frame_maps"].append([_map_out8(m, base._mode_name(m.matching_mode), m.matching_threshold_list) for m in r.metrics_score.maps])
        out["frame_pn"].append({m: [_posneg(r.object_results, kept, targets, m, t) for t in case["fam"][m]] for m in MODES})
    sc = mgr.get_scene_result()  # scene level
    out["maps"] = [_map_out8(m, base._mode_name(m.matching_mode), m.matching_threshold_list) for m in sc.maps]
    return out


def run_impl(case):
    E = base.env()
    _fresh_objects()
    targets = [E["LAB"][t] for t in case["targets"]]
    if case["src"] == "manager":
        return _run_manager(case, targets)
    twod = bool(case.get("twod"))
    if case["src"] == "scene":
        fr = case["frame"]
        ests = [base.mk_obj(o) for o in fr["est"]]
        gts = [base.mk_obj(o) for o in fr["gt"]]
        results = E["get_object_results"](E["EvaluationTask"].DETECTION, ests, gts, targets, E["MatchingLabelPolicy"][case["policy"]])
        descs = [base.describe(r) for r in results]
        G = None
    else:
        results = [base.mk_result(it) for it in case["items"]]
        descs = [base.describe_item(it) for it in case["items"]]
        seen, gts = set(), []
        for r in results:
            g = r.ground_truth_object
            if g is not None and id(g) not in seen:  # (de-duplication of the harness' own objects, not a statement about the library)
                seen.add(id(g))
                gts.append(g)
        G = case["G"]
    out = {"res": descs, "gts": [{"id": base._uid(g), "l": LID[g.semantic_label.label.value]} for g in gts], "runs": []}
    for k, thrs in enumerate((case["thrs"], case["thrs2"])):
        if case.get("npthr") and case["npthr"][k]:  # the same values handed over as numpy scalars
            import numpy as np

            thrs = [np.float64(base.tf(t)) for t in thrs]
        run = _posneg(results, gts, targets, case["mode"], thrs)
        run["map"] = _map(list(results), gts, targets, case["mode"], thrs, twod, G, case.get("dperm"))
        out["runs"].append(run)
    return out


# ----------------------------------------------------------------------------- the model

def _req_posneg(descs, gts, targets, mode, thrs):
    return {"op": "posneg", "mode": mode, "targets": [LID[t] for t in targets], "thrs": [base.tq(t) for t in thrs],
            "results": [base.model_res(d, mode) for d in descs], "gts": gts}


def _req_map(frames, targets, mode, thrs, scene, twod=False, crit=None):
    return {"op": "map", "mode": mode, "is2d": twod, "scene": scene, "targets": [LID[t] for t in targets],
            "thrs": [base.tq(t) for t in thrs], **({"crit": [LID[t] for t in crit]} if crit else {}),
            "frames": [{"results": [base.model_res(d, mode) for d in fr["res"]], "gts": [g["l"] for g in fr["gts"]]} for fr in frames]}


def model_requests(case, out):
    if "err" in out:
        return []
    tg = case["targets"]
    reqs = []
    if case["src"] == "manager":
        for fr, maps in zip(out["frames"], out["frame_maps"]):
            for m in MODES:
                for t in case["fam"][m]:
                    reqs.append(_req_posneg(fr["res"], fr["gts"], tg, m, t))
            for mp in maps:
                reqs.append(_req_map([fr], tg, mp["mode"], mp["thrs"], False, crit=case.get("crit")))
        for mp in out["maps"]:
            reqs.append(_req_map(out["frames"], tg, mp["mode"], mp["thrs"], True))
        return reqs
    twod = bool(case.get("twod"))
    for thrs in (case["thrs"], case["thrs2"]):
        reqs.append(_req_posneg(out["res"], out["gts"], tg, case["mode"], thrs))
        if case["src"] == "scene":
            reqs.append(_req_map([{"res": out["res"], "gts": out["gts"]}], tg, case["mode"], thrs, False, twod))
        else:
            # free ground-truth count: the first target's AP directly (op "ap"), other labels through "map"
            reqs.append({"op": "ap", "mode": case["mode"], "targets": [LID[tg[0]]], "thrs": [base.tq(thrs[0])], "G": case["G"],
                         "results": [[base.model_res(d, case["mode"]) for d in _bucket(out["res"], tg, tg[0])]]})
    return reqs


def _bucket(descs, targets, lab):
    b = []
    for d in descs:
        el = LABELS[d["l"]]
        if el in targets:
            k = el
        elif d["g"] is not None:
            k = LABELS[d["g"]["l"]]
        else:
            k = None
        if k == lab:
            b.append(d)
    return b


class _Cmp:
    """one comparison pass: the first disagreement, and whether a part was left out because the MODEL raises there.
    The model raises exactly on inputs outside the property's quantifier - IoU thresholds outside [0, 1] (AssertionError today)
    and 2-D results that have no matching method for the mode (an incidental AttributeError of Ap today).  What the library does
    with those (which class it raises, or whether a guard makes it return) is no statement of C08: no claim, counted as skip.
    Inside the quantifier the model returns; there a raise of the real code - of ANY class - is a disagreement."""

    def __init__(self):
        self.skipped = False

    def pn(self, tag, a, r):
        for part, keys in (("pos", ("tp", "fp")), ("neg", ("tn", "fn"))):
            x, y = a[part], r[part]
            if "err" in y:
                self.skipped = True
                continue
            if "err" in x:
                return f"{tag}.{part}: impl raised {x['err']}, the model returns {y}"
            for k in keys:
                # as multisets: "TP counts ... FN counts" / "a result that is a TP ... is still a TP" order no list
                if sorted(x[k]) != sorted(y[k]):
                    return f"{tag}.{part}.{k}: impl {sorted(x[k])} != model {sorted(y[k])} (as sets)"
        return None

    def ap(self, tag, a, r):
        """a: {'ap'} of the real Ap; r: the model's Ap output (its `ap` field is what C08 observes)"""
        if "err" in r:
            self.skipped = True
            return None
        if "err" in a:
            return f"{tag}: impl raised {a['err']}, the model returns"
        return None if core.close(a["ap"], core.unq(r["ap"])) else f"{tag}.ap impl {a['ap']} != model {r['ap']}"

    def map(self, tag, m, r):
        if "err" in r:
            self.skipped = True
            return None
        if "err" in m:
            return f"{tag}: impl raised {m['err']}, the model returns"
        if len(m["aps"]) != len(r["aps"]) or len(m["aphs"]) != len(r["aphs"]):
            return f"{tag}: number of per-label APs differs"
        for key in ("aps", "aphs"):
            for i, (a, b) in enumerate(zip(m[key], r[key])):
                d = self.ap(f"{tag}.{key}[{i}]", a, b)
                if d:
                    return d
        for k in ("map", "maph"):
            if not core.close(m[k], core.unq(r[k])):
                return f"{tag}.{k} impl {m[k]} != model {r[k]}"
        return None


def _conf_ties(x) -> bool:
    """does some list of estimates in the case hold two results of equal confidence? (the property fixes no order among equal
    confidences; the model sorts stably, so an AP VALUE may legitimately differ from the model's there)"""
    if isinstance(x, dict):
        return any(_conf_ties(v) for v in x.values())
    if isinstance(x, list):
        cs = [e["c"] for e in x if isinstance(e, dict) and "c" in e]
        if len(cs) != len(set(cs)):
            return True
        return any(_conf_ties(v) for v in x)
    return False


def compare(case, out, resps):
    d = _compare(case, out, resps)
    if d and d != "skip" and (".ap impl" in d or ".aph impl" in d or ".map" in d) and _conf_ties(case):
        # an AP value that differs from the model's on a case with tied confidences: the order inside a tie group is not
        # fixed by C04/C08 ("ranking results by descending confidence"); the monotonicity ORACLE still judges the two real runs
        return "skip"
    return d


def _compare(case, out, resps):
    if not isinstance(out, dict) or "err" in out:
        return None  # no output of the real code to compare
    it = iter(resps)
    C = _Cmp()
    if case["src"] == "manager":
        for i, (fr, maps) in enumerate(zip(out["frames"], out["frame_maps"])):
            for m in MODES:
                for j, _ in enumerate(case["fam"][m]):
                    d = C.pn(f"frame{i}.{m}[{j}]", out["frame_pn"][i][m][j], next(it))
                    if d:
                        return d
            for j, mp in enumerate(maps):
                d = C.map(f"frame{i}.map[{j}]", mp, next(it))
                if d:
                    return d
        for j, mp in enumerate(out["maps"]):
            d = C.map(f"scene.map[{j}]", mp, next(it))
            if d:
                return d
        return "skip" if C.skipped else None
    for j, run in enumerate(out["runs"]):
        d = C.pn(f"run{j}", run, next(it))
        if d:
            return d
        r = next(it)
        if case["src"] == "scene":
            d = C.map(f"run{j}.map", run["map"], r)
        else:
            m = run["map"]
            d = C.ap(f"run{j}.ap[0]", m if "err" in m else m["aps"][0], r["ap"])
            if not d and "err" not in m and m["aphs"]:
                d = C.ap(f"run{j}.aph[0]", m["aphs"][0], r["aph"])
        if d:
            return d
    return "skip" if C.skipped else None


# ----------------------------------------------------------------------------- the property on the two real runs

TOL = 1e-9


def _le(a, b):
    """possibly undefined scores: defined alike, and not lower"""
    if a is None or b is None:
        return a is None and b is None
    return b >= a - TOL


def _included(a, b):
    """every id of `a` is in `b` (with multiplicity).  "a result that is a TP at some matching threshold is still a TP at every
    looser threshold": an inclusion of SETS of results; the order of the returned lists is no part of the statement"""
    from collections import Counter

    return not (Counter(a) - Counter(b))


def _mono_pn(tag, a, b):
    """a: the run under the tight list, b: under the loose one (both lists valid for the mode, entry by entry ordered)"""
    for part, what in (("pos", "get_positive_objects"), ("neg", "get_negative_objects")):
        if "err" in a[part]:
            return None  # nothing to lose: the tight run has no TP list
        if "err" in b[part]:
            # "Loosening a matching threshold never loses a TP": the tight run returned its TPs, the loose run returns nothing
            return (f"{tag}: {what} returns under the tight thresholds ({len(a['pos'].get('tp', []))} TP) but raises "
                    f"{b[part]['err']} under the looser ones: the looser evaluation keeps no TP and gives no counts at all")
    tp, tp2 = a["pos"]["tp"], b["pos"]["tp"]
    if not _included(tp, tp2):
        return f"{tag}: TP estimates {tp} under the tight thresholds are not all TP under the loose ones {tp2}"
    if len(tp2) < len(tp):
        return f"{tag}: TP count decreased {len(tp)} -> {len(tp2)}"
    fn, fn2 = a["neg"]["fn"], b["neg"]["fn"]
    if len(fn2) > len(fn) or not _included(fn2, fn):
        return f"{tag}: FN grew when loosening: {fn} -> {fn2}"
    return None


def _mono_map(tag, m, m2, targets):
    if "err" in m:
        return None
    if "err" in m2:
        # "AP, APH and mAP computed from the same results are non-decreasing as the threshold is loosened"
        return (f"{tag}: Map is computed under the tight thresholds {m['thrs']} (mAP {m['map']}) but raises {m2['err']} under the "
                f"looser ones: AP / mAP are lost")
    for key in ("aps", "aphs"):
        for lab, a, b in zip(targets, m[key], m2[key]):
            if lab == "false_positive":
                continue
            if not _le(a["ap"], b["ap"]):
                return f"{tag}: {key[:-1].upper()}[{lab}] {a['ap']} -> {b['ap']} when loosening {m['thrs']} -> {m2['thrs']}"
    if "false_positive" not in targets:
        for k in ("map", "maph"):
            if not _le(m[k], m2[k]):
                return f"{tag}: {k} {m[k]} -> {m2[k]} when loosening {m['thrs']} -> {m2['thrs']}"
    return None


def _valid(mode, *lists):
    return mode in ("center", "plane") or all(base.iou_valid(l) for l in lists)


def _looser(mode, t1, t2):
    """entry by entry at least as loose; float("inf") is looser than every number in the distance modes"""
    return len(t1) == len(t2) and all(_looser1(mode, a, b) for a, b in zip(t1, t2))


def oracle(case, out):
    if not isinstance(out, dict) or "err" in out:
        # an exception that escaped run_impl (reported by run_check itself under the current convention)
        return f"unexpected {out.get('err')}" if isinstance(out, dict) else None
    if case["src"] == "manager":
        for i, pn in enumerate(out["frame_pn"]):
            for m in MODES:
                runs = pn[m]
                fam = case["fam"][m]
                if len(runs) == 2 and _valid(m, *fam) and _looser(m, fam[0], fam[1]):
                    f = _mono_pn(f"frame{i}.{m}", runs[0], runs[1])
                    if f:
                        return f
        for tag, maps in [(f"frame{i}", mp) for i, mp in enumerate(out["frame_maps"])] + [("scene", out["maps"])]:
            by_mode = {}
            for mp in maps:
                by_mode.setdefault(mp["mode"], []).append(mp)
            for m, pair in by_mode.items():
                if len(pair) != 2 or m not in MODES or not _valid(m, pair[0]["thrs"], pair[1]["thrs"]):
                    continue
                if not _looser(m, pair[0]["thrs"], pair[1]["thrs"]):
                    pair = pair[::-1]  # the two Maps of a mode in whatever order the library keeps them
                if _looser(m, pair[0]["thrs"], pair[1]["thrs"]):
                    f = _mono_map(f"{tag}.{m}", pair[0], pair[1], case["targets"])
                    if f:
                        return f
        return None
    mode = case["mode"]
    if not _valid(mode, case["thrs"], case["thrs2"]) or not _looser(mode, case["thrs"], case["thrs2"]):
        return None
    a, b = out["runs"]
    f = _mono_pn("pair", a, b)
    if f:
        return f
    return _mono_map("pair", a["map"], b["map"], case["targets"])


def branches(case, out):
    b = [f"src={case['src']}"]
    if case.get("table_witness"):
        b.append("table:witness-case")
    if case.get("npthr"):
        b.append("thresholds:numpy-scalars")
    if not _NOTED:
        _NOTED.append(1)
        b.append(_table_note()[0])
    lists = [case["thrs"], case["thrs2"]] if "thrs" in case else [t for v in case["fam"].values() for t in v]
    b.extend(base.thr_branches(lists))
    if "thrs" in case:
        for a, c in zip(base.tfl(case["thrs"]), base.tfl(case["thrs2"])):
            ext = lambda v: base._isinf(v) or v >= 1e200 or v < 1e-200  # noqa
            if ext(a) or ext(c):
                b.append("pair:" + ("extreme->extreme" if ext(a) and ext(c) else "ordinary->extreme" if ext(c) else "extreme->ordinary"))
    if case.get("dperm") is not None:
        b.append("dict:other-key-order")
    if case.get("crit") and case["crit"] != case["targets"]:
        b.append("crit-labels:other-order")
    if not isinstance(out, dict) or "err" in out:
        return b + [f"err:{out.get('err') if isinstance(out, dict) else out}"]
    if case["src"] == "manager":
        b.append(f"manager:frames={len(out['frames'])}")
        n = sum(len(fr["res"]) for fr in out["frames"])
        if n == 0:
            b.append("trivial")
        for pn in out["frame_pn"]:
            for m in MODES:
                r = pn[m]
                if "err" not in r[0]["pos"] and "err" not in r[1]["pos"]:
                    b.append(f"manager:{m}:tp" + ("+" if len(r[1]["pos"]["tp"]) > len(r[0]["pos"]["tp"]) else "="))
        return b
    mode = case["mode"]
    b.append(f"mode={mode}")
    n = len(out["res"])
    b.append("n=" + ("0" if n == 0 else "1-6" if n <= 6 else "7-60" if n <= 60 else "61-400"))
    if n == 0:
        b.append("trivial")
    if case.get("policy"):
        b.append("policy=" + case["policy"])
    r0, r1 = out["runs"]
    raised = lambda x: "raises" if "err" in x else "returns"  # noqa: E731
    for part in ("pos", "neg"):
        if "err" in r0[part] or "err" in r1[part]:
            b.append(f"{part}:{raised(r0[part])}/{raised(r1[part])}")
    if "err" not in r0["pos"] and "err" not in r1["pos"]:
        b.append("tp" + ("+" if len(r1["pos"]["tp"]) > len(r0["pos"]["tp"]) else "="))
    if "err" not in r0["neg"] and "err" not in r1["neg"]:
        b.append("fn" + ("-" if len(r1["neg"]["fn"]) < len(r0["neg"]["fn"]) else "="))
        b.append("tn" + ("-" if len(r1["neg"]["tn"]) < len(r0["neg"]["tn"]) else "="))
    m0, m1 = r0["map"], r1["map"]
    if "err" in m0 or "err" in m1:
        b.append(f"map:{raised(m0)}/{raised(m1)}")
        if not _valid(mode, case["thrs"], case["thrs2"]):
            b.append("skipped:outside-quantifier:invalid-iou-thresholds")
        elif any(d["s"][mode] == "nm" for d in out["res"]):
            b.append("skipped:outside-quantifier:result-without-matching-method")
    else:
        for k in ("map", "maph"):
            x, y = m0[k], m1[k]
            b.append(f"{k}:" + ("undef" if x is None else "=" if abs(x - y) < 1e-12 else "+" if y > x else "DOWN"))
    if case["thrs"] == case["thrs2"]:
        b.append("same-thresholds")
    for d in out["res"]:
        s = d["s"][mode]
        gl = None if d["g"] is None else LABELS[d["g"]["l"]]
        b.append("res:" + ("nomethod" if s == "nm" else "nogt" if gl is None else "fpgt" if gl == "false_positive" else "paired"))
        if s not in ("nm", None) and any(Fraction(s) == base._frac(t) for t in list(case["thrs"]) + list(case["thrs2"])):
            b.append("score-on-threshold")
    if "false_positive" in case["targets"]:
        b.append("fp-label-is-target")
    return b


def shrink(case):
    if case["src"] == "scene":
        fr = case["frame"]
        for key in ("est", "gt"):
            for i in range(len(fr[key])):
                c = dict(case)
                c["frame"] = dict(fr)
                c["frame"][key] = fr[key][:i] + fr[key][i + 1:]
                yield c
    elif case["src"] == "items":
        its = case["items"]
        for i in range(len(its)):
            c = dict(case)
            c["items"] = its[:i] + its[i + 1:]
            yield c
    else:
        for fi in range(len(case["frames"])):
            if len(case["frames"]) > 1:
                c = dict(case)
                c["frames"] = case["frames"][:fi] + case["frames"][fi + 1:]
                yield c


def search(rng, st, disagreements):
    return table_witnesses() + [_pair_scene(rng) for _ in range(3000)] + [_pair_long(rng, 120) for _ in range(100)]


def corpus():
    """table witnesses (empty on an unchanged tree) first, then the stored corner cases"""
    return table_witnesses() + list(_corpus())
