"""C09 — heading comparisons use the true minimal yaw difference.

Real side: REAL `DynamicObject` pairs (estimate, ground truth) with yaw = float(τ)·π, each orientation as `q`
or `−q`, expressed in BASE_LINK or (after the repository's own `HomogeneousMatrix.transform` with an ego
pose of yaw τ0·π and a translation) in MAP, wrapped in a real `DynamicObjectWithPerceptionResult`;
observed: `TPMetricsAph().get_value(result)`, `result.heading_error[2]`, and `Ap(TPMetricsAph(), …).tp_list`.
Model side: `PEval.Heading` on exact half-turns τ (π ↦ 1).  One *case* is one physical pair; it is
*rendered* several times (frame × sign of each quaternion × roles swapped) – every rendering is compared
with the model, and the oracle demands that all renderings tell the same story (1 − d/π, |err| = d).

"The yaw error reported for a pair" is reported at a second public place: the analysis tool.  `analyzer` cases put
many physical pairs (estimate and ground truth at the same spot, yaws τe·π / τg·π, each orientation as q or −q) into
frames evaluated by a real `PerceptionEvaluationManager` in BASE_LINK or MAP, hand the frame results to a real
`PerceptionAnalyzer3D` and read `calculate_error("yaw")` for every paired row (TP and FP pairs alike): the same
oracle (range [−π, π], magnitude d) applies – also to the `error_yaw` column of `PerceptionAnalyzer3DField`
(`add_error_columns()`, both rows of a pair); the model (`analyzerYawError`, the two masked wrap assignments) is
compared value by value (up to one global sign convention per case).  The tool's interface is not part of C09's anchors: it is
resolved defensively (`_Unobservable`), and the statistics of `summarize_error()` are not compared.
"""
from __future__ import annotations

import math
import os
from fractions import Fraction

# the real code multiplies 4x4 matrices only: BLAS worker threads are pure overhead (set before numpy is first imported)
os.environ.setdefault("OMP_NUM_THREADS", "1")
os.environ.setdefault("OPENBLAS_NUM_THREADS", "1")

from .. import core

PROP = "C09"
EXHAUSTIVE = True
RULE = (
    "quick: EVERY pair (τe, τg) of the grid k/8 ⊂ (−1,1] (16×16), each rendered 16 times = {BASE_LINK, MAP} × "
    "{q,−q} for the estimate × {q,−q} for the ground truth × {est/gt, roles swapped}; thorough: EVERY pair of the "
    "grid k/64 (128×128), each rendered 4 times = all four sign patterns (q/−q for estimate and ground truth), two of them in BASE_LINK "
    "and two in MAP (which two rotates over the grid; each frame always gets a mixed pattern), roles swapped on alternating "
    "renderings (the constructor of the real result object costs 2-3 ms, hence not all 16), "
    "plus the full 16-fold rendering of the k/8 grid; on top (both tiers, seeded): random pairs of the k/64 grid, "
    "random rationals with denominators up to 10^9, the boundary family τg = τe ± 1 (d = π) and its neighbours at "
    "distance 1e-3 … 1e-13, near-equal yaws, and pairs with roll/pitch up to ±1e-3 rad on the Python side only "
    "(tolerance 1e-6, labelled rp); analyzer cases (the yaw error column of PerceptionAnalyzer3D): EVERY pair of the k/8 grid (quick) / "
    "k/16 grid (thorough) with rotating quaternion signs, in BASE_LINK and in MAP, 64 pairs per evaluated frame, plus frames of random "
    "k/64 / rational pairs, seam pairs (yaws on both sides of ±π, both orders), d = π and its neighbours, equal yaws; pass/fail thresholds "
    "such that the pairs are all TP or a mixture of TP and FP pairs. The ego pose of the MAP rendering has a random yaw τ0 ∈ (−1,1] (grid k/64) and a "
    "random dyadic translation. A case is non-trivial when it has a ground truth (all but the 'nogt' cases); "
    "distinct = distinct (τe, τg, τ0, translation, renderings, roll/pitch)."
)
THEOREMS = [
    "PEval.C09." + t
    for t in [
        "aphWeight_eq", "aphWeight_symm", "aphWeight_eq_one_iff", "aphWeight_eq_zero_iff", "aphWeight_eq_zero_iff_d",
        "aphWeight_range", "frame_invariant", "headingError_range", "headingError_abs_eq_d", "headingError_congr",
        "headingError_boundary", "headingError_antisymm", "headingError_frame_invariant",
        "aphWeight_eq_one_sub_abs_error", "wrapYaw_dom", "preFix_not_minimal", "preFix_not_sign_invariant",
        "analyzerYawError_eq_headingError", "analyzerYawError_range", "analyzerYawError_abs_eq_d", "analyzerYawError_antisymm",
        "wrapYaw_roundtrip", "analyzerYawError_frame_invariant", "saturating_not_minimal",
        # quaternion level (audit C09-1): the sign clause, for every arctan2 and every quaternion; F3 / C09_G refuted
        "heading_of_neg", "yawDir_of_rotMat", "yawDir_same_rotation", "yawVia_sign_invariant", "aphWeightQ_sign_invariant",
        "headingErrorQ_sign_invariant", "analyzerYawErrorQ_sign_invariant", "aphWeightQMap_sign_invariant", "aphWeightQ_eq_tau",
        "yawDir_pureYaw", "yawDir_compose", "dirDiff_frame_invariant", "dirDiff_sign_invariant", "dirDiff_swap",
        "cosDiff_characterisation", "radiansDir_eq_yawDir_iff", "radiansDir_not_sign_invariant", "radiansDir_loses_yaw_sign",
        "radiansVia_not_sign_invariant",
        # from the ONE bridge hypothesis YawBridge (angle <-> direction)
        "aphWeightQ_eq_dir", "aphWeightQ_eq_one_iff_dir", "aphWeightQ_eq_zero_iff_dir", "aphWeightQ_le_iff_dir",
        "aphWeightQMap_frame_invariant", "headingErrorQ_abs_dir", "headingErrorQ_pos_iff_dir", "headingErrorQ_neg_iff_dir",
        "headingErrorQ_determined", "headingErrorQ_frame_invariant", "yawBridge_axes",
        # closed yaw domain [-pi, pi] (audit C09-2), clamp inactive (C09-3), no ground truth (C09-4)
        "aphWeight_eq_closed", "aphWeight_clamp_inactive", "aphWeight_eq_one_iff_closed", "aphWeight_eq_zero_iff_closed",
        "headingError_range_closed", "headingError_abs_eq_d_closed", "analyzerYawError_closed", "frame_invariant_closed",
        "no_ground_truth",
        # the bridge over the reals (Mathlib: Complex.arg, arccos, sin): every field of YawBridge is a theorem there
        "real_yaw_recovered", "real_yawDir", "real_dist_fields", "real_sin_sign", "tau_model_congruences",
    ]
]
TRUSTED = [
    "pyquaternion: Quaternion.yaw_pitch_roll[0] of q and of −q is the yaw ∈ (−π, π] of the rotation (sign-convention "
    "invariance of the weight is this external contract; validated on every case by rendering each object as q and −q)",
    "pyquaternion/numpy: Quaternion(matrix=R0·R) has yaw = yaw(R0) + yaw(R) mod 2π for pure-yaw rotations (angle addition ↔ "
    "rotation composition, DESIGN 4.2; the model adds half-turns and wraps into (−1,1])",
    "float(τ)·π is the real yaw handed to the code; τ itself (exact rational) is handed to the model",
    "pandas: the rows of PerceptionAnalyzer3D.get_pair_results(df) are aligned (ground truth i belongs to estimate i) and "
    "calculate_error returns one value per row in that order (pairs are identified by the uuids of the two rows)",
]
ASSUMPTIONS = [
    "orientations are pure yaw (the model is yaw-only); roll/pitch ≤ 1e-3 rad are exercised on the Python side only with "
    "tolerance 1e-6 (pyquaternion's yaw is not exactly covariant under a frame change when roll/pitch ≠ 0: deviation O(rp²))",
    "ego poses are yaw + translation",
    "at d = π the sign of the reported error is decided by float rounding: either sign accepted when the model says 1 − d < 1e-12 (counted as branch 'boundary:either-sign')",
    "the signed yaw error is compared with the model up to ONE global sign per case (the model's convention or its opposite, the same "
    "for all renderings / all rows of a case); the oracle only demands range and magnitude (the property text fixes no sign convention)",
    "the analysis tool (perception_eval/tool) is read through its public interface as it is today; class / method / column names, "
    "signatures and the row layout are not part of C09: when one of them is not there in the expected form the observation is "
    "dropped for the case (histogram key unobservable:<name>, compare 'skip'), never reported; the definitions of the statistics "
    "of summarize_error() are not compared; a pair the tool's table does not list reports no yaw error (no claim)",
    "ranges are closed with a float slack of 1e-12 (weight in [0,1], yaw error in [-pi, pi])",
]

PI = math.pi
TOL = 1e-9
TOL_RP = 1e-6

# rendering = [frame (0 = BASE_LINK, 1 = MAP), sign of estimate (0: q, 1: −q), sign of ground truth, swapped roles]
ALL16 = [[f, a, b, s] for f in (0, 1) for a in (0, 1) for b in (0, 1) for s in (0, 1)]


def _rend4(k: int):
    """four renderings covering all four sign patterns, two in BASE_LINK and two in MAP (which two rotates with k; each
    frame always gets at least one mixed pattern q/−q); the roles are swapped on alternating renderings"""
    P = [(0, 0), (0, 1), (1, 0), (1, 1)]
    out = []
    for i in range(4):
        a, b = P[(k + i) % 4]
        out.append([0 if i < 2 else 1, a, b, (k + i) & 1 if i < 2 else (k + i + 1) & 1])
    return out


# ----------------------------------------------------------------------------- real objects

_imp = None


def _I():
    global _imp
    if _imp is None:
        import numpy as np
        from pyquaternion import Quaternion
        from perception_eval.common.label import AutowareLabel, Label
        from perception_eval.common.object import DynamicObject
        from perception_eval.common.schema import FrameID
        from perception_eval.common.shape import Shape, ShapeType
        from perception_eval.common.transform import HomogeneousMatrix, TransformDict
        from perception_eval.evaluation.matching import MatchingMode
        from perception_eval.evaluation.metrics.detection.ap import Ap
        from perception_eval.evaluation.metrics.detection.tp_metrics import TPMetricsAph
        from perception_eval.evaluation.result.object_result import DynamicObjectWithPerceptionResult

        class NS:
            pass

        _imp = NS()
        _imp.__dict__.update(locals())
    return _imp


def _quat(I, yaw, rp):
    q = I.Quaternion(axis=[0, 0, 1], angle=yaw)
    if rp is not None:
        roll, pitch = rp
        q = q * I.Quaternion(axis=[0, 1, 0], angle=pitch) * I.Quaternion(axis=[1, 0, 0], angle=roll)
    return q


def _obj(I, frame, pos, q, uuid):
    return I.DynamicObject(
        100, frame, tuple(float(x) for x in pos), q, I.Shape(I.ShapeType.BOUNDING_BOX, (2.0, 4.0, 1.5)), (0.0, 0.0, 0.0),
        0.9, I.Label(I.AutowareLabel.CAR, "car", []), uuid=uuid, pointcloud_num=10,
    )


class HarnessSetupError(RuntimeError):
    """building the inputs of a case failed (objects, poses, configs, managers, sample data): an infrastructure error of the
    check, raised from harness code so that it is never mistaken for an exception of the calls the property is about"""


def _setup(what, fn, *a, **kw):
    try:
        return fn(*a, **kw)
    except Exception as e:  # noqa: BLE001
        raise HarnessSetupError(f"{what}: {type(e).__name__}: {e}") from e


def run_impl(case):
    if case["kind"] == "analyzer":
        return _run_analyzer(case)
    I = _I()
    te = float(Fraction(case["te"])) * PI
    se = case.get("se", 0)
    if case["kind"] == "nogt":
        # no ground truth: outside the quantifier ("all pairs of orientations"); whatever the library does is recorded, not judged
        e = _setup("object", lambda: _obj(I, I.FrameID.BASE_LINK, (3.0, 1.0, 0.0), -_quat(I, te, None) if se else _quat(I, te, None), "e"))
        try:
            r = I.DynamicObjectWithPerceptionResult(e, None)
            he = r.heading_error
            return {"r": [{"w": float(I.TPMetricsAph().get_value(r)), "err": None if he is None else float(he[2])}]}
        except Exception as ex:  # noqa: BLE001
            return {"r": [{"w": None, "err": None, "raised": type(ex).__name__}]}
    tg = float(Fraction(case["tg"])) * PI
    t0 = float(Fraction(case["t0"])) * PI
    rp = case.get("rp")
    qe = _quat(I, te, rp[0:2] if rp else None)
    qg = _quat(I, tg, rp[2:4] if rp else None)
    pe, pg = (case["pos"][0], case["pos"][1], 0.0), (case["pos"][2], case["pos"][3], 0.0)
    from harness import builders as _B  # registry with a history (replaced ego pose), see builders.give_history

    def poses():
        ego2map = I.HomogeneousMatrix(
            (case["tx"], case["ty"], 0.0), I.Quaternion(axis=[0, 0, 1], angle=t0), I.FrameID.BASE_LINK, I.FrameID.MAP
        )
        return ego2map, _B.maybe_history(I.TransformDict([ego2map]), ego2map, ("c09", case["te"], case.get("tg"), case["tx"]))

    ego2map, transforms = _setup("ego pose / transforms", poses)
    cache = {}

    def obj(which, frame, sign):
        k = (which, frame, sign)
        if k not in cache:
            p, q = (pe, qe) if which == 0 else (pg, qg)
            if frame == 1:
                p, q = ego2map.transform(p, q)  # the repository's own rigid motion
            cache[k] = _obj(I, I.FrameID.MAP if frame else I.FrameID.BASE_LINK, p, -q if sign else q, "eg"[which])
        return cache[k]

    out = []
    for i, (f, a, b, s) in enumerate(case["rend"]):
        e, g = _setup("objects", lambda: (obj(0, f, a), obj(1, f, b)))
        if s:
            e, g = g, e
        # ---- the observations of the property (`observe_at`); their exceptions are NOT caught: an in-quantifier pair that
        # cannot be weighted is reported by run_check as "the real code raised"
        r = I.DynamicObjectWithPerceptionResult(e, g, transforms=transforms if f else None)
        w = I.TPMetricsAph().get_value(r)
        he = r.heading_error
        d = {"w": float(w), "err": float(he[2])}
        if case.get("ap") and i % 5 == 0:
            ap = I.Ap(I.TPMetricsAph(), [[r]], 1, [I.AutowareLabel.CAR], I.MatchingMode.CENTERDISTANCE, [1000.0])
            d["tp"] = [float(x) for x in ap.tp_list]
        out.append(d)
    res = {"r": out}
    # objects DERIVED from already-scored ones the way the library derives them (deepcopy, then the state /
    # orientation is replaced: interpolation, frame conversion) must be weighted by their CURRENT heading
    from copy import deepcopy

    e0, g0 = obj(0, 0, 0), obj(1, 0, 0)
    I.TPMetricsAph().get_value(I.DynamicObjectWithPerceptionResult(e0, g0))  # make sure both were scored
    try:  # building the derived objects is harness code on top of `ObjectState` (positional, mutable orientation): when that
        # form is not there any more the observation is dropped (histogram key unobservable:derived-objects)
        from perception_eval.common.object import ObjectState

        d1 = deepcopy(e0)
        d1.state = ObjectState(e0.state.position, g0.state.orientation, e0.state.shape, e0.state.velocity)
        d2 = deepcopy(e0)
        d2.state.orientation = g0.state.orientation
    except Exception as ex:  # noqa: BLE001
        res["unobservable"] = ["derived-objects:" + type(ex).__name__]
    else:
        dr = []
        for dd in (d1, d2):
            r = I.DynamicObjectWithPerceptionResult(dd, g0)
            dr.append({"w": float(I.TPMetricsAph().get_value(r)), "err": float(r.heading_error[2])})
        res["derived"] = dr
    # quaternion level (Lean `yawDir`, `radiansDir`): the components the objects were built from, exactly, and what
    # pyquaternion reads out of q and of −q (fresh Quaternion objects: yaw_pitch_roll normalises in place)
    qd = []
    for q in (qe, qg):
        comps = [float(x) for x in q.q]
        qp, qn = I.Quaternion(comps), I.Quaternion([-x for x in comps])
        qd.append({"q": [core.q(x) for x in comps], "yaw": float(qp.yaw_pitch_roll[0]), "yawn": float(qn.yaw_pitch_roll[0]),
                   "rad": float(qp.radians), "radn": float(qn.radians)})
    res["qd"] = qd
    return res


# ----------------------------------------------------------------------------- the analyzer's yaw error column

AN_LABELS = ["car", "bicycle", "pedestrian", "motorbike"]
AN_SPOTS = [(-75.0 + 10.0 * (k % 16), -75.0 + 10.0 * (k // 16)) for k in range(256)]  # 10 m apart: every pair is matched with itself


class _Unobservable(Exception):
    """an interface of `perception_eval.tool` the harness reads the yaw-error column through is not there in the expected form.
    The tool's API (class / method / column names, status strings, index layout) is in neither `anchors` nor `observe_at` of C09:
    the observation is DROPPED for the case (histogram key `unobservable:<name>`, compare -> "skip"), never reported."""


def _api(obj, name):
    f = getattr(obj, name, None)
    if f is None:
        raise _Unobservable(f"{getattr(obj, '__name__', type(obj).__name__)}.{name}")
    return f


def _call(obj, name, *a, **kw):
    """call a public method of the tool; a missing method or another signature -> _Unobservable; what the method itself raises
    propagates as an exception of the real code"""
    import inspect

    f = _api(obj, name)
    try:
        inspect.signature(f).bind(*a, **kw)
    except TypeError:
        raise _Unobservable(f"{type(obj).__name__}.{name}(signature)") from None
    except ValueError:
        pass
    return f(*a, **kw)


def _construct(cls, *a):
    import inspect

    try:
        inspect.signature(cls).bind(*a)
    except TypeError:
        raise _Unobservable(f"{getattr(cls, '__name__', cls)}(signature)") from None
    except ValueError:
        pass
    return cls(*a)


def _col(df, name, what):
    if name not in getattr(df, "columns", ()):
        raise _Unobservable(f"{what}[{name!r}]")
    return list(df[name])


def _run_analyzer(case):
    """frames of co-located pairs -> real manager -> real PerceptionAnalyzer3D -> yaw error of every paired row"""
    I = _I()
    import importlib

    import numpy as np
    from harness import builders as B

    try:
        frame = case["frame"]
        m = _setup("manager", B.mk_manager, {"max_x_position": 200.0, "max_y_position": 200.0}, frame)
        cfg = m.evaluator_config
        crit = _setup("critical object filter config", B.crit_cfg, cfg, AN_LABELS, max_x_position_list=[200.0] * 4, max_y_position_list=[200.0] * 4)
        pf = _setup("pass/fail config", B.pf_cfg, cfg, AN_LABELS, [case["thr"]] * 4)
        t0 = float(Fraction(case["t0"])) * PI
        n = 0
        for fi, pairs in enumerate(case["frames"]):
            t = 1000 * (fi + 1)

            def build(n0):
                e2m = B.ego2map(case["tx"] + 3.5 * fi, case["ty"] - 1.25 * fi, t0) if frame == "map" else B.ego2map(0.0, 0.0, 0.0)
                gts, ests, k = [], [], n0
                for te, tg, se, sg in pairs:
                    x, y = AN_SPOTS[k % 256]
                    w, l = case["size"]
                    g = B.mk_obj(x, y, float(Fraction(tg)) * PI, "CAR", 1.0, "base_link", f"g{k}", t, (w, l, 1.5), sign=-1 if sg else 1)
                    e = B.mk_obj(x, y, float(Fraction(te)) * PI, "CAR", 0.9, "base_link", f"e{k}", t, (w, l, 1.5), sign=-1 if se else 1)
                    if frame == "map":
                        g, e = B.to_map(g, e2m), B.to_map(e, e2m)  # the repository's own rigid motion
                    gts.append(g)
                    ests.append(e)
                    k += 1
                return B.mk_frame(t, fi, gts, e2m, history=bool(case.get("history"))), ests, k

            gt_frame, ests, n = _setup("frame objects", build, n)
            m.add_frame_result(t, gt_frame, ests, crit, pf)
        res = {"n": n, "unobservable": []}
        try:
            try:
                tool = importlib.import_module("perception_eval.tool")
            except ImportError:
                raise _Unobservable("perception_eval.tool") from None
            an = _construct(_api(tool, "PerceptionAnalyzer3D"), cfg)
            _call(an, "add", m.frame_results)
            # the paired rows (both rows of a pair present) and their yaw errors: `calculate_error("yaw")` is the public place
            # where "the yaw error reported for a pair" is reported by the analysis tool
            gt_df, est_df = _call(an, "get_pair_results")
            errs = np.asarray(_call(an, "calculate_error", "yaw"), dtype=float).reshape(-1)
            rows = []
            if gt_df is not None and est_df is not None:
                gu, eu = _col(gt_df, "uuid", "pair results"), _col(est_df, "uuid", "pair results")
                st = list(gt_df["status"]) if "status" in gt_df.columns else [None] * len(gu)
                if not (len(gu) == len(eu) == len(errs)):
                    # the error array cannot be attributed to pairs by position (other row selection than get_pair_results())
                    raise _Unobservable(f"row alignment: {len(gu)} ground-truth rows, {len(eu)} estimate rows, {len(errs)} yaw errors")
                for g, e, s_, v in zip(gu, eu, st, errs):
                    rows.append({"g": str(g), "e": str(e), "st": str(s_), "err": float(v)})
            res["an"] = rows
            # the TP rows alone, through the df argument (the way the tool's own plots call it); optional
            res["tp"] = []
            df = getattr(an, "df", None)
            if df is not None and "status" in getattr(df, "columns", ()):
                tp = df[df["status"] == "TP"]
                if len(tp):
                    tg_df, _ = _call(an, "get_pair_results", tp)
                    tp_errs = [float(v) for v in np.asarray(_call(an, "calculate_error", "yaw", df=tp), dtype=float).reshape(-1)]
                    if tg_df is not None and "uuid" in tg_df.columns and len(tg_df) == len(tp_errs):
                        res["tp"] = [{"g": str(g), "err": v} for g, v in zip(list(tg_df["uuid"]), tp_errs)]
                    else:
                        res["unobservable"].append("calculate_error(df=TP rows): row alignment")
            else:
                res["unobservable"].append("analyzer.df['status']")
        except _Unobservable as u:
            res["unobservable"].append(str(u))
        # third public place: the `error_yaw` column of PerceptionAnalyzer3DField (ground-truth row: est − gt, estimate row: gt − est)
        try:
            try:
                fmod = importlib.import_module("perception_eval.tool.perception_analyzer3dfield")
            except ImportError:
                raise _Unobservable("perception_eval.tool.perception_analyzer3dfield") from None
            fa = _construct(_api(fmod, "PerceptionAnalyzer3DField"), cfg)
            _call(fa, "add", m.frame_results)
            _call(fa, "add_additional_column")
            _call(fa, "add_error_columns")
            fdf = _api(fa, "df")
            field = {}
            for u, v in zip(_col(fdf, "uuid", "field table"), _col(fdf, "error_yaw", "field table")):
                if u is not None and v is not None and not math.isnan(float(v)):
                    field[str(u)] = float(v)
            res["field"] = field
        except _Unobservable as u:
            res["unobservable"].append(str(u))
        return res
    finally:
        B.cleanup()


def _an_pairs(case):
    """[(uuid number, τe, τg)] of an analyzer case, in construction order"""
    out, n = [], 0
    for pairs in case["frames"]:
        for te, tg, _se, _sg in pairs:
            out.append((n, Fraction(te), Fraction(tg)))
            n += 1
    return out


def _an_by_gt(out):
    by = {}
    for r in out.get("an", []):
        if r["g"][:1] == "g" and r["g"][1:].isdigit() and r["e"] == "e" + r["g"][1:]:
            by[int(r["g"][1:])] = r
    return by


def _sign_fit(obs, tol):
    """obs: [(reported/π, model/π, at the boundary d = π?)].  The text fixes NO sign convention of the yaw error (est − gt or
    gt − est); the model has one.  Accepted: all rows agree with the model's sign, or all with the opposite sign (a global flip);
    at d = π only the magnitude (the sign is decided by rounding).  -> None | (index, sign tried) of the first row that fits neither"""
    first = None
    for sgn in (1.0, -1.0):
        bad = next((k for k, (ie, me, bd) in enumerate(obs)
                    if not ((abs(abs(ie) - abs(me)) <= tol) if bd else (abs(ie - sgn * me) <= tol))), None)
        if bad is None:
            return None
        first = bad if first is None else first
    return first


def _compare_analyzer(case, out, m):
    if "an" not in out:
        return "skip"  # the analyzer's table is not observable through the expected public interface (histogram: unobservable:*)
    by = _an_by_gt(out)
    key = "errM" if case["frame"] == "map" else "err"
    obs, who = [], []
    fobs = {"g": [], "e": []}
    fwho = {"g": [], "e": []}
    for (n, te, tg), mp in zip(_an_pairs(case), m["pairs"]):
        me, d = float(core.unq(mp[key])), float(core.unq(mp["d"]))
        bd = 1 - d < 1e-12
        r = by.get(n)
        if r is not None:  # (a pair the table does not list reports no yaw error: nothing to compare)
            obs.append((r["err"] / PI, me, bd))
            who.append((n, te, tg))
        for role in ("g", "e"):  # the two rows of the pair in PerceptionAnalyzer3DField (one is the negative of the other)
            v = out.get("field", {}).get(f"{role}{n}")
            if v is not None:
                fobs[role].append((v / PI, me, bd))
                fwho[role].append((n, te, tg))
    bad = _sign_fit(obs, TOL)
    if bad is not None:
        n, te, tg = who[bad]
        return f"pair {n} (τe={te}, τg={tg}): analyzer yaw error/π {obs[bad][0]!r} != ± model {obs[bad][1]!r} (no global sign convention fits all rows)"
    for role in ("g", "e"):
        bad = _sign_fit(fobs[role], TOL)
        if bad is not None:
            n, te, tg = fwho[role][bad]
            return (f"pair {n} (τe={te}, τg={tg}): PerceptionAnalyzer3DField error_yaw/π of row {role}{n} = {fobs[role][bad][0]!r} != ± model "
                    f"{fobs[role][bad][1]!r} (no global sign convention fits all {role}-rows)")
    # (the statistics of summarize_error() - definitions of max / min / rms / average over the column - are the tool's business,
    # not C09's: not compared)
    return "skip" if not obs else None


def _oracle_analyzer(case, out):
    if not isinstance(out, dict) or "an" not in out:
        return None  # not observable through the expected public interface of the tool (dropped, see _Unobservable)
    by = _an_by_gt(out)
    tp = {int(r["g"][1:]): r["err"] for r in out.get("tp", []) if r["g"][1:].isdigit()}
    for n, te, tg in _an_pairs(case):
        r = by.get(n)
        ye, yg = float(te) * PI, float(tg) * PI
        d = abs(math.remainder(yg - ye, 2 * PI))
        fld = out.get("field", {})
        # "The yaw error reported for a pair lies in [-pi, pi] and has magnitude d": every place that REPORTS one for this pair
        # (a pair the table does not list reports none: no claim)
        for where, err in (("calculate_error('yaw')", None if r is None else r["err"]), ("calculate_error('yaw', df=TP rows)", tp.get(n)),
                           (f"PerceptionAnalyzer3DField error_yaw of row g{n}", fld.get(f"g{n}")),
                           (f"PerceptionAnalyzer3DField error_yaw of row e{n}", fld.get(f"e{n}"))):
            if err is None:
                continue
            if not (-PI - 1e-12 <= err <= PI + 1e-12):
                return f"{where}: yaw error {err!r} outside [-pi, pi] (pair {n}: yaw_est={ye!r}, yaw_gt={yg!r}, {case['frame']})"
            if abs(abs(err) - d) > TOL * PI:
                return (f"{where}: |yaw error| {abs(err)!r} != d = {d!r} for pair {n} ({'' if r is None else r['st']}): yaw_est={ye!r}, yaw_gt={yg!r}, "
                        f"frame {case['frame']}")
    return None


def _an_case(rng, pairs_per_frame, frame, thr=None, size=None):
    p0, tx, ty = _pose(rng)
    return {"kind": "analyzer", "frame": frame, "t0": p0, "tx": tx, "ty": ty, "history": rng.random() < 0.5,
            "thr": thr if thr is not None else rng.choice([100.0, 100.0, 1.0, 0.5]),
            "size": size or rng.choice([[1.0, 1.0], [1.0, 1.0], [2.0, 4.0]]),
            "frames": [[[core.q(te), core.q(tg), se, sg] for te, tg, se, sg in pairs] for pairs in pairs_per_frame]}


def _seam_pair(rng):
    """yaws on the two sides of the ±π seam (raw difference beyond ±π), in either order"""
    N = rng.choice([64, 64, 1000, 10**6])
    a = Fraction(rng.randint(N // 2 + 1, N), N)          # in (1/2, 1]
    b = -Fraction(rng.randint(N // 2 + 1, N - 1), N)     # in (−1, −1/2)
    return (a, b) if rng.random() < 0.5 else (b, a)


def _gen_analyzer(rng, tier):
    cases = []
    den = 8 if tier == "quick" else 16
    grid = [Fraction(k, den) for k in range(-den + 1, den + 1)]
    allp = [(a, b, (i + j) & 1, ((i + 2 * j) >> 1) & 1) for i, a in enumerate(grid) for j, b in enumerate(grid)]
    for k in range(0, len(allp), 64):
        chunk = allp[k:k + 64]
        for frame in ("base_link", "map"):
            ch = [(a, b, se ^ (frame == "map"), sg) for a, b, se, sg in chunk]
            cases.append(_an_case(rng, [ch], frame, thr=100.0 if (k // 64) % 2 == 0 else rng.choice([1.0, 0.5])))
    for _ in range(10 if tier == "quick" else 40):
        frames = []
        for _f in range(rng.choice([1, 2])):
            ps = []
            for _p in range(rng.choice([8, 24, 40])):
                u = rng.random()
                if u < 0.3:
                    te, tg = _seam_pair(rng)
                elif u < 0.5:
                    te, tg = Fraction(rng.randint(-63, 64), 64), Fraction(rng.randint(-63, 64), 64)
                elif u < 0.7:
                    N = rng.choice([7, 360, 1000, 10**6, 10**9])
                    te, tg = Fraction(rng.randint(-N + 1, N), N), Fraction(rng.randint(-N + 1, N), N)
                elif u < 0.9:
                    te = Fraction(rng.randint(-63, 64), 64)
                    eps = rng.choice([Fraction(0), Fraction(1, 1000), Fraction(1, 10**6), Fraction(1, 2**30), Fraction(1, 10**10)])
                    tg = _dom(te + 1 + rng.choice([1, -1]) * eps)
                else:
                    te = Fraction(rng.randint(-999, 1000), 1000)
                    tg = _dom(te + rng.choice([0, 1]) * Fraction(1, 10**rng.randint(3, 12)))
                ps.append((te, tg, rng.randint(0, 1), rng.randint(0, 1)))
            frames.append(ps)
        cases.append(_an_case(rng, frames, rng.choice(["base_link", "map"])))
    return cases

# ----------------------------------------------------------------------------- model side

def model_requests(case, out):
    if not isinstance(out, dict) or out.get("unexpected"):
        return []
    if case["kind"] == "analyzer":
        ps = _an_pairs(case)
        return [{"op": "analyzer", "t0": case["t0"] if case["frame"] == "map" else "0",
                 "te": [core.q(te) for _n, te, _tg in ps], "tg": [core.q(tg) for _n, _te, tg in ps]}]
    reqs = [{"op": "pair", "te": case["te"], "tg": case.get("tg"), "t0": case.get("t0", "0")}]
    if isinstance(out, dict) and out.get("qd"):
        reqs.append({"op": "yawdir", "q": [c for d in out["qd"] for c in d["q"]]})
    return reqs


def _tol(case):
    return TOL_RP if case.get("rp") else TOL


def _mkey(f, s):
    return ("M" if f else "") + ("S" if s else "")


def compare(case, out, resps):
    m = resps[0]
    if not isinstance(out, dict) or (case["kind"] != "analyzer" and "r" not in out):
        return None  # no output of the real code to compare
    if case["kind"] == "analyzer":
        return _compare_analyzer(case, out, m)
    if case["kind"] == "nogt":
        # outside the quantifier (no pair of orientations): agreement with the model is recorded, anything else is no claim
        r = out["r"][0]
        ok = r["w"] is not None and r["w"] == float(core.unq(m["w"])) and r["err"] is None and m["err"] is None
        return None if ok else "skip"
    tol = _tol(case)
    d = core.unq(m["d"])
    near_boundary = float(1 - d) < (1e-12 if not case.get("rp") else 4 * TOL_RP)
    obs = []
    for (f, a, b, s), r in zip(case["rend"], out["r"]):
        k = _mkey(f, s)
        mw = float(core.unq(m["w" + k]))
        me = float(core.unq(m["err" + k]))
        if not abs(r["w"] - mw) <= tol:
            return f"rendering {[f, a, b, s]}: weight impl {r['w']!r} != model {mw!r}"
        obs.append((r["err"] / PI, me, near_boundary))
        if "tp" in r:
            if len(r["tp"]) != 1 or not abs(r["tp"][0] - mw) <= tol:
                return f"rendering {[f, a, b, s]}: Ap.tp_list {r['tp']} != [model weight {mw!r}]"
    # signed yaw error: the model's sign convention or its global opposite (the text fixes none), over all renderings of the pair
    bad = _sign_fit(obs, max(tol, 4 * TOL_RP if case.get("rp") else 0) if near_boundary else tol)
    if bad is not None:
        return (f"rendering {case['rend'][bad]}: yaw error/π impl {obs[bad][0]!r} != ± model {obs[bad][1]!r}"
                + (" (boundary)" if near_boundary else " (no global sign convention fits all renderings)"))
    if out.get("qd") and len(resps) > 1 and resps[1] is not None:
        msg = _compare_quat_level(case, out["qd"], resps[1].get("dirs", []))
        if msg:
            return msg
    return None


def _ang_close(a, b, tol):
    d = abs(a - b) % (2 * PI)
    return min(d, 2 * PI - d) <= tol


def _compare_quat_level(case, qd, dirs):
    """Lean `yawDir q` = the two arguments of arctan2 in `Quaternion.yaw_pitch_roll[0]`, equal for q and −q
    (`PEval.C09.heading_of_neg`); the yaw pyquaternion reports for q and for −q is atan2 of that pair.  For pure-yaw
    quaternions also the model of the defective variant: `radiansDir` is (cos, sin) of `Quaternion.radians`."""
    if len(dirs) != len(qd):
        return f"quaternion level: {len(dirs)} model rows for {len(qd)} quaternions"
    for d, m in zip(qd, dirs):
        c, s_, cn, sn = (float(core.unq(m[k])) for k in ("c", "s", "cn", "sn"))
        if (m["c"], m["s"]) != (m["cn"], m["sn"]):
            return f"quaternion level: model yawDir differs between q and −q: {m}"
        y = math.atan2(s_, c)
        for name in ("yaw", "yawn"):
            if not _ang_close(d[name], y, 1e-9):
                return f"quaternion level: pyquaternion {name} {d[name]!r} != atan2(yawDir) {y!r} for q={d['q']}"
        if not case.get("rp"):
            for name, (kc, ks) in (("rad", ("rc", "rs")), ("radn", ("rcn", "rsn"))):
                rc, rs = float(core.unq(m[kc])), float(core.unq(m[ks]))
                if abs(math.cos(d[name]) - rc) > 1e-9 or abs(math.sin(d[name]) - rs) > 1e-9:
                    return f"quaternion level: (cos, sin) of Quaternion.radians {d[name]!r} != radiansDir {(rc, rs)} ({name}, q={d['q']})"
    return None


# ----------------------------------------------------------------------------- oracle (independent of the model)

def _names(r):
    f, a, b, s = r
    return f"{'MAP' if f else 'BASE_LINK'}/est={'-q' if a else 'q'}/gt={'-q' if b else 'q'}{'/swapped' if s else ''}"


def oracle(case, out):
    if not isinstance(out, dict):
        return None
    if out.get("unexpected") or ("err" in out and "r" not in out and "an" not in out):
        # an exception that escaped run_impl (reported by run_check itself under the current convention)
        return f"the implementation raised {out.get('err')}: {out.get('msg', '')} {str(out.get('trace', ''))[-300:]}"
    if case["kind"] == "analyzer":
        return _oracle_analyzer(case, out)
    if "r" not in out:
        return None
    if case["kind"] == "nogt":
        return None  # outside the property's quantifier (pairs of orientations); compared with the model only
    for k_, dv in enumerate(out.get("derived", [])):
        if abs(dv["w"] - 1.0) > 1e-9 or abs(dv["err"]) > 1e-9:
            return (f"an object derived from a scored one by deepcopy + new orientation (now equal to the ground truth's) "
                    f"gets heading weight {dv['w']!r} and yaw error {dv['err']!r}; a fresh object gets 1.0 and 0.0")
    tol = _tol(case)
    ye = float(Fraction(case["te"])) * PI
    yg = float(Fraction(case["tg"])) * PI
    # the true minimal absolute yaw difference, from the real yaws
    d = abs(math.remainder(yg - ye, 2 * PI))
    d2 = abs(math.atan2(math.sin(yg - ye), math.cos(yg - ye)))
    assert abs(d - d2) < 1e-12 and 0.0 <= d <= PI + 1e-15
    wref = 1.0 - d / PI
    te, tg = Fraction(case["te"]), Fraction(case["tg"])
    rs = list(zip(case["rend"], out["r"]))
    for rd, r in rs:
        w, err = r["w"], r["err"]
        # closed ranges "d in [0, pi]" / "lies in [-pi, pi]", with the float slack 1e-12 the analyzer clause uses (an equivalent
        # formula such as atan2(sin, cos) may round pi up by an ulp)
        if not (-1e-12 <= w <= 1.0 + 1e-12):
            return f"{_names(rd)}: weight {w!r} outside [0,1] (yaw_est={ye!r}, yaw_gt={yg!r})"
        if not (-PI - 1e-12 <= err <= PI + 1e-12):
            return f"{_names(rd)}: yaw error {err!r} outside [-pi,pi] (yaw_est={ye!r}, yaw_gt={yg!r})"
    # invariances first (clearer messages), against the first rendering
    rd0, r0 = rs[0]
    for rd, r in rs[1:]:
        if abs(r["w"] - r0["w"]) > 2 * tol:
            diff = [n for n, x, y in zip(("frame", "sign of the estimate's quaternion", "sign of the ground truth's quaternion", "roles (symmetry)"), rd0, rd) if x != y]
            return (f"weight depends on {', '.join(diff)}: {_names(rd0)} gives {r0['w']!r}, {_names(rd)} gives {r['w']!r} "
                    f"(yaw_est={ye!r}, yaw_gt={yg!r}, d={d!r})")
        if abs(abs(r["err"]) - abs(r0["err"])) > 2 * tol * PI:
            diff = [n for n, x, y in zip(("frame", "sign of the estimate's quaternion", "sign of the ground truth's quaternion", "roles (swap)"), rd0, rd) if x != y]
            return (f"|yaw error| depends on {', '.join(diff)}: {_names(rd0)} gives {r0['err']!r}, {_names(rd)} gives {r['err']!r} "
                    f"(yaw_est={ye!r}, yaw_gt={yg!r}, d={d!r})")
    for rd, r in rs:
        w, err = r["w"], r["err"]
        if te == tg and not case.get("rp") and abs(w - 1.0) > tol:
            return f"{_names(rd)}: equal yaws {ye!r} but weight {w!r} != 1"
        if abs(te - tg) == 1 and not case.get("rp") and abs(w) > tol:
            return f"{_names(rd)}: opposite headings (yaw_est={ye!r}, yaw_gt={yg!r}) but weight {w!r} != 0"
        if abs(w - wref) > tol:
            return f"{_names(rd)}: weight {w!r} != 1 - d/pi = {wref!r} (yaw_est={ye!r}, yaw_gt={yg!r}, d={d!r})"
        if abs(abs(err) - d) > tol * PI:
            return f"{_names(rd)}: |yaw error| {abs(err)!r} != d = {d!r} (yaw_est={ye!r}, yaw_gt={yg!r})"
        if "tp" in r and (len(r["tp"]) != 1 or abs(r["tp"][0] - wref) > tol):
            return f"{_names(rd)}: Ap(TPMetricsAph).tp_list {r['tp']} != [1 - d/pi = {wref!r}]"
    return None


# ----------------------------------------------------------------------------- generation

def _pose(rng):
    t0 = Fraction(rng.randint(-63, 64), 64)
    return core.q(t0), core.dyadic(rng, -200, 200, 8), core.dyadic(rng, -200, 200, 8)


def _pos(rng):
    x, y = core.dyadic(rng, -30, 30, 8), core.dyadic(rng, -30, 30, 8)
    if x == 0 and y == 0:
        x = 1.0
    return [x, y, x + core.dyadic(rng, -1, 1, 8), y + core.dyadic(rng, -1, 1, 8)]


def _case(rng, te, tg, rend, t0=None, rp=None, ap=False):
    p0, tx, ty = _pose(rng)
    c = {"kind": "pair", "te": core.q(te), "tg": core.q(tg), "t0": p0 if t0 is None else core.q(t0), "tx": tx, "ty": ty,
         "pos": _pos(rng), "rend": rend}
    if rp is not None:
        c["rp"] = rp
    if ap:
        c["ap"] = True
    return c


def _dom(t):
    """bring a rational into (−1, 1]"""
    while t > 1:
        t -= 2
    while t <= -1:
        t += 2
    return t


def corpus():
    import random

    rng = random.Random(9)
    cs = []
    # F3 (fixed): ego frame, yaw -0.3 rad vs +0.3 rad (τ = ±0.3/π is irrational; ±3/32 ≈ ±0.2945 rad shows the same)
    cs.append(_case(rng, Fraction(-3, 32), Fraction(3, 32), ALL16, ap=True))
    cs.append(_case(rng, Fraction(3, 32), Fraction(-3, 32), ALL16))
    # F4 (fixed): estimate +, GT − : error must be −0.6, not 2.54
    cs.append(_case(rng, Fraction(6, 64), Fraction(-6, 64), ALL16, t0=0))
    # wrap-around pairs, boundary pairs, the cut at ±π, heading cut at yaw = π/2
    for te, tg in [(Fraction(3, 4), Fraction(-7, 8)), (1, 0), (0, 1), (1, 1), (Fraction(1, 2), Fraction(-1, 2)), (Fraction(1, 2), Fraction(33, 64)),
                   (Fraction(-63, 64), 1), (Fraction(-63, 64), Fraction(1, 64)), (Fraction(1, 2), Fraction(1, 2)), (0, 0)]:
        cs.append(_case(rng, Fraction(te), Fraction(tg), ALL16))
    # the exception of headingError_frame_invariant: d = π, ego rotation moves one yaw across the cut
    cs.append(_case(rng, Fraction(0), Fraction(1), ALL16, t0=Fraction(1, 2)))
    cs.append({"kind": "nogt", "te": "1/4", "se": 0, "t0": "0"})
    cs.append({"kind": "nogt", "te": "-3/4", "se": 1, "t0": "0"})
    # the analyzer's yaw column: pairs across the ±π seam in both orders, opposite, equal, ordinary; both frames
    seam = [(Fraction(61, 64), Fraction(-61, 64), 0, 0), (Fraction(-61, 64), Fraction(61, 64), 0, 1), (Fraction(3, 4), Fraction(-7, 8), 1, 0),
            (Fraction(-1, 2) - Fraction(1, 64), Fraction(1, 2) + Fraction(1, 32), 1, 1), (Fraction(1), Fraction(-63, 64), 0, 0),
            (Fraction(0), Fraction(1), 0, 0), (Fraction(1, 4), Fraction(1, 4), 0, 1), (Fraction(-3, 32), Fraction(3, 32), 1, 0)]
    for frame in ("base_link", "map"):
        cs.append(_an_case(rng, [seam], frame, thr=100.0, size=[1.0, 1.0]))
    return cs


def generate(rng, tier):
    cases = []
    # exhaustive grids
    g8 = [Fraction(k, 8) for k in range(-7, 9)]
    n = 0
    for a in g8:
        for b in g8:
            cases.append(_case(rng, a, b, ALL16, ap=(n % 8 == 0)))
            n += 1
    if tier == "thorough":
        g64 = [Fraction(k, 64) for k in range(-63, 65)]
        for i, a in enumerate(g64):
            for j, b in enumerate(g64):
                cases.append(_case(rng, a, b, _rend4(i + 3 * j)))
    scale = 1 if tier == "quick" else 3
    # random pairs of the fine grid, all renderings
    for _ in range(120 * scale):
        cases.append(_case(rng, Fraction(rng.randint(-63, 64), 64), Fraction(rng.randint(-63, 64), 64), ALL16, ap=rng.random() < 0.1))
    # random rationals
    for _ in range(120 * scale):
        N = rng.choice([3, 5, 7, 9, 11, 100, 360, 1000, 10**6, 10**9, rng.randint(2, 10**6)])
        cases.append(_case(rng, Fraction(rng.randint(-N + 1, N), N), Fraction(rng.randint(-N + 1, N), N), ALL16))
    # boundary family d = π and its neighbourhood; near-equal yaws
    eps_list = [Fraction(0), Fraction(1, 1000), Fraction(1, 10**6), Fraction(1, 2**30), Fraction(1, 10**10), Fraction(1, 10**13)]
    for _ in range(12 * scale):
        te = Fraction(rng.randint(-63, 64), 64) if rng.random() < 0.7 else Fraction(rng.randint(-999, 1000), 1000)
        for eps in eps_list:
            sgn = rng.choice([1, -1])
            cases.append(_case(rng, te, _dom(te + 1 + sgn * eps), ALL16))
            if rng.random() < 0.5:
                cases.append(_case(rng, te, _dom(te + sgn * eps), ALL16))
    # roll / pitch on the Python side only
    for _ in range(80 * scale):
        rp = [rng.uniform(-1e-3, 1e-3) if rng.random() < 0.8 else 0.0 for _ in range(4)]
        if rng.random() < 0.5:
            te, tg = Fraction(rng.randint(-63, 64), 64), Fraction(rng.randint(-63, 64), 64)
        else:
            te = Fraction(rng.randint(-999, 1000), 1000)
            tg = _dom(te + rng.choice([0, 1, Fraction(1, 2), Fraction(rng.randint(-999, 1000), 1000)]))
        cases.append(_case(rng, te, tg, ALL16, rp=rp))
    for _ in range(4):
        cases.append({"kind": "nogt", "te": core.q(Fraction(rng.randint(-63, 64), 64)), "se": rng.randint(0, 1), "t0": "0"})
    # the analysis tool's yaw error column (drawn last: the cases above stay what they were for a given seed)
    cases += _gen_analyzer(rng, tier)
    return cases


# ----------------------------------------------------------------------------- histogram, shrinking, search

def branches(case, out):
    if not isinstance(out, dict) or out.get("unexpected"):
        return ["impl-error:" + str(out.get("err") if isinstance(out, dict) else out)]
    if case["kind"] == "nogt":
        return ["trivial", "nogt", "skipped:outside-quantifier:no-ground-truth"]
    if case["kind"] == "analyzer":
        br = ["analyzer", "analyzer:frame:" + case["frame"], f"analyzer:frames:{len(case['frames'])}"]
        br += ["unobservable:" + u for u in out.get("unobservable", [])]
        if "an" not in out:
            return br + ["trivial", "skipped:analyzer-not-observable"]
        if len(_an_by_gt(out)) < len(_an_pairs(case)):
            br.append("analyzer:pairs-without-a-row")
        st = {r["st"] for r in out["an"]}
        br.append("analyzer:rows:" + "+".join(sorted(st)))
        for n, te, tg in _an_pairs(case):
            raw = tg - te
            delta = abs(raw)
            d = min(delta, 2 - delta)
            br.append("analyzer:wrap:" + ("-2pi" if raw > 1 else "+2pi" if raw < -1 else "none"))
            br.append("analyzer:d:" + ("0" if d == 0 else "pi" if d == 1 else "near-pi" if 1 - d < Fraction(1, 10**8) else "interior"))
        return br
    te, tg, t0 = Fraction(case["te"]), Fraction(case["tg"]), Fraction(case["t0"])
    br = []
    delta = abs(te - tg)
    d = min(delta, 2 - delta)
    br.append("fold:2pi-d" if delta > 1 else "fold:none")
    br.append("d:0" if d == 0 else "d:pi" if d == 1 else "d:near-pi" if 1 - d < Fraction(1, 10**8) else "d:near-0" if d < Fraction(1, 10**8) else "d:interior")
    if 0 < 1 - d < Fraction(1, 10**12) or (d == 1):
        br.append("boundary:either-sign")
    for nm, t in (("est", te), ("gt", tg)):
        br.append(f"heading-wrap:{nm}:{'+2pi' if t > Fraction(1, 2) else 'none'}")
    diff = tg - te
    br.append("clip:+2pi" if diff < -1 else "clip:-2pi" if diff > 1 else "clip:none")
    for nm, t in (("est", te), ("gt", tg)):
        s = t + t0
        br.append(f"map-yaw-wrap:{nm}:{'-2' if s > 1 else '+2' if s <= -1 else 'none'}")
    br.append("rp" if case.get("rp") else "yaw-only")
    br += ["unobservable:" + u for u in out.get("unobservable", [])]
    br.append(f"renderings:{len(case['rend'])}")
    if case.get("ap"):
        br.append("ap.tp_list")
    if "r" in out:
        es = {(r["err"] > 0) - (r["err"] < 0) for r in out["r"]}
        br.append("err-sign:" + ",".join(str(x) for x in sorted(es)))
        if d == 1:
            # same roles, different frame / quaternion sign: do the renderings report +π and −π?
            for sw in (0, 1):
                sg = {r["err"] > 0 for rd, r in zip(case["rend"], out["r"]) if rd[3] == sw}
                if len(sg) > 1:
                    br.append("boundary:renderings-differ-in-sign")
                    break
    else:
        br.append("impl-error:" + str(out.get("err")))
    return br


def shrink(case):
    if case["kind"] == "analyzer":
        fr = case["frames"]
        if len(fr) > 1:
            for i in range(len(fr)):
                yield dict(case, frames=fr[:i] + fr[i + 1:])
        for fi, ps in enumerate(fr):
            if len(ps) > 1:
                h = len(ps) // 2
                for sub in (ps[:h], ps[h:]):
                    yield dict(case, frames=fr[:fi] + [sub] + fr[fi + 1:])
                if len(ps) <= 8:
                    for i in range(len(ps)):
                        yield dict(case, frames=fr[:fi] + [ps[:i] + ps[i + 1:]] + fr[fi + 1:])
        if case.get("history"):
            yield dict(case, history=False)
        return
    if case["kind"] != "pair":
        return
    if case.get("rp"):
        c = dict(case)
        c.pop("rp")
        yield c
    if case.get("ap"):
        c = dict(case)
        c.pop("ap")
        yield c
    rend = case["rend"]
    if len(rend) > 2:
        # pairs of renderings (the invariance messages need two), then single ones
        for i in range(len(rend)):
            for j in range(i + 1, len(rend)):
                c = dict(case)
                c["rend"] = [rend[i], rend[j]]
                yield c
    if len(rend) > 1:
        for r in rend:
            c = dict(case)
            c["rend"] = [r]
            yield c
    for den in (4, 8, 16, 64):
        c = dict(case)
        ch = False
        for k in ("te", "tg", "t0"):
            t = Fraction(case[k])
            s = _dom(Fraction(round(t * den), den))
            if s != t:
                c[k] = core.q(s)
                ch = True
        if ch:
            yield c
    if case["t0"] != "0" or case["tx"] or case["ty"]:
        c = dict(case)
        c.update({"t0": "0", "tx": 0.0, "ty": 0.0})
        yield c
    if case["pos"] != [3.0, 1.0, 3.5, 1.0]:
        c = dict(case)
        c["pos"] = [3.0, 1.0, 3.5, 1.0]
        yield c


def search(rng, st, disagreements):
    """the k/16 grid with all sixteen renderings, then a fresh quick batch"""
    g = [Fraction(k, 16) for k in range(-15, 17)]
    cs = [_case(rng, a, b, ALL16) for a in g for b in g]
    return cs + generate(rng, "quick")
