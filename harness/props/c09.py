"""C09 — heading comparisons use the true minimal yaw difference.

Real side: REAL `DynamicObject` pairs (estimate, ground truth) with yaw = float(τ)·π, each orientation as `q`
or `−q`, expressed in BASE_LINK or (after the repository's own `HomogeneousMatrix.transform` with an ego
pose of yaw τ0·π and a translation) in MAP, wrapped in a real `DynamicObjectWithPerceptionResult`;
observed: `TPMetricsAph().get_value(result)`, `result.heading_error[2]`, and `Ap(TPMetricsAph(), …).tp_list`.
Model side: `PEval.Heading` on exact half-turns τ (π ↦ 1).  One *case* is one physical pair; it is
*rendered* several times (frame × sign of each quaternion × roles swapped) – every rendering is compared
with the model, and the oracle demands that all renderings tell the same story (1 − d/π, |err| = d).
"""
from __future__ import annotations

import math
import os
from fractions import Fraction

# the real code multiplies 4x4 matrices only: BLAS worker threads are pure overhead (set before numpy is first imported)
os.environ.setdefault("OMP_NUM_THREADS", "1")
os.environ.setdefault("OPENBLAS_NUM_THREADS", "1")

from .. import core

PROP = "C09"
EXHAUSTIVE = True
RULE = (
    "quick: EVERY pair (τe, τg) of the grid k/8 ⊂ (−1,1] (16×16), each rendered 16 times = {BASE_LINK, MAP} × "
    "{q,−q} for the estimate × {q,−q} for the ground truth × {est/gt, roles swapped}; thorough: EVERY pair of the "
    "grid k/64 (128×128), each rendered 4 times = all four sign patterns (q/−q for estimate and ground truth), two of them in BASE_LINK "
    "and two in MAP (which two rotates over the grid; each frame always gets a mixed pattern), roles swapped on alternating "
    "renderings (the constructor of the real result object costs 2-3 ms, hence not all 16), "
    "plus the full 16-fold rendering of the k/8 grid; on top (both tiers, seeded): random pairs of the k/64 grid, "
    "random rationals with denominators up to 10^9, the boundary family τg = τe ± 1 (d = π) and its neighbours at "
    "distance 1e-3 … 1e-13, near-equal yaws, and pairs with roll/pitch up to ±1e-3 rad on the Python side only "
    "(tolerance 1e-6, labelled rp). The ego pose of the MAP rendering has a random yaw τ0 ∈ (−1,1] (grid k/64) and a "
    "random dyadic translation. A case is non-trivial when it has a ground truth (all but the 'nogt' cases); "
    "distinct = distinct (τe, τg, τ0, translation, renderings, roll/pitch)."
)
THEOREMS = [
    "PEval.C09." + t
    for t in [
        "aphWeight_eq", "aphWeight_symm", "aphWeight_eq_one_iff", "aphWeight_eq_zero_iff", "aphWeight_eq_zero_iff_d",
        "aphWeight_range", "frame_invariant", "headingError_range", "headingError_abs_eq_d", "headingError_congr",
        "headingError_boundary", "headingError_antisymm", "headingError_frame_invariant",
        "aphWeight_eq_one_sub_abs_error", "wrapYaw_dom", "preFix_not_minimal", "preFix_not_sign_invariant",
    ]
]
TRUSTED = [
    "pyquaternion: Quaternion.yaw_pitch_roll[0] of q and of −q is the yaw ∈ (−π, π] of the rotation (sign-convention "
    "invariance of the weight is this external contract; validated on every case by rendering each object as q and −q)",
    "pyquaternion/numpy: Quaternion(matrix=R0·R) has yaw = yaw(R0) + yaw(R) mod 2π for pure-yaw rotations (angle addition ↔ "
    "rotation composition, DESIGN 4.2; the model adds half-turns and wraps into (−1,1])",
    "float(τ)·π is the real yaw handed to the code; τ itself (exact rational) is handed to the model",
]
ASSUMPTIONS = [
    "orientations are pure yaw (the model is yaw-only); roll/pitch ≤ 1e-3 rad are exercised on the Python side only with "
    "tolerance 1e-6 (pyquaternion's yaw is not exactly covariant under a frame change when roll/pitch ≠ 0: deviation O(rp²))",
    "ego poses are yaw + translation",
    "at d = π the sign of the reported error is decided by float rounding: either sign accepted when the model says 1 − d < 1e-12 (counted as branch 'boundary:either-sign')",
    "the signed yaw error is compared with the model, but the oracle only demands range and magnitude (the property text fixes no sign convention)",
]

PI = math.pi
TOL = 1e-9
TOL_RP = 1e-6

# rendering = [frame (0 = BASE_LINK, 1 = MAP), sign of estimate (0: q, 1: −q), sign of ground truth, swapped roles]
ALL16 = [[f, a, b, s] for f in (0, 1) for a in (0, 1) for b in (0, 1) for s in (0, 1)]


def _rend4(k: int):
    """four renderings covering all four sign patterns, two in BASE_LINK and two in MAP (which two rotates with k; each
    frame always gets at least one mixed pattern q/−q); the roles are swapped on alternating renderings"""
    P = [(0, 0), (0, 1), (1, 0), (1, 1)]
    out = []
    for i in range(4):
        a, b = P[(k + i) % 4]
        out.append([0 if i < 2 else 1, a, b, (k + i) & 1 if i < 2 else (k + i + 1) & 1])
    return out


# ----------------------------------------------------------------------------- real objects

_imp = None


def _I():
    global _imp
    if _imp is None:
        import numpy as np
        from pyquaternion import Quaternion
        from perception_eval.common.label import AutowareLabel, Label
        from perception_eval.common.object import DynamicObject
        from perception_eval.common.schema import FrameID
        from perception_eval.common.shape import Shape, ShapeType
        from perception_eval.common.transform import HomogeneousMatrix, TransformDict
        from perception_eval.evaluation.matching import MatchingMode
        from perception_eval.evaluation.metrics.detection.ap import Ap
        from perception_eval.evaluation.metrics.detection.tp_metrics import TPMetricsAph
        from perception_eval.evaluation.result.object_result import DynamicObjectWithPerceptionResult

        class NS:
            pass

        _imp = NS()
        _imp.__dict__.update(locals())
    return _imp


def _quat(I, yaw, rp):
    q = I.Quaternion(axis=[0, 0, 1], angle=yaw)
    if rp is not None:
        roll, pitch = rp
        q = q * I.Quaternion(axis=[0, 1, 0], angle=pitch) * I.Quaternion(axis=[1, 0, 0], angle=roll)
    return q


def _obj(I, frame, pos, q, uuid):
    return I.DynamicObject(
        100, frame, tuple(float(x) for x in pos), q, I.Shape(I.ShapeType.BOUNDING_BOX, (2.0, 4.0, 1.5)), (0.0, 0.0, 0.0),
        0.9, I.Label(I.AutowareLabel.CAR, "car", []), uuid=uuid, pointcloud_num=10,
    )


def run_impl(case):
    I = _I()
    try:
        te = float(Fraction(case["te"])) * PI
        se = case.get("se", 0)
        if case["kind"] == "nogt":
            q = _quat(I, te, None)
            e = _obj(I, I.FrameID.BASE_LINK, (3.0, 1.0, 0.0), -q if se else q, "e")
            r = I.DynamicObjectWithPerceptionResult(e, None)
            he = r.heading_error
            return {"r": [{"w": float(I.TPMetricsAph().get_value(r)), "err": None if he is None else float(he[2])}]}
        tg = float(Fraction(case["tg"])) * PI
        t0 = float(Fraction(case["t0"])) * PI
        rp = case.get("rp")
        qe = _quat(I, te, rp[0:2] if rp else None)
        qg = _quat(I, tg, rp[2:4] if rp else None)
        pe, pg = (case["pos"][0], case["pos"][1], 0.0), (case["pos"][2], case["pos"][3], 0.0)
        ego2map = I.HomogeneousMatrix(
            (case["tx"], case["ty"], 0.0), I.Quaternion(axis=[0, 0, 1], angle=t0), I.FrameID.BASE_LINK, I.FrameID.MAP
        )
        transforms = I.TransformDict([ego2map])
        from harness import builders as _B  # registry with a history (replaced ego pose), see builders.give_history

        transforms = _B.maybe_history(transforms, ego2map, ("c09", case["te"], case.get("tg"), case["tx"]))
        cache = {}

        def obj(which, frame, sign):
            k = (which, frame, sign)
            if k not in cache:
                p, q = (pe, qe) if which == 0 else (pg, qg)
                if frame == 1:
                    p, q = ego2map.transform(p, q)  # the repository's own rigid motion
                cache[k] = _obj(I, I.FrameID.MAP if frame else I.FrameID.BASE_LINK, p, -q if sign else q, "eg"[which])
            return cache[k]

        out = []
        for i, (f, a, b, s) in enumerate(case["rend"]):
            e, g = obj(0, f, a), obj(1, f, b)
            if s:
                e, g = g, e
            r = I.DynamicObjectWithPerceptionResult(e, g, transforms=transforms if f else None)
            w = I.TPMetricsAph().get_value(r)
            he = r.heading_error
            d = {"w": float(w), "err": float(he[2])}
            if case.get("ap") and i % 5 == 0:
                ap = I.Ap(I.TPMetricsAph(), [[r]], 1, [I.AutowareLabel.CAR], I.MatchingMode.CENTERDISTANCE, [1000.0])
                d["tp"] = [float(x) for x in ap.tp_list]
            out.append(d)
        res = {"r": out}
        # objects DERIVED from already-scored ones the way the library derives them (deepcopy, then the state /
        # orientation is replaced: interpolation, frame conversion) must be weighted by their CURRENT heading
        try:
            from copy import deepcopy

            from perception_eval.common.object import ObjectState

            e0, g0 = obj(0, 0, 0), obj(1, 0, 0)
            I.TPMetricsAph().get_value(I.DynamicObjectWithPerceptionResult(e0, g0))  # make sure both were scored
            d1 = deepcopy(e0)
            d1.state = ObjectState(e0.state.position, g0.state.orientation, e0.state.shape, e0.state.velocity)
            d2 = deepcopy(e0)
            d2.state.orientation = g0.state.orientation
            dr = []
            for dd in (d1, d2):
                r = I.DynamicObjectWithPerceptionResult(dd, g0)
                dr.append({"w": float(I.TPMetricsAph().get_value(r)), "err": float(r.heading_error[2])})
            res["derived"] = dr
        except Exception as e:  # noqa
            res["derived"] = [{"exc": type(e).__name__}]
        return res
    except Exception as e:  # noqa
        return {"err": type(e).__name__, "msg": str(e)[:200]}


# ----------------------------------------------------------------------------- model side

def model_requests(case, out):
    return [{"op": "pair", "te": case["te"], "tg": case.get("tg"), "t0": case.get("t0", "0")}]


def _tol(case):
    return TOL_RP if case.get("rp") else TOL


def _mkey(f, s):
    return ("M" if f else "") + ("S" if s else "")


def compare(case, out, resps):
    m = resps[0]
    if "err" in out and "r" not in out:
        return f"implementation raised {out['err']}: {out.get('msg')}"
    if case["kind"] == "nogt":
        r = out["r"][0]
        ok = r["w"] == float(core.unq(m["w"])) and r["err"] is None and m["err"] is None
        return None if ok else f"no ground truth: impl {r} model {m}"
    tol = _tol(case)
    d = core.unq(m["d"])
    near_boundary = float(1 - d) < (1e-12 if not case.get("rp") else 4 * TOL_RP)
    for (f, a, b, s), r in zip(case["rend"], out["r"]):
        k = _mkey(f, s)
        mw = float(core.unq(m["w" + k]))
        me = float(core.unq(m["err" + k]))
        if not abs(r["w"] - mw) <= tol:
            return f"rendering {[f, a, b, s]}: weight impl {r['w']!r} != model {mw!r}"
        ie = r["err"] / PI
        if near_boundary:
            if not abs(abs(ie) - abs(me)) <= max(tol, 4 * TOL_RP if case.get("rp") else 0):
                return f"rendering {[f, a, b, s]}: |yaw error|/π impl {abs(ie)!r} != model {abs(me)!r} (boundary)"
        elif not abs(ie - me) <= tol:
            return f"rendering {[f, a, b, s]}: yaw error/π impl {ie!r} != model {me!r}"
        if "tp" in r:
            if len(r["tp"]) != 1 or not abs(r["tp"][0] - mw) <= tol:
                return f"rendering {[f, a, b, s]}: Ap.tp_list {r['tp']} != [model weight {mw!r}]"
    return None


# ----------------------------------------------------------------------------- oracle (independent of the model)

def _names(r):
    f, a, b, s = r
    return f"{'MAP' if f else 'BASE_LINK'}/est={'-q' if a else 'q'}/gt={'-q' if b else 'q'}{'/swapped' if s else ''}"


def oracle(case, out):
    for k_, dv in enumerate(out.get("derived", []) if isinstance(out, dict) else []):
        if "exc" in dv:
            return f"scoring a derived object raised {dv['exc']}"
        if abs(dv["w"] - 1.0) > 1e-9 or abs(dv["err"]) > 1e-9:
            return (f"an object derived from a scored one by deepcopy + new orientation (now equal to the ground truth's) "
                    f"gets heading weight {dv['w']!r} and yaw error {dv['err']!r}; a fresh object gets 1.0 and 0.0")
    if "r" not in out:
        return f"the implementation raised {out.get('err')}: {out.get('msg')}"
    if case["kind"] == "nogt":
        return None  # outside the property's quantifier (pairs of orientations); compared with the model only
    tol = _tol(case)
    ye = float(Fraction(case["te"])) * PI
    yg = float(Fraction(case["tg"])) * PI
    # the true minimal absolute yaw difference, from the real yaws
    d = abs(math.remainder(yg - ye, 2 * PI))
    d2 = abs(math.atan2(math.sin(yg - ye), math.cos(yg - ye)))
    assert abs(d - d2) < 1e-12 and 0.0 <= d <= PI + 1e-15
    wref = 1.0 - d / PI
    te, tg = Fraction(case["te"]), Fraction(case["tg"])
    rs = list(zip(case["rend"], out["r"]))
    for rd, r in rs:
        w, err = r["w"], r["err"]
        if not (0.0 <= w <= 1.0):
            return f"{_names(rd)}: weight {w!r} outside [0,1] (yaw_est={ye!r}, yaw_gt={yg!r})"
        if not (-PI <= err <= PI):
            return f"{_names(rd)}: yaw error {err!r} outside [-pi,pi] (yaw_est={ye!r}, yaw_gt={yg!r})"
    # invariances first (clearer messages), against the first rendering
    rd0, r0 = rs[0]
    for rd, r in rs[1:]:
        if abs(r["w"] - r0["w"]) > 2 * tol:
            diff = [n for n, x, y in zip(("frame", "sign of the estimate's quaternion", "sign of the ground truth's quaternion", "roles (symmetry)"), rd0, rd) if x != y]
            return (f"weight depends on {', '.join(diff)}: {_names(rd0)} gives {r0['w']!r}, {_names(rd)} gives {r['w']!r} "
                    f"(yaw_est={ye!r}, yaw_gt={yg!r}, d={d!r})")
        if abs(abs(r["err"]) - abs(r0["err"])) > 2 * tol * PI:
            diff = [n for n, x, y in zip(("frame", "sign of the estimate's quaternion", "sign of the ground truth's quaternion", "roles (swap)"), rd0, rd) if x != y]
            return (f"|yaw error| depends on {', '.join(diff)}: {_names(rd0)} gives {r0['err']!r}, {_names(rd)} gives {r['err']!r} "
                    f"(yaw_est={ye!r}, yaw_gt={yg!r}, d={d!r})")
    for rd, r in rs:
        w, err = r["w"], r["err"]
        if te == tg and not case.get("rp") and abs(w - 1.0) > tol:
            return f"{_names(rd)}: equal yaws {ye!r} but weight {w!r} != 1"
        if abs(te - tg) == 1 and not case.get("rp") and abs(w) > tol:
            return f"{_names(rd)}: opposite headings (yaw_est={ye!r}, yaw_gt={yg!r}) but weight {w!r} != 0"
        if abs(w - wref) > tol:
            return f"{_names(rd)}: weight {w!r} != 1 - d/pi = {wref!r} (yaw_est={ye!r}, yaw_gt={yg!r}, d={d!r})"
        if abs(abs(err) - d) > tol * PI:
            return f"{_names(rd)}: |yaw error| {abs(err)!r} != d = {d!r} (yaw_est={ye!r}, yaw_gt={yg!r})"
        if "tp" in r and (len(r["tp"]) != 1 or abs(r["tp"][0] - wref) > tol):
            return f"{_names(rd)}: Ap(TPMetricsAph).tp_list {r['tp']} != [1 - d/pi = {wref!r}]"
    return None


# ----------------------------------------------------------------------------- generation

def _pose(rng):
    t0 = Fraction(rng.randint(-63, 64), 64)
    return core.q(t0), core.dyadic(rng, -200, 200, 8), core.dyadic(rng, -200, 200, 8)


def _pos(rng):
    x, y = core.dyadic(rng, -30, 30, 8), core.dyadic(rng, -30, 30, 8)
    if x == 0 and y == 0:
        x = 1.0
    return [x, y, x + core.dyadic(rng, -1, 1, 8), y + core.dyadic(rng, -1, 1, 8)]


def _case(rng, te, tg, rend, t0=None, rp=None, ap=False):
    p0, tx, ty = _pose(rng)
    c = {"kind": "pair", "te": core.q(te), "tg": core.q(tg), "t0": p0 if t0 is None else core.q(t0), "tx": tx, "ty": ty,
         "pos": _pos(rng), "rend": rend}
    if rp is not None:
        c["rp"] = rp
    if ap:
        c["ap"] = True
    return c


def _dom(t):
    """bring a rational into (−1, 1]"""
    while t > 1:
        t -= 2
    while t <= -1:
        t += 2
    return t


def corpus():
    import random

    rng = random.Random(9)
    cs = []
    # F3 (fixed): ego frame, yaw -0.3 rad vs +0.3 rad (τ = ±0.3/π is irrational; ±3/32 ≈ ±0.2945 rad shows the same)
    cs.append(_case(rng, Fraction(-3, 32), Fraction(3, 32), ALL16, ap=True))
    cs.append(_case(rng, Fraction(3, 32), Fraction(-3, 32), ALL16))
    # F4 (fixed): estimate +, GT − : error must be −0.6, not 2.54
    cs.append(_case(rng, Fraction(6, 64), Fraction(-6, 64), ALL16, t0=0))
    # wrap-around pairs, boundary pairs, the cut at ±π, heading cut at yaw = π/2
    for te, tg in [(Fraction(3, 4), Fraction(-7, 8)), (1, 0), (0, 1), (1, 1), (Fraction(1, 2), Fraction(-1, 2)), (Fraction(1, 2), Fraction(33, 64)),
                   (Fraction(-63, 64), 1), (Fraction(-63, 64), Fraction(1, 64)), (Fraction(1, 2), Fraction(1, 2)), (0, 0)]:
        cs.append(_case(rng, Fraction(te), Fraction(tg), ALL16))
    # the exception of headingError_frame_invariant: d = π, ego rotation moves one yaw across the cut
    cs.append(_case(rng, Fraction(0), Fraction(1), ALL16, t0=Fraction(1, 2)))
    cs.append({"kind": "nogt", "te": "1/4", "se": 0, "t0": "0"})
    cs.append({"kind": "nogt", "te": "-3/4", "se": 1, "t0": "0"})
    return cs


def generate(rng, tier):
    cases = []
    # exhaustive grids
    g8 = [Fraction(k, 8) for k in range(-7, 9)]
    n = 0
    for a in g8:
        for b in g8:
            cases.append(_case(rng, a, b, ALL16, ap=(n % 8 == 0)))
            n += 1
    if tier == "thorough":
        g64 = [Fraction(k, 64) for k in range(-63, 65)]
        for i, a in enumerate(g64):
            for j, b in enumerate(g64):
                cases.append(_case(rng, a, b, _rend4(i + 3 * j)))
    scale = 1 if tier == "quick" else 3
    # random pairs of the fine grid, all renderings
    for _ in range(120 * scale):
        cases.append(_case(rng, Fraction(rng.randint(-63, 64), 64), Fraction(rng.randint(-63, 64), 64), ALL16, ap=rng.random() < 0.1))
    # random rationals
    for _ in range(120 * scale):
        N = rng.choice([3, 5, 7, 9, 11, 100, 360, 1000, 10**6, 10**9, rng.randint(2, 10**6)])
        cases.append(_case(rng, Fraction(rng.randint(-N + 1, N), N), Fraction(rng.randint(-N + 1, N), N), ALL16))
    # boundary family d = π and its neighbourhood; near-equal yaws
    eps_list = [Fraction(0), Fraction(1, 1000), Fraction(1, 10**6), Fraction(1, 2**30), Fraction(1, 10**10), Fraction(1, 10**13)]
    for _ in range(12 * scale):
        te = Fraction(rng.randint(-63, 64), 64) if rng.random() < 0.7 else Fraction(rng.randint(-999, 1000), 1000)
        for eps in eps_list:
            sgn = rng.choice([1, -1])
            cases.append(_case(rng, te, _dom(te + 1 + sgn * eps), ALL16))
            if rng.random() < 0.5:
                cases.append(_case(rng, te, _dom(te + sgn * eps), ALL16))
    # roll / pitch on the Python side only
    for _ in range(80 * scale):
        rp = [rng.uniform(-1e-3, 1e-3) if rng.random() < 0.8 else 0.0 for _ in range(4)]
        if rng.random() < 0.5:
            te, tg = Fraction(rng.randint(-63, 64), 64), Fraction(rng.randint(-63, 64), 64)
        else:
            te = Fraction(rng.randint(-999, 1000), 1000)
            tg = _dom(te + rng.choice([0, 1, Fraction(1, 2), Fraction(rng.randint(-999, 1000), 1000)]))
        cases.append(_case(rng, te, tg, ALL16, rp=rp))
    for _ in range(4):
        cases.append({"kind": "nogt", "te": core.q(Fraction(rng.randint(-63, 64), 64)), "se": rng.randint(0, 1), "t0": "0"})
    return cases


# ----------------------------------------------------------------------------- histogram, shrinking, search

def branches(case, out):
    if case["kind"] == "nogt":
        return ["trivial", "nogt"]
    te, tg, t0 = Fraction(case["te"]), Fraction(case["tg"]), Fraction(case["t0"])
    br = []
    delta = abs(te - tg)
    d = min(delta, 2 - delta)
    br.append("fold:2pi-d" if delta > 1 else "fold:none")
    br.append("d:0" if d == 0 else "d:pi" if d == 1 else "d:near-pi" if 1 - d < Fraction(1, 10**8) else "d:near-0" if d < Fraction(1, 10**8) else "d:interior")
    if 0 < 1 - d < Fraction(1, 10**12) or (d == 1):
        br.append("boundary:either-sign")
    for nm, t in (("est", te), ("gt", tg)):
        br.append(f"heading-wrap:{nm}:{'+2pi' if t > Fraction(1, 2) else 'none'}")
    diff = tg - te
    br.append("clip:+2pi" if diff < -1 else "clip:-2pi" if diff > 1 else "clip:none")
    for nm, t in (("est", te), ("gt", tg)):
        s = t + t0
        br.append(f"map-yaw-wrap:{nm}:{'-2' if s > 1 else '+2' if s <= -1 else 'none'}")
    br.append("rp" if case.get("rp") else "yaw-only")
    br.append(f"renderings:{len(case['rend'])}")
    if case.get("ap"):
        br.append("ap.tp_list")
    if "r" in out:
        es = {(r["err"] > 0) - (r["err"] < 0) for r in out["r"]}
        br.append("err-sign:" + ",".join(str(x) for x in sorted(es)))
        if d == 1:
            # same roles, different frame / quaternion sign: do the renderings report +π and −π?
            for sw in (0, 1):
                sg = {r["err"] > 0 for rd, r in zip(case["rend"], out["r"]) if rd[3] == sw}
                if len(sg) > 1:
                    br.append("boundary:renderings-differ-in-sign")
                    break
    else:
        br.append("impl-error:" + str(out.get("err")))
    return br


def shrink(case):
    if case["kind"] != "pair":
        return
    if case.get("rp"):
        c = dict(case)
        c.pop("rp")
        yield c
    if case.get("ap"):
        c = dict(case)
        c.pop("ap")
        yield c
    rend = case["rend"]
    if len(rend) > 2:
        # pairs of renderings (the invariance messages need two), then single ones
        for i in range(len(rend)):
            for j in range(i + 1, len(rend)):
                c = dict(case)
                c["rend"] = [rend[i], rend[j]]
                yield c
    if len(rend) > 1:
        for r in rend:
            c = dict(case)
            c["rend"] = [r]
            yield c
    for den in (4, 8, 16, 64):
        c = dict(case)
        ch = False
        for k in ("te", "tg", "t0"):
            t = Fraction(case[k])
            s = _dom(Fraction(round(t * den), den))
            if s != t:
                c[k] = core.q(s)
                ch = True
        if ch:
            yield c
    if case["t0"] != "0" or case["tx"] or case["ty"]:
        c = dict(case)
        c.update({"t0": "0", "tx": 0.0, "ty": 0.0})
        yield c
    if case["pos"] != [3.0, 1.0, 3.5, 1.0]:
        c = dict(case)
        c["pos"] = [3.0, 1.0, 3.5, 1.0]
        yield c


def search(rng, st, disagreements):
    """the k/16 grid with all sixteen renderings, then a fresh quick batch"""
    g = [Fraction(k, 16) for k in range(-15, 17)]
    cs = [_case(rng, a, b, ALL16) for a in g for b in g]
    return cs + generate(rng, "quick")
